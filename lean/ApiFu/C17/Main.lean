/-
  C17 model driver. One S-expression per line; decoded JSON objects travel as their canonical
  JSON text (`J := String`).

    (http <method> <pQuery> <pVars> <pOp> <pExt> <media> <jsonBody> "<rawBody>")
        method   := get | post | other
        pQuery   := none | (s "<text>")             pOp likewise
        pVars    := absent | empty | bad | null | (obj "<canonical json>")    pExt likewise
        media    := json | graphql | other | unparsable
        jsonBody := bad | (ok "<query>" "<operationName>" <map> <map>)        map := nil | (obj "<canonical json>")
      → (reject <status> "<message>") | (req "<query>" "<operationName>" <map> <map>)

    (ws <kind> <didInit> <msg>)
        kind := gql | tws      didInit := true | false
        msg  := undecodable | (start "<id>" <payload>)      payload := bad | (ok "<query>" <map> "<operationName>")
      → ignore | (close <code> "<text>") | (start "<id>" "<query>" <map> "<operationName>")

    (url-get "<raw query>" "<name>")        → none | (s "<first value>")      -- net/url transliteration (UrlCodec.lean)
    (url-encode ("<name>" "<value>") …)     → (raw "<name=value&…>")

    (serve-http <cfg> <http…as above, without the tag>)        cfg := (cfg <hook> <features> <cost>)  (booleans)
      → (status <code> "<message>") | (ok <core>)
    (serve-ws <cfg> <kind> <didInit> <msg>)
      → nothing | (closed <code> "<text>") | (data "<id>" <core>) | (subscription "<id>")
        core := (exec <ctx> <schema> <feat> (pv "<query>" <schema> <feat> "<operationName>" <map> <cost>) <req>)
        ctx := reqctx | connctx     schema := (build def) | (build (preprocess (clone def)))
        feat := nil | (fn <ctx>)    cost := zero | default

    (jpost x<hex>) | (jpayload x<hex>) | (jmap x<hex>) | (jframe x<hex>)     -- byte-level JSON decoders, see JsonDriver.lean

  In the `serve-*` operations the uninterpreted pipeline pieces are instantiated by *term
  constructors*: the reply names the calls the model makes and their arguments; the harness
  evaluates that term with the real library (called directly, without any transport) and compares
  the result with what the transport delivered. The harness states whether the operation is a
  subscription by prefixing the query text it sends with nothing special: `isSubscription` is
  answered `false` by the driver (the harness generates queries and mutations only).
-/
import ApiFu.Common.Sexp
import ApiFu.Common.Loop
import ApiFu.C17.Model
import ApiFu.C17.UrlCodec
import ApiFu.C17.JsonDriver

open ApiFu ApiFu.C17

abbrev J := String

def mapSexp : Option J → Sexp
  | none => Sexp.atom "nil"
  | some j => Sexp.node "obj" [Sexp.str j]

def parseMap : Sexp → Option (Option J)
  | Sexp.atom "nil" => some none
  | Sexp.list [Sexp.atom "obj", Sexp.atom j] => some (some j)
  | _ => none

def parseOptStr : Sexp → Option (Option String)
  | Sexp.atom "none" => some none
  | Sexp.list [Sexp.atom "s", Sexp.atom t] => some (some t)
  | _ => none

def parseJsonParam : Sexp → Option (JsonParam J)
  | Sexp.atom "absent" => some .absent
  | Sexp.atom "empty" => some .empty
  | Sexp.atom "bad" => some (.nonempty .bad)
  | Sexp.atom "null" => some (.nonempty .null)
  | Sexp.list [Sexp.atom "obj", Sexp.atom j] => some (.nonempty (.obj j))
  | _ => none

def parseMethod : Sexp → Option Method
  | Sexp.atom "get" => some .get
  | Sexp.atom "post" => some .post
  | Sexp.atom "other" => some .other
  | _ => none

def parseMedia : Sexp → Option Media
  | Sexp.atom "json" => some .json
  | Sexp.atom "graphql" => some .graphql
  | Sexp.atom "other" => some .other
  | Sexp.atom "unparsable" => some .unparsable
  | _ => none

def parseBody : Sexp → Option (BodyOutcome J)
  | Sexp.atom "bad" => some .bad
  | Sexp.list [Sexp.atom "ok", Sexp.atom q, Sexp.atom op, v, e] => do
    let v ← parseMap v
    let e ← parseMap e
    pure (.ok q op v e)
  | _ => none

def parseHttp : List Sexp → Option (AbsHttp J)
  | [m, pq, pv, po, pe, media, jb, Sexp.atom raw] => do
    let m ← parseMethod m
    let pq ← parseOptStr pq
    let pv ← parseJsonParam pv
    let po ← parseOptStr po
    let pe ← parseJsonParam pe
    let media ← parseMedia media
    let jb ← parseBody jb
    pure { method := m, pQuery := pq, pVariables := pv, pOperationName := po, pExtensions := pe,
           media := media, jsonBody := jb, rawBody := raw }
  | _ => none

def parseKind : Sexp → Option WsKind
  | Sexp.atom "gql" => some .graphqlWs
  | Sexp.atom "tws" => some .transportWs
  | _ => none

def parseBool : Sexp → Option Bool
  | Sexp.atom "true" => some true
  | Sexp.atom "false" => some false
  | _ => none

def parsePayload : Sexp → Option (PayloadOutcome J)
  | Sexp.atom "bad" => some .bad
  | Sexp.list [Sexp.atom "ok", Sexp.atom q, v, Sexp.atom op] => do
    let v ← parseMap v
    pure (.ok q v op)
  | _ => none

def parseMsg : Sexp → Option (WsMsg J)
  | Sexp.atom "undecodable" => some .undecodable
  | Sexp.list [Sexp.atom "start", Sexp.atom id, p] => do
    let p ← parsePayload p
    pure (.start id p)
  | _ => none

def reqSexp (r : Req J) : Sexp :=
  Sexp.node "req" [Sexp.str r.query, Sexp.str r.operationName, mapSexp r.variables, mapSexp r.extensions]

/-! Term instantiation of the uninterpreted pipeline (see the header). -/

/-- Everything is a term. -/
abbrev T := Sexp

/-- `parseAndValidate` never fails in the term world: the error branch and the success branch of
    `core` are the two outcomes of one real call, which the harness makes when it evaluates the
    `pv` term; the document is represented by the call that produces it. -/
def termPipeline : Pipeline Id J T T T T T T where
  parseAndValidate := fun q schema feat op vars cost =>
    pure (.ok (Sexp.node "pv" [Sexp.str q, schema, feat, Sexp.str op, mapSexp vars, cost], 0))
  isSubscription := fun _ _ => false
  execute := fun ctx schema feat doc req _c => pure (Sexp.node "exec" [ctx, schema, feat, doc, reqSexp req])

def termSchemaOps : SchemaOps T T where
  build := fun d => Sexp.node "build" [d]
  clone := fun d => Sexp.node "clone" [d]

def termApi (hook feat cost : Bool) : Api T T T T :=
  { definition := Sexp.atom "def"
    preprocess := if hook then some (fun d => Sexp.node "preprocess" [d]) else none
    featuresFn := if feat then some (fun ctx => Sexp.node "fn" [ctx]) else none
    nilFeatures := Sexp.atom "nil"
    defaultCost := Sexp.atom (if cost then "default" else "zero") }

def parseCfg : Sexp → Option (Api T T T T)
  | Sexp.list [Sexp.atom "cfg", h, f, c] => do
    let h ← parseBool h
    let f ← parseBool f
    let c ← parseBool c
    pure (termApi h f c)
  | _ => none

def parsePairs : List Sexp → Option (List (String × String))
  | [] => some []
  | Sexp.list [Sexp.atom k, Sexp.atom v] :: rest => (parsePairs rest).map ((k, v) :: ·)
  | _ => none

def handle (line : String) : String :=
  match Sexp.parse line with
  | some (Sexp.list [Sexp.atom "url-get", Sexp.atom raw, Sexp.atom k]) =>
    match Url.goUrlGet raw k with
    | none => "none"
    | some v => toString (Sexp.node "s" [Sexp.str v])
  | some (Sexp.list (Sexp.atom "url-encode" :: pairs)) =>
    match parsePairs pairs with
    | none => "bad-op"
    | some kvs => toString (Sexp.node "raw" [Sexp.str (Url.goUrlEncode kvs)])
  | some (Sexp.list (Sexp.atom "http" :: rest)) =>
    match parseHttp rest with
    | none => "bad-op"
    | some h =>
      match decideHTTP h with
      | .error rj => toString (Sexp.node "reject" [Sexp.ofNat rj.status, Sexp.str rj.message])
      | .ok r => toString (reqSexp r)
  | some (Sexp.list [Sexp.atom "ws", k, d, m]) =>
    match parseKind k, parseBool d, parseMsg m with
    | some k, some d, some m =>
      match wsDecide k d m with
      | .ignore => "ignore"
      | .close code text => toString (Sexp.node "close" [Sexp.ofNat code, Sexp.str text])
      | .handleStart id q v op => toString (Sexp.node "start" [Sexp.str id, Sexp.str q, mapSexp v, Sexp.str op])
    | _, _, _ => "bad-op"
  | some (Sexp.list (Sexp.atom "serve-http" :: cfg :: rest)) =>
    match parseCfg cfg, parseHttp rest with
    | some a, some h =>
      match Id.run (serveGraphQL termPipeline termSchemaOps a (Sexp.atom "reqctx") h) with
      | .error st msg => toString (Sexp.node "status" [Sexp.ofNat st, Sexp.str msg])
      | .ok t => toString (Sexp.node "ok" [t])
    | _, _ => "bad-op"
  | some (Sexp.list [Sexp.atom "serve-ws", cfg, k, d, m]) =>
    match parseCfg cfg, parseKind k, parseBool d, parseMsg m with
    | some a, some k, some d, some m =>
      match Id.run (serveWS termPipeline termSchemaOps a k d (Sexp.atom "connctx") m) with
      | .nothing => "nothing"
      | .closed code text => toString (Sexp.node "closed" [Sexp.ofNat code, Sexp.str text])
      | .dataThenComplete id t => toString (Sexp.node "data" [Sexp.str id, t])
      | .subscription id => toString (Sexp.node "subscription" [Sexp.str id])
    | _, _, _, _ => "bad-op"
  | some (Sexp.list [Sexp.atom op, Sexp.atom arg]) =>
    -- byte-level JSON model (JsonDriver.lean): jpost | jpayload | jmap | jframe
    Json.jsonHandle op arg
  | _ => "bad-op"

def main : IO Unit := lineLoopPure handle
