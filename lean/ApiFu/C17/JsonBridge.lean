/-
  C17 — `NewRequestFromHTTP` and the two WebSocket `handleMessage`s on *bytes*: the decision model
  of `Model.lean` (`decideHTTP`, `wsDecide`) with the outcome parameters instantiated by the
  byte-level decoders of `Json.lean` (encoding/json, json-iterator) and `UrlCodec.lean` (net/url).
  Only `mime.ParseMediaType` stays a parameter. Core Lean only.

  Go strings are byte strings; the model's `String` fields carry them through `latin1` (byte n ↦
  the character with code point n), which is injective — no byte string is identified with another.
-/
import ApiFu.C17.Model
import ApiFu.C17.UrlCodec
import ApiFu.C17.Json

namespace ApiFu.C17.Json
open ApiFu.C17

def latin1 (b : Bytes) : String := String.ofList (b.map Char.ofNat)

/-- An HTTP request as bytes (`mediaType` = `mime.ParseMediaType(Content-Type)` as the switch sees it). -/
structure HttpBytes where
  method : Method
  rawQuery : Bytes
  media : Media
  body : Bytes


/-- `r.URL.Query().Get(name)` (`none`: absent). -/
def urlGetB (rawQuery name : Bytes) : Option Bytes := (Url.parseQuery rawQuery).lookup name

def mapOutcome (text : Bytes) : MapOutcome JMems :=
  match getMapDecode text with
  | none => .bad
  | some none => .null
  | some (some m) => .obj m

def jsonParamB (rawQuery name : Bytes) : JsonParam JMems :=
  match urlGetB rawQuery name with
  | none => .absent
  | some s => if s = [] then .empty else .nonempty (mapOutcome s)

def bodyOutcome (body : Bytes) : BodyOutcome JMems :=
  match postDecode body with
  | none => .bad
  | some e => .ok (latin1 e.query) (latin1 e.operationName) e.variables e.extensions

def abstractBytes (h : HttpBytes) : AbsHttp JMems :=
  { method := h.method
    pQuery := (urlGetB h.rawQuery tagQuery).map latin1
    pVariables := jsonParamB h.rawQuery tagVariables
    pOperationName := (urlGetB h.rawQuery tagOperationName).map latin1
    pExtensions := jsonParamB h.rawQuery tagExtensions
    media := h.media
    jsonBody := bodyOutcome h.body
    rawBody := latin1 h.body }

/-- `graphql.NewRequestFromHTTP` on bytes. -/
def newRequestBytes (h : HttpBytes) : Except Reject (Req JMems) := decideHTTP (abstractBytes h)

def startTypeB : WsKind → Bytes
  | .graphqlWs => [115, 116, 97, 114, 116]                          -- "start"
  | .transportWs => [115, 117, 98, 115, 99, 114, 105, 98, 101]      -- "subscribe"

def payloadOutcome (p : Option Bytes) : PayloadOutcome JMems :=
  match p with
  | none => .bad                          -- jsoniter.Unmarshal(nil, …) fails
  | some raw =>
    match wsPayloadDecode raw with
    | none => .bad
    | some e => .ok (latin1 e.query) e.variables (latin1 e.operationName)

/-- A frame as `wsDecide` sees it; `none`: a message of another type (C08's subject). -/
def abstractFrame (k : WsKind) (frame : Bytes) : Option (WsMsg JMems) :=
  match decodeMsg frame with
  | none => some .undecodable
  | some m => if m.type = startTypeB k then some (.start (latin1 m.id) (payloadOutcome m.payload)) else none

/-- `handleMessage` on bytes, for operation-starting frames and undecodable ones. -/
def wsBytes (k : WsKind) (didInit : Bool) (frame : Bytes) : Option (WsAct JMems) :=
  (abstractFrame k frame).map (wsDecide k didInit)

end ApiFu.C17.Json
