/-
  C17 — the two unquoters agree on *well-formed* string content: ASCII, simple escapes, non-surrogate
  `\u` escapes, well-formed surrogate pairs `\uD8xx\uDCxx`, and valid multi-byte UTF-8 sequences
  (`wellFormed`). This widens `plain` (JsonProps.lean), which excluded every byte ≥ 0x80 and every
  surrogate escape; what stays outside is exactly where the libraries differ: invalid UTF-8 and
  unpaired surrogates.
-/
import ApiFu.C17.Json
import ApiFu.C17.JsonProps

namespace ApiFu.C17.Json

/-- Well-formed raw string content (fuel: any number > length). -/
def wellFormed : Nat → Bytes → Bool
  | 0, _ => true
  | _, [] => true
  | fuel + 1, c :: t =>
    if c = 92 then
      match getU4 (c :: t) with
      | some (r, t4) =>
        if isSurrogate r then
          match getU4 t4 with
          | some (r2, t8) =>
            match decodePair r r2 with
            | some _ => wellFormed fuel t8          -- a proper pair
            | none => false
          | none => false
        else wellFormed fuel t4
      | none =>
        match t with
        | _ :: t' => wellFormed fuel t'
        | [] => true
    else if c < 0x80 then wellFormed fuel t
    else
      -- a valid multi-byte encoding (`utf8Len`); its continuation bytes are ≥ 0x80, in particular not `\`
      match utf8Len (c :: t), t with
      | some 2, c1 :: t' => decide (c1 ≠ 92) && wellFormed fuel t'
      | some 3, c1 :: c2 :: t' => decide (c1 ≠ 92) && decide (c2 ≠ 92) && wellFormed fuel t'
      | some 4, c1 :: c2 :: c3 :: t' => decide (c1 ≠ 92) && decide (c2 ≠ 92) && decide (c3 ≠ 92) && wellFormed fuel t'
      | _, _ => false

theorem unqI_ne92 (f : Nat) (c : Nat) (t : Bytes) (h : c ≠ 92) : unqI (f + 1) (c :: t) = c :: unqI f t := by
  simp [unqI, h]

theorem getU4_length {s t4 : Bytes} {r : Nat} (h : getU4 s = some (r, t4)) : t4.length < s.length := by
  unfold getU4 at h
  split at h
  · split at h
    · simp only [Option.some.injEq, Prod.mk.injEq] at h
      rw [← h.2]; simp only [List.length_cons]; omega
    · simp at h
  · simp at h

/-- **unquote_agree_of_wellFormed_fuel** — whatever fuel the two unquoters are given (more than
    the length), on well-formed content they produce the same text. -/
theorem unquote_agree_of_wellFormed_fuel : ∀ (n : Nat) (raw : Bytes) (fw f1 f2 : Nat), raw.length = n →
    raw.length < fw → raw.length < f1 → raw.length < f2 → wellFormed fw raw = true →
    unqS f1 raw = unqI f2 raw := by
  intro n
  induction n using Nat.strongRecOn with
  | _ n ih =>
    intro raw fw f1 f2 hn hw h1 h2 hwf
    cases raw with
    | nil => cases f1 <;> cases f2 <;> simp [unqS, unqI]
    | cons c t =>
      obtain ⟨fw, rfl⟩ : ∃ k, fw = k + 1 := ⟨fw - 1, by omega⟩
      obtain ⟨f1, rfl⟩ : ∃ k, f1 = k + 1 := ⟨f1 - 1, by omega⟩
      obtain ⟨f2, rfl⟩ : ∃ k, f2 = k + 1 := ⟨f2 - 1, by omega⟩
      simp only [List.length_cons] at hn hw h1 h2
      have recur : ∀ (s : Bytes), s.length < (c :: t).length → wellFormed fw s = true → unqS f1 s = unqI f2 s := by
        intro s hs hwfs
        simp only [List.length_cons] at hs
        exact ih s.length (by omega) s fw f1 f2 rfl (by omega) (by omega) (by omega) hwfs
      unfold unqS unqI
      unfold wellFormed at hwf
      by_cases hc : c = 92
      · simp only [hc, if_true] at hwf ⊢
        subst hc
        cases hg : getU4 (92 :: t) with
        | some p =>
          obtain ⟨r, t4⟩ := p
          have hl4 := getU4_length hg
          simp only [hg] at hwf ⊢
          by_cases hsur : isSurrogate r = true
          · simp only [hsur, if_true] at hwf ⊢
            cases hg2 : getU4 t4 with
            | some p2 =>
              obtain ⟨r2, t8⟩ := p2
              have hl8 := getU4_length hg2
              simp only [hg2] at hwf ⊢
              cases hd : decodePair r r2 with
              | some rr =>
                simp only [hd] at hwf ⊢
                rw [recur t8 (by omega) hwf]
              | none => simp [hd] at hwf
            | none => simp [hg2] at hwf
          · simp only [hsur, Bool.false_eq_true, if_false] at hwf ⊢
            rw [recur t4 hl4 hwf]
        | none =>
          simp only [hg] at hwf ⊢
          cases t with
          | nil => rfl
          | cons e t' =>
            simp only at hwf ⊢
            rw [recur t' (by simp only [List.length_cons]; omega) hwf]
      · simp only [hc, if_false] at hwf ⊢
        by_cases hlt : c < 0x80
        · simp only [hlt, if_true] at hwf ⊢
          rw [recur t (by simp only [List.length_cons]; omega) hwf]
        · simp only [hlt, if_false] at hwf ⊢
          split at hwf
          · -- two bytes
            rename_i c1 t' hu
            simp only [Bool.and_eq_true, decide_eq_true_eq] at hwf
            simp only [hu, List.take, List.drop]
            have hf2 : ∃ k, f2 = k + 1 := ⟨f2 - 1, by simp only [List.length_cons] at h2; omega⟩
            obtain ⟨g2, rfl⟩ := hf2
            rw [unqI_ne92 g2 c1 t' hwf.1]
            have := ih t'.length (by simp only [List.length_cons] at hn; omega) t' fw f1 g2 rfl
              (by simp only [List.length_cons] at hw; omega) (by simp only [List.length_cons] at h1; omega)
              (by simp only [List.length_cons] at h2; omega) hwf.2
            simp [this]
          · -- three bytes
            rename_i c1 c2 t' hu
            simp only [Bool.and_eq_true, decide_eq_true_eq] at hwf
            simp only [hu, List.take, List.drop]
            have hf2 : ∃ k, f2 = k + 2 := ⟨f2 - 2, by simp only [List.length_cons] at h2; omega⟩
            obtain ⟨g2, rfl⟩ := hf2
            rw [unqI_ne92 (g2 + 1) c1 _ hwf.1.1, unqI_ne92 g2 c2 t' hwf.1.2]
            have := ih t'.length (by simp only [List.length_cons] at hn; omega) t' fw f1 g2 rfl
              (by simp only [List.length_cons] at hw; omega) (by simp only [List.length_cons] at h1; omega)
              (by simp only [List.length_cons] at h2; omega) hwf.2
            simp [this]
          · -- four bytes
            rename_i c1 c2 c3 t' hu
            simp only [Bool.and_eq_true, decide_eq_true_eq] at hwf
            simp only [hu, List.take, List.drop]
            have hf2 : ∃ k, f2 = k + 3 := ⟨f2 - 3, by simp only [List.length_cons] at h2; omega⟩
            obtain ⟨g2, rfl⟩ := hf2
            rw [unqI_ne92 (g2 + 2) c1 _ hwf.1.1.1, unqI_ne92 (g2 + 1) c2 _ hwf.1.1.2, unqI_ne92 g2 c3 t' hwf.1.2]
            have := ih t'.length (by simp only [List.length_cons] at hn; omega) t' fw f1 g2 rfl
              (by simp only [List.length_cons] at hw; omega) (by simp only [List.length_cons] at h1; omega)
              (by simp only [List.length_cons] at h2; omega) hwf.2
            simp [this]
          · simp at hwf

def wellFormedRaw (raw : Bytes) : Bool := wellFormed (raw.length + 1) raw

/-- **unquote_agree_of_wellFormed** — encoding/json and json-iterator unquote well-formed string
    content (valid UTF-8, proper surrogate pairs, any other escape) to the same text. -/
theorem unquote_agree_of_wellFormed (raw : Bytes) (h : wellFormedRaw raw = true) :
    unquote .std raw = unquote .iter raw := by
  simp only [unquote]
  exact unquote_agree_of_wellFormed_fuel raw.length raw _ _ _ rfl (by omega) (by omega) (by omega) h

/-- "é😀" as raw UTF-8 followed by the escaped pair `😀`: well-formed, both give é😀😀. -/
example : wellFormedRaw [0xC3, 0xA9, 0xF0, 0x9F, 0x98, 0x80, 92, 117, 100, 56, 51, 100, 92, 117, 100, 101, 48, 48] = true ∧
    unquote .iter [0xC3, 0xA9, 0xF0, 0x9F, 0x98, 0x80, 92, 117, 100, 56, 51, 100, 92, 117, 100, 101, 48, 48] =
      [0xC3, 0xA9, 0xF0, 0x9F, 0x98, 0x80, 0xF0, 0x9F, 0x98, 0x80] := by decide

end ApiFu.C17.Json
