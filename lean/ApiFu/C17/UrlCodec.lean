/-
  C17 — the URL half of the codec, transliterated from Go's net/url (go1.23) at byte level, so that
  the `url_get` law of `Lawful` is a theorem about the real algorithm instead of a hypothesis:

    url.QueryEscape      (escape, mode encodeQueryComponent; shouldEscape)   → `queryEscape`
    url.QueryUnescape    (unescape, mode encodeQueryComponent)               → `queryUnescape`
    url.ParseQuery       (parseQuery: cut at '&', skip pairs with ';' or bad escapes, cut at '=')  → `parseQuery`
    url.Values.Get       (first value)                                       → `List.lookup`
    key=value&key=value  (what url.Values.Encode writes, in the client's order) → `encodePairs`

  Go strings are byte strings: the byte-level functions work on `List Nat` (every element < 256);
  `goUrlGet` / `goUrlEncode` wrap them for Lean strings through UTF-8 (`String.toByteArray`,
  `ByteArray.utf8Decode?`). A decoded value that is not valid UTF-8 has no Lean string: `goUrlGet`
  answers `none` there (the harness does not generate such values).

  Go's `unescape` validates the whole string first and converts in a second pass; the single
  recursive pass below fails exactly when any `%` is not followed by two hex digits, which is the
  same condition. Core Lean only (the driver exposes `goUrlGet` / `goUrlEncode` for the tie).
-/
namespace ApiFu.C17.Url

/-! ## Bytes -/

def unhex (c : Nat) : Option Nat :=
  if 48 ≤ c ∧ c ≤ 57 then some (c - 48)          -- '0'..'9'
  else if 97 ≤ c ∧ c ≤ 102 then some (c - 87)    -- 'a'..'f'
  else if 65 ≤ c ∧ c ≤ 70 then some (c - 55)     -- 'A'..'F'
  else none

/-- `upperhex[n]` -/
def hexDigit (n : Nat) : Nat := if n < 10 then 48 + n else 55 + n

/-- `!shouldEscape(c, encodeQueryComponent)`: letters, digits, `-` `_` `.` `~`. -/
def unreserved (c : Nat) : Bool :=
  (48 ≤ c && c ≤ 57) || (65 ≤ c && c ≤ 90) || (97 ≤ c && c ≤ 122) || c == 45 || c == 95 || c == 46 || c == 126

def escByte (c : Nat) : List Nat :=
  if c = 32 then [43]                                   -- ' ' → '+'
  else if unreserved c then [c]
  else [37, hexDigit (c / 16), hexDigit (c % 16)]       -- '%' upperhex[c>>4] upperhex[c&15]

def queryEscape (s : List Nat) : List Nat := s.flatMap escByte

def queryUnescape : List Nat → Option (List Nat)
  | [] => some []
  | c :: rest =>
    if c = 37 then
      match rest with
      | a :: b :: rest' =>
        match unhex a, unhex b with
        | some x, some y => (queryUnescape rest').map ((x * 16 + y) :: ·)
        | _, _ => none                                  -- EscapeError
      | _ => none                                       -- EscapeError
    else if c = 43 then (queryUnescape rest).map (32 :: ·)
    else (queryUnescape rest).map (c :: ·)

/-- `strings.Cut(s, sep)` for a one-byte separator: before, and after (`none` when absent). -/
def cut (sep : Nat) : List Nat → List Nat × Option (List Nat)
  | [] => ([], none)
  | c :: rest =>
    if c = sep then ([], some rest)
    else ((c :: (cut sep rest).1), (cut sep rest).2)

/-- One `key=value` pair of `parseQuery`; `none`: the pair is skipped. -/
def parsePair (pair : List Nat) : Option (List Nat × List Nat) :=
  if pair.contains 59 then none                         -- "invalid semicolon separator in query"
  else if pair = [] then none
  else
    match queryUnescape (cut 61 pair).1, queryUnescape ((cut 61 pair).2.getD []) with
    | some k, some v => some (k, v)
    | _, _ => none

/-- `parseQuery`: the decoded pairs in order of appearance (so that `lookup` is `Values.Get`). -/
def parseQueryFuel : Nat → List Nat → List (List Nat × List Nat)
  | 0, _ => []
  | _ + 1, [] => []
  | fuel + 1, c :: q =>
    (parsePair (cut 38 (c :: q)).1).toList ++
      (match (cut 38 (c :: q)).2 with
       | none => []
       | some rest => parseQueryFuel fuel rest)

def parseQuery (q : List Nat) : List (List Nat × List Nat) := parseQueryFuel (q.length + 1) q

def encodePair (kv : List Nat × List Nat) : List Nat := queryEscape kv.1 ++ 61 :: queryEscape kv.2

/-- `k1=v1&k2=v2&…` -/
def encodePairs : List (List Nat × List Nat) → List Nat
  | [] => []
  | [kv] => encodePair kv
  | kv :: rest => encodePair kv ++ 38 :: encodePairs rest

/-! ## Round trips -/

theorem unhex_hexDigit (n : Nat) (h : n < 16) : unhex (hexDigit n) = some n := by
  unfold unhex hexDigit
  split <;> split <;>
    first
    | (congr 1; omega)
    | omega
    | (split <;> first | (congr 1; omega) | omega | (split <;> first | (congr 1; omega) | omega))

theorem unreserved_ne {c : Nat} (h : unreserved c = true) : c ≠ 37 ∧ c ≠ 43 ∧ c ≠ 38 ∧ c ≠ 61 ∧ c ≠ 59 := by
  simp [unreserved] at h
  omega

theorem queryUnescape_plus (t : List Nat) : queryUnescape (43 :: t) = (queryUnescape t).map (32 :: ·) := by
  rw [queryUnescape.eq_def]
  simp

theorem queryUnescape_other (c : Nat) (t : List Nat) (h37 : c ≠ 37) (h43 : c ≠ 43) :
    queryUnescape (c :: t) = (queryUnescape t).map (c :: ·) := by
  rw [queryUnescape.eq_def]
  simp [h37, h43]

theorem queryUnescape_pct (a b x y : Nat) (t : List Nat) (ha : unhex a = some x) (hb : unhex b = some y) :
    queryUnescape (37 :: a :: b :: t) = (queryUnescape t).map ((x * 16 + y) :: ·) := by
  rw [queryUnescape.eq_def]
  simp [ha, hb]

theorem queryUnescape_append_esc (c : Nat) (hc : c < 256) (t : List Nat) :
    queryUnescape (escByte c ++ t) = (queryUnescape t).map (c :: ·) := by
  unfold escByte
  split
  · rename_i h
    subst h
    exact queryUnescape_plus t
  · split
    · rename_i h32 hu
      have := unreserved_ne hu
      exact queryUnescape_other c t this.1 this.2.1
    · have h1 : c / 16 < 16 := by omega
      have h2 : c % 16 < 16 := by omega
      have h3 : c / 16 * 16 + c % 16 = c := by omega
      have := queryUnescape_pct _ _ _ _ t (unhex_hexDigit _ h1) (unhex_hexDigit _ h2)
      rw [h3] at this
      exact this

/-- **`QueryUnescape(QueryEscape(s)) = s`** for every byte string. -/
theorem queryUnescape_queryEscape (s : List Nat) (hs : ∀ c ∈ s, c < 256) :
    queryUnescape (queryEscape s) = some s := by
  induction s with
  | nil => simp [queryEscape, queryUnescape]
  | cons c s ih =>
    have hc : c < 256 := hs c (by simp)
    have ih' := ih (fun d hd => hs d (by simp [hd]))
    simp only [queryEscape, List.flatMap_cons] at ih' ⊢
    rw [queryUnescape_append_esc c hc, ih']
    rfl

theorem hexDigit_safe (n : Nat) (h : n < 16) :
    hexDigit n ≠ 38 ∧ hexDigit n ≠ 61 ∧ hexDigit n ≠ 59 := by
  unfold hexDigit
  split <;> omega

/-- Escaped text never contains `&`, `=` or `;`. -/
theorem queryEscape_safe (s : List Nat) (hs : ∀ c ∈ s, c < 256) :
    ∀ d ∈ queryEscape s, d ≠ 38 ∧ d ≠ 61 ∧ d ≠ 59 := by
  intro d hd
  simp only [queryEscape, List.mem_flatMap] at hd
  obtain ⟨c, hc, hdc⟩ := hd
  have hc256 := hs c hc
  unfold escByte at hdc
  split at hdc
  · simp at hdc; omega
  · split at hdc
    · rename_i hu
      simp at hdc
      subst hdc
      have := unreserved_ne hu
      omega
    · simp at hdc
      rcases hdc with rfl | rfl | rfl
      · omega
      · exact hexDigit_safe _ (by omega)
      · exact hexDigit_safe _ (by omega)

theorem cut_append_sep (sep : Nat) (a b : List Nat) (ha : ∀ d ∈ a, d ≠ sep) :
    cut sep (a ++ sep :: b) = (a, some b) := by
  induction a with
  | nil => simp [cut]
  | cons c a ih =>
    have hc : c ≠ sep := ha c (by simp)
    have ih' := ih (fun d hd => ha d (by simp [hd]))
    simp [cut, hc, ih']

theorem cut_no_sep (sep : Nat) (a : List Nat) (ha : ∀ d ∈ a, d ≠ sep) :
    cut sep a = (a, none) := by
  induction a with
  | nil => simp [cut]
  | cons c a ih =>
    have hc : c ≠ sep := ha c (by simp)
    have ih' := ih (fun d hd => ha d (by simp [hd]))
    simp [cut, hc, ih']

def ValidPair (kv : List Nat × List Nat) : Prop := (∀ c ∈ kv.1, c < 256) ∧ (∀ c ∈ kv.2, c < 256)

theorem parsePair_encodePair (kv : List Nat × List Nat) (h : ValidPair kv) :
    parsePair (encodePair kv) = some kv := by
  obtain ⟨k, v⟩ := kv
  obtain ⟨hk, hv⟩ := h
  simp only at hk hv
  have sk := queryEscape_safe k hk
  have sv := queryEscape_safe v hv
  have hcut : cut 61 (encodePair (k, v)) = (queryEscape k, some (queryEscape v)) :=
    cut_append_sep 61 _ _ (fun d hd => (sk d hd).2.1)
  have hsemi : (encodePair (k, v)).contains 59 = false := by
    simp only [encodePair, List.contains_eq_mem, List.mem_append, List.mem_cons, decide_eq_false_iff_not]
    intro hmem
    rcases hmem with hmem | hmem | hmem
    · exact (sk 59 hmem).2.2 rfl
    · omega
    · exact (sv 59 hmem).2.2 rfl
  have hne : encodePair (k, v) ≠ [] := by simp [encodePair]
  unfold parsePair
  simp only [hsemi, hne, hcut, Bool.false_eq_true, if_false, Option.getD_some,
    queryUnescape_queryEscape k hk, queryUnescape_queryEscape v hv]

theorem encodePair_no_amp (kv : List Nat × List Nat) (h : ValidPair kv) : ∀ d ∈ encodePair kv, d ≠ 38 := by
  obtain ⟨k, v⟩ := kv
  obtain ⟨hk, hv⟩ := h
  intro d hd
  simp only [encodePair, List.mem_append, List.mem_cons] at hd
  rcases hd with hd | hd | hd
  · exact (queryEscape_safe k hk d hd).1
  · omega
  · exact (queryEscape_safe v hv d hd).1

theorem encodePair_ne_nil (kv : List Nat × List Nat) : encodePair kv ≠ [] := by
  simp [encodePair]

theorem encodePairs_length_ge (kvs : List (List Nat × List Nat)) : kvs.length ≤ (encodePairs kvs).length := by
  induction kvs with
  | nil => simp [encodePairs]
  | cons kv rest ih =>
    cases rest with
    | nil => simp [encodePairs, encodePair]; omega
    | cons kv' rest' =>
      simp only [encodePairs, List.length_append, List.length_cons] at ih ⊢
      omega

theorem parseQueryFuel_encodePairs (kvs : List (List Nat × List Nat)) (h : ∀ kv ∈ kvs, ValidPair kv) :
    ∀ fuel, kvs.length < fuel → parseQueryFuel fuel (encodePairs kvs) = kvs := by
  induction kvs with
  | nil =>
    intro fuel hf
    cases fuel with
    | zero => omega
    | succ f => simp [encodePairs, parseQueryFuel]
  | cons kv rest ih =>
    intro fuel hf
    cases fuel with
    | zero => omega
    | succ f =>
      have hkv : ValidPair kv := h kv (by simp)
      have hrest : ∀ kv' ∈ rest, ValidPair kv' := fun kv' hm => h kv' (by simp [hm])
      cases rest with
      | nil =>
        have hcut := cut_no_sep 38 (encodePair kv) (encodePair_no_amp kv hkv)
        cases hshape : encodePair kv with
        | nil => exact absurd hshape (encodePair_ne_nil kv)
        | cons c q =>
          simp only [encodePairs, hshape, parseQueryFuel]
          rw [← hshape, hcut]
          simp [parsePair_encodePair kv hkv]
      | cons kv' rest' =>
        have ih' := ih hrest f (by simp at hf ⊢; omega)
        have hcut := cut_append_sep 38 (encodePair kv) (encodePairs (kv' :: rest')) (encodePair_no_amp kv hkv)
        cases hshape : encodePair kv ++ 38 :: encodePairs (kv' :: rest') with
        | nil => simp at hshape
        | cons c q =>
          simp only [encodePairs, hshape, parseQueryFuel]
          rw [← hshape, hcut]
          simp [parsePair_encodePair kv hkv, ih']

/-- **`ParseQuery(k1=v1&…)` gives back exactly the pairs**, in order, for all byte strings. -/
theorem parseQuery_encodePairs (kvs : List (List Nat × List Nat)) (h : ∀ kv ∈ kvs, ValidPair kv) :
    parseQuery (encodePairs kvs) = kvs := by
  unfold parseQuery
  apply parseQueryFuel_encodePairs kvs h
  have := encodePairs_length_ge kvs
  omega

/-! ## Lean strings through UTF-8 -/

def toBytes (s : String) : List Nat := s.toByteArray.data.toList.map UInt8.toNat

def ofBytes (bs : List Nat) : Option String :=
  (ByteArray.mk (bs.map UInt8.ofNat).toArray).utf8Decode?.map (fun a => String.ofList a.toList)

/-- A string of ASCII bytes (the encoder's output is ASCII). -/
def asciiString (bs : List Nat) : String := String.ofList (bs.map Char.ofNat)

theorem toBytes_lt (s : String) : ∀ c ∈ toBytes s, c < 256 := by
  intro c hc
  simp only [toBytes, List.mem_map] at hc
  obtain ⟨b, _, rfl⟩ := hc
  exact b.toNat_lt

theorem ofBytes_toBytes (s : String) : ofBytes (toBytes s) = some s := by
  unfold ofBytes toBytes
  have h1 : (s.toByteArray.data.toList.map UInt8.toNat).map UInt8.ofNat = s.toByteArray.data.toList := by
    rw [List.map_map]
    conv => rhs; rw [← List.map_id s.toByteArray.data.toList]
    apply List.map_congr_left
    intro b _
    simp
  rw [h1]
  have h2 : ByteArray.mk s.toByteArray.data.toList.toArray = s.toByteArray := by
    cases s.toByteArray
    simp
  rw [h2, ← String.utf8Encode_toList, List.utf8Decode?_utf8Encode]
  simp [String.ofList_toList]

theorem toBytes_injective {s t : String} (h : toBytes s = toBytes t) : s = t := by
  have := congrArg ofBytes h
  rw [ofBytes_toBytes, ofBytes_toBytes] at this
  exact Option.some.inj this

/-! ### ASCII bytes are their own UTF-8 -/

theorem ofNat_val_toNat (b : Nat) (h : b < 128) : (Char.ofNat b).val.toNat = b := by
  have hv : b.isValidChar := by unfold Nat.isValidChar; omega
  simp [Char.ofNat, hv, Char.ofNatAux]

theorem utf8Size_ascii (b : Nat) (h : b < 128) : (Char.ofNat b).utf8Size = 1 := by
  have := ofNat_val_toNat b h
  unfold Char.utf8Size
  simp only
  have h2 : (Char.ofNat b).val ≤ 127 := by
    rw [UInt32.le_iff_toNat_le]
    simp [this]; omega
  rw [if_pos]
  exact h2

theorem utf8EncodeChar_ascii (b : Nat) (h : b < 128) :
    String.utf8EncodeChar (Char.ofNat b) = [UInt8.ofNat b] := by
  rw [String.utf8EncodeChar_eq_singleton (utf8Size_ascii b h)]
  congr 1
  apply UInt8.toNat_inj.1
  rw [UInt32.toNat_toUInt8, ofNat_val_toNat b h]
  simp

theorem flatMap_utf8EncodeChar_ascii (bs : List Nat) (h : ∀ b ∈ bs, b < 128) :
    (bs.map Char.ofNat).flatMap String.utf8EncodeChar = bs.map UInt8.ofNat := by
  induction bs with
  | nil => rfl
  | cons b bs ih =>
    have hb := h b (by simp)
    have ih' := ih (fun c hc => h c (by simp [hc]))
    simp [utf8EncodeChar_ascii b hb, ih']

theorem toBytes_asciiString (bs : List Nat) (h : ∀ b ∈ bs, b < 128) : toBytes (asciiString bs) = bs := by
  unfold toBytes asciiString
  rw [String.toByteArray_ofList]
  unfold List.utf8Encode
  rw [flatMap_utf8EncodeChar_ascii bs h, List.data_toByteArray]
  simp only [List.map_map]
  conv => rhs; rw [← List.map_id bs]
  apply List.map_congr_left
  intro b hb
  have := h b hb
  simp
  omega

/-! ### What the encoder writes is ASCII -/

theorem hexDigit_ascii (n : Nat) (h : n < 16) : hexDigit n < 128 := by
  unfold hexDigit
  split <;> omega

theorem queryEscape_ascii (s : List Nat) (hs : ∀ c ∈ s, c < 256) : ∀ d ∈ queryEscape s, d < 128 := by
  intro d hd
  simp only [queryEscape, List.mem_flatMap] at hd
  obtain ⟨c, hc, hdc⟩ := hd
  have hc256 := hs c hc
  unfold escByte at hdc
  split at hdc
  · simp at hdc; omega
  · split at hdc
    · rename_i hu
      simp at hdc
      subst hdc
      simp [unreserved] at hu
      omega
    · simp at hdc
      rcases hdc with rfl | rfl | rfl
      · omega
      · exact hexDigit_ascii _ (by omega)
      · exact hexDigit_ascii _ (by omega)

theorem encodePairs_ascii (kvs : List (List Nat × List Nat)) (h : ∀ kv ∈ kvs, ValidPair kv) :
    ∀ d ∈ encodePairs kvs, d < 128 := by
  induction kvs with
  | nil => simp [encodePairs]
  | cons kv rest ih =>
    have hkv : ValidPair kv := h kv (by simp)
    have ih' := ih (fun kv' hm => h kv' (by simp [hm]))
    have hpair : ∀ d ∈ encodePair kv, d < 128 := by
      intro d hd
      simp only [encodePair, List.mem_append, List.mem_cons] at hd
      rcases hd with hd | hd | hd
      · exact queryEscape_ascii _ hkv.1 d hd
      · omega
      · exact queryEscape_ascii _ hkv.2 d hd
    cases rest with
    | nil => simpa [encodePairs] using hpair
    | cons kv' rest' =>
      intro d hd
      simp only [encodePairs, List.mem_append, List.mem_cons] at hd
      rcases hd with hd | hd | hd
      · exact hpair d hd
      · omega
      · exact ih' d (by simpa [encodePairs] using hd)

/-! ## The string-level URL codec and its law -/

def bytePairs (kvs : List (String × String)) : List (List Nat × List Nat) :=
  kvs.map fun kv => (toBytes kv.1, toBytes kv.2)

/-- What a client writes: `QueryEscape(k)=QueryEscape(v)` joined by `&`. -/
def goUrlEncode (kvs : List (String × String)) : String := asciiString (encodePairs (bytePairs kvs))

/-- `r.URL.Query()[k]`, first value (`none`: absent). -/
def goUrlGet (raw k : String) : Option String :=
  ((parseQuery (toBytes raw)).lookup (toBytes k)).bind ofBytes

theorem bytePairs_valid (kvs : List (String × String)) : ∀ kv ∈ bytePairs kvs, ValidPair kv := by
  intro kv hkv
  simp only [bytePairs, List.mem_map] at hkv
  obtain ⟨p, _, rfl⟩ := hkv
  exact ⟨toBytes_lt _, toBytes_lt _⟩

theorem lookup_bytePairs (kvs : List (String × String)) (k : String) :
    ((bytePairs kvs).lookup (toBytes k)).bind ofBytes = kvs.lookup k := by
  induction kvs with
  | nil => rfl
  | cons kv rest ih =>
    obtain ⟨k', v⟩ := kv
    simp only [bytePairs, List.map_cons, List.lookup] at ih ⊢
    by_cases hk : k = k'
    · subst hk
      simp [ofBytes_toBytes]
    · have hne : toBytes k ≠ toBytes k' := fun h => hk (toBytes_injective h)
      have h1 : (toBytes k == toBytes k') = false := by simpa using hne
      have h2 : (k == k') = false := by simpa using hk
      simp only [h1, h2]
      exact ih

/-- **goUrl_get_encode** — the `url_get` law of `Lawful`, for the transliteration of net/url:
    whatever pairs a client escapes and joins, the server's `URL.Query()` finds under each name
    the first value written for it (no side condition on the names or values). -/
theorem goUrl_get_encode (kvs : List (String × String)) (k : String) :
    goUrlGet (goUrlEncode kvs) k = kvs.lookup k := by
  unfold goUrlGet goUrlEncode
  rw [toBytes_asciiString _ (encodePairs_ascii _ (bytePairs_valid kvs)),
      parseQuery_encodePairs _ (bytePairs_valid kvs)]
  exact lookup_bytePairs kvs k

end ApiFu.C17.Url
