/-
  C17 — a syntactic class of envelopes on which the restriction of
  `transport_same_request_bytes_partial` (`TameVal`) holds: every string and member name is
  well-formed (`wellFormedRaw`, JsonUtf8.lean: valid UTF-8, proper surrogate pairs, any other
  escape) and envelope member names unquote to ASCII.
-/
import ApiFu.C17.Json
import ApiFu.C17.JsonProps
import ApiFu.C17.JsonUtf8

namespace ApiFu.C17.Json

/-- Well-formed string content (JsonUtf8.lean). -/
abbrev plainRaw (raw : Bytes) : Bool := wellFormedRaw raw

theorem unquote_agree (raw : Bytes) (h : plainRaw raw = true) : unquote .std raw = unquote .iter raw :=
  unquote_agree_of_wellFormed raw h

mutual
  def plainVal : JVal → Bool
    | .str raw => plainRaw raw
    | .arr xs => plainList xs
    | .obj ms => plainMems ms
    | _ => true
  def plainList : JList → Bool
    | .nil => true
    | .cons v t => plainVal v && plainList t
  def plainMems : JMems → Bool
    | .nil => true
    | .cons k v t => plainRaw k && plainVal v && plainMems t
end

mutual
  theorem conv_agree : ∀ (v : JVal), plainVal v = true → conv .std v = conv .iter v
    | .null, _ => rfl
    | .tru, _ => rfl
    | .fls, _ => rfl
    | .num _, _ => rfl
    | .str raw, h => by
      simp only [plainVal] at h
      simp only [conv, unquote_agree raw h]
    | .arr xs, h => by
      simp only [plainVal] at h
      simp only [conv, convList_agree xs h]
    | .obj ms, h => by
      simp only [plainVal] at h
      simp only [conv, convMems_agree ms h]
  theorem convList_agree : ∀ (xs : JList), plainList xs = true → convList .std xs = convList .iter xs
    | .nil, _ => rfl
    | .cons v t, h => by
      simp only [plainList, Bool.and_eq_true] at h
      simp only [convList, conv_agree v h.1, convList_agree t h.2]
  theorem convMems_agree : ∀ (ms : JMems), plainMems ms = true → ∀ acc, convMems .std ms acc = convMems .iter ms acc
    | .nil, _ => fun _ => rfl
    | .cons k v t, h => by
      simp only [plainMems, Bool.and_eq_true] at h
      intro acc
      simp only [convMems, conv_agree v h.1.2, unquote_agree k h.1.1]
      cases conv .iter v with
      | none => rfl
      | some v' => exact convMems_agree t h.2 _
end

/-- **mapStep_agree_of_plain** — a `variables` value whose strings and keys are all well-formed is
    decoded to the same map by both libraries (numbers, nesting, duplicate keys, `null` alike). -/
theorem mapStep_agree_of_plain (v : JVal) (h : plainVal v = true) (cur : Option JMems) :
    mapStep .std cur v = mapStep .iter cur v := by
  cases v with
  | obj ms =>
    simp only [plainVal] at h
    simp only [mapStep, convMems_agree ms h]
  | _ => rfl

/-! ## Member names -/

def up (c : Nat) : Nat := if 97 ≤ c && c ≤ 122 then c - 32 else c
def low (c : Nat) : Nat := if 65 ≤ c && c ≤ 90 then c + 32 else c

theorem foldStd_ascii : ∀ (a : Bytes), (∀ c ∈ a, c < 128) → foldStd a = a.map up
  | [], _ => rfl
  | c :: t, h => by
    have hc : c < 128 := h c (List.mem_cons_self ..)
    have ht : ∀ d ∈ t, d < 128 := fun d hd => h d (List.mem_cons_of_mem _ hd)
    have ih := foldStd_ascii t ht
    by_cases h1 : c = 0xC5
    · omega
    by_cases h2 : c = 0xE2
    · omega
    rw [foldStd.eq_def]
    split
    · rename_i heq; cases heq
    · rename_i heq; simp only [List.cons.injEq] at heq; omega
    · rename_i heq; simp only [List.cons.injEq] at heq; omega
    · rename_i heq
      simp only [List.cons.injEq] at heq
      obtain ⟨rfl, rfl⟩ := heq
      simp only [List.map_cons, up, ih]

theorem lowerAscii_eq_map (a : Bytes) : lowerAscii a = a.map low := rfl

theorem up_eq_iff_low_eq (c d : Nat) : up c = up d ↔ low c = low d := by
  simp only [up, low, Bool.and_eq_true, decide_eq_true_eq]
  split <;> split <;> split <;> split <;> omega

theorem map_up_eq_iff : ∀ (a b : Bytes), a.map up = b.map up ↔ a.map low = b.map low
  | [], [] => by simp
  | [], _ :: _ => by simp
  | _ :: _, [] => by simp
  | c :: s, d :: t => by
    simp only [List.map_cons, List.cons.injEq, up_eq_iff_low_eq c d, map_up_eq_iff s t]

/-- For an ASCII name and an ASCII tag the two matching rules coincide. -/
theorem nameMatches_agree (n tag : Bytes) (hn : ∀ c ∈ n, c < 128) (ht : ∀ c ∈ tag, c < 128) :
    nameMatches .std n tag = nameMatches .iter n tag := by
  simp only [nameMatches, foldStd_ascii n hn, foldStd_ascii tag ht, lowerAscii_eq_map]
  by_cases h : n.map low = tag.map low
  · have h2 := (map_up_eq_iff n tag).2 h
    have e2 : (List.map up n == List.map up tag) = true := by simpa using h2
    have e3 : (List.map low n == List.map low tag) = true := by simpa using h
    rw [e2, e3, Bool.or_true]
  · have h2 : ¬ n.map up = tag.map up := fun h' => h ((map_up_eq_iff n tag).1 h')
    have h3 : ¬ n = tag := fun h' => h (by rw [h'])
    have e1 : (n == tag) = false := by simpa using h3
    have e2 : (List.map up n == List.map up tag) = false := by simpa using h2
    have e3 : (List.map low n == List.map low tag) = false := by simpa using h
    rw [e1, e2, e3]; rfl

/-- **fieldOf_agree_of_ascii** — an ASCII member name selects the same field in both libraries
    (`extensions` apart, which the WebSocket struct does not have). -/
theorem fieldOf_agree_of_ascii (n : Bytes) (hn : ∀ c ∈ n, c < 128) :
    fieldOf .iter n = dropExt (fieldOf .std n) := by
  have hq := nameMatches_agree n tagQuery hn (by decide)
  have ho := nameMatches_agree n tagOperationName hn (by decide)
  have hv := nameMatches_agree n tagVariables hn (by decide)
  unfold fieldOf
  rw [hq, ho, hv]
  cases nameMatches .iter n tagQuery <;> cases nameMatches .iter n tagOperationName <;>
    cases nameMatches .iter n tagVariables <;> cases nameMatches .std n tagExtensions <;> simp [dropExt]

/-- **memberTame_of_plain** — a member whose name and value are well-formed and whose name unquotes to
    ASCII is `MemberTame`: the syntactic class for which `transport_same_request_bytes_partial`
    needs no further hypothesis than "query / operationName at most once". -/
theorem memberTame_of_plain (k : Bytes) (v : JVal) (hk : plainRaw k = true) (hv : plainVal v = true)
    (hascii : ∀ c ∈ unquote .iter k, c < 128) : MemberTame k v where
  name := unquote_agree k hk
  field := by rw [unquote_agree k hk]; exact fieldOf_agree_of_ascii _ hascii
  str := fun raw h => by subst h; simp only [plainVal] at hv; exact unquote_agree raw hv
  map := mapStep_agree_of_plain v hv

/-- The syntactic class, decidable on the parsed envelope: every member's name and value are
    well-formed, names unquote to ASCII, `query` and `operationName` occur at most once. -/
def wellFormedMembers : List (Bytes × JVal) → Bool
  | [] => true
  | (k, v) :: t => plainRaw k && plainVal v && (unquote .iter k).all (fun c => decide (c < 128)) && wellFormedMembers t

def wellFormedEnvelope : JVal → Bool
  | .obj ms => wellFormedMembers ms.toList && decide (countField .query ms.toList ≤ 1) &&
      decide (countField .operationName ms.toList ≤ 1)
  | _ => true

theorem tame_of_wellFormedMembers : ∀ (ms : List (Bytes × JVal)), wellFormedMembers ms = true →
    ∀ m ∈ ms, MemberTame m.1 m.2
  | [], _ => fun _ hm => by cases hm
  | (k, v) :: t, h => by
    simp only [wellFormedMembers, Bool.and_eq_true, List.all_eq_true, decide_eq_true_eq] at h
    intro m hm
    rcases List.mem_cons.1 hm with rfl | hm'
    · exact memberTame_of_plain k v h.1.1.1 h.1.1.2 h.1.2
    · exact tame_of_wellFormedMembers t h.2 m hm'

/-- **transport_same_request_bytes_wellformed** — for every byte string `b` whose envelope is
    syntactically well-formed text (valid UTF-8, no unpaired surrogate escapes, ASCII member names
    at the envelope level, `query` / `operationName` not repeated — a decidable condition on the
    parse tree, `wellFormedEnvelope`): whenever HTTP POST (encoding/json) and a WebSocket transport
    (json-iterator) both accept `b`, they hand the same query, operationName and variables to the
    shared pipeline. No hypothesis about the codecs; everything else about `b` is arbitrary (member
    order, unknown members, duplicates of `variables` and inside it, `null`s, numbers, nesting,
    white space, trailing bytes). -/
theorem transport_same_request_bytes_wellformed (b : Bytes) (r w : Env)
    (hp : postDecode b = some r) (hw : wsPayloadDecode b = some w)
    (hwf : ∀ v rest, parseFirst b = some (v, rest) → wellFormedEnvelope v = true) : Same3 r w := by
  refine transport_same_request_bytes_partial b r w hp hw ?_
  intro v rest hpf
  have h := hwf v rest hpf
  cases v with
  | obj ms =>
    simp only [wellFormedEnvelope, Bool.and_eq_true, decide_eq_true_eq] at h
    exact ⟨tame_of_wellFormedMembers _ h.1.1, h.1.2, h.2⟩
  | _ => trivial

/-- Non-vacuity: `sampleBody` (`{"query":"{a}","Variables":{"n":1},"x":null}`) is accepted by both and well-formed. -/
example : (postDecode sampleBody).isSome = true ∧ (wsPayloadDecode sampleBody).isSome = true ∧
    ((parseFirst sampleBody).map fun p => wellFormedEnvelope p.1) = some true := by decide

end ApiFu.C17.Json
