/-
  C17 — the JSON half of the envelope decoders, at byte level (Session 3).

  What is transliterated (go1.23 encoding/json, json-iterator v1.1.12; every case below was
  established by experiment against the real decoders and is compared with them on every run,
  obligation J):

  * the grammar accepted by encoding/json's scanner (`checkValid` / `Decoder.readValue`): white
    space = SP HT LF CR; strings reject bytes < 0x20 and unknown escapes, `\u` needs 4 hex digits,
    bytes ≥ 0x80 are not looked at; numbers `-?(0|[1-9][0-9]*)(\.[0-9]+)?([eE][+-]?[0-9]+)?`;
    literals; nesting deeper than 10000 is an error; no BOM, no comments, no trailing comma
    → `pValue`, `parseDoc` (Unmarshal: one value, only white space around), `parseFirst`
    (Decoder.Decode: first value, whatever follows is not read);
  * string unquoting of both libraries → `unqS` (encoding/json `unquoteBytes`: invalid UTF-8 and
    unpaired surrogates become U+FFFD; a surrogate escape that does not pair with the next `\u`
    escape is replaced *alone*) and `unqI` (json-iterator `readStringSlowPath` /
    `readEscapedChar`: raw bytes ≥ 0x80 are copied unchecked; a surrogate escape followed by any
    `\u` escape consumes *both*);
  * member-name matching → `fieldOf .std` (exact, else equal under `foldName`: ASCII case and
    U+017F ſ → S, U+212A K → K) and `fieldOf .iter` (equal after ASCII lower-casing; json-iterator
    compares a 64-bit FNV-style hash of the lower-cased bytes — a hash collision is outside the model);
  * decoding into the envelope structs → `decodeStruct`: members are processed in order, a later
    member for the same field overwrites a string, *merges into* the map already there
    (`variables` given twice), `null` for a map resets it to nil, `null` for a string is a no-op in
    encoding/json and stores "" in json-iterator; a value of the wrong type is an error (encoding/json
    keeps going and reports it at the end, json-iterator stops: both reject); unknown members are
    skipped — by json-iterator with its strict `Skip`, which *reads* numbers that have an exponent
    (float64 range error ⇒ error) or start with `0` (as float32!), at any depth (`skipOkI`); top-level `null` leaves the zero struct; any other top-level value is an error;
  * `interface{}` values → `conv`: objects with duplicate keys keep the last value, numbers become
    float64 and are an error exactly when `strconv.ParseFloat` reports a range error (`overflows`:
    the decimal value rounds to ±Inf, i.e. |x| ≥ 2^1024 − 2^970). The float64 *value* of a number
    is not computed here: numbers are carried as their literal text and the harness applies
    `strconv.ParseFloat` to it (both libraries do, json-iterator's fast path being an exact division);
  * `json.Unmarshal(frame, &Message{Id string; Type string; Payload json.RawMessage})` → `decodeMsg`
    (the payload is the exact byte range of the member's value; a duplicate `payload` replaces it).

  Bytes are `List Nat` (< 256), as in `UrlCodec.lean`. Core Lean only.
-/
namespace ApiFu.C17.Json

abbrev Bytes := List Nat

/-! ## Syntax trees -/

mutual
  /-- A parsed JSON value. Strings and member names are kept *raw* (the bytes between the quotes,
      escapes not yet processed): the two libraries unquote differently. -/
  inductive JVal where
    | null | tru | fls
    | num (lit : Bytes)
    | str (raw : Bytes)
    | arr (items : JList)
    | obj (members : JMems)
  inductive JList where
    | nil
    | cons (v : JVal) (t : JList)
  inductive JMems where
    | nil
    | cons (k : Bytes) (v : JVal) (t : JMems)
end

deriving instance Repr for JVal
deriving instance Repr for JList
deriving instance Repr for JMems

mutual
  def JVal.beq : JVal → JVal → Bool
    | .null, .null => true
    | .tru, .tru => true
    | .fls, .fls => true
    | .num a, .num b => a == b
    | .str a, .str b => a == b
    | .arr a, .arr b => JList.beq a b
    | .obj a, .obj b => JMems.beq a b
    | _, _ => false
  def JList.beq : JList → JList → Bool
    | .nil, .nil => true
    | .cons a s, .cons b t => JVal.beq a b && JList.beq s t
    | _, _ => false
  def JMems.beq : JMems → JMems → Bool
    | .nil, .nil => true
    | .cons k a s, .cons l b t => k == l && JVal.beq a b && JMems.beq s t
    | _, _ => false
end

/-! ## The scanner grammar -/

def isWs (c : Nat) : Bool := c == 32 || c == 9 || c == 10 || c == 13

def skipWs : Bytes → Bytes
  | [] => []
  | c :: t => if isWs c then skipWs t else c :: t

def isDigit (c : Nat) : Bool := 48 ≤ c && c ≤ 57

def isHex (c : Nat) : Bool := isDigit c || (97 ≤ c && c ≤ 102) || (65 ≤ c && c ≤ 70)

def hexVal (c : Nat) : Nat :=
  if isDigit c then c - 48 else if 97 ≤ c && c ≤ 102 then c - 87 else c - 55

/-- `stateInStringEsc`: the bytes allowed after a backslash, `u` apart. -/
def isSimpleEsc (c : Nat) : Bool :=
  c == 98 || c == 102 || c == 110 || c == 114 || c == 116 || c == 92 || c == 47 || c == 34

/-- After the opening quote: the raw content up to the closing quote, and what follows it. -/
def scanStr : Nat → Bytes → Option (Bytes × Bytes)
  | 0, _ => none
  | _, [] => none
  | fuel + 1, c :: t =>
    if c = 34 then some ([], t)
    else if c = 92 then
      match t with
      | [] => none
      | e :: t' =>
        if e = 117 then
          match t' with
          | a :: b :: c' :: d :: t'' =>
            if isHex a && isHex b && isHex c' && isHex d then
              (scanStr fuel t'').map fun (r, rest) => (92 :: 117 :: a :: b :: c' :: d :: r, rest)
            else none
          | _ => none
        else if isSimpleEsc e then (scanStr fuel t').map fun (r, rest) => (92 :: e :: r, rest)
        else none
    else if c < 32 then none
    else (scanStr fuel t).map fun (r, rest) => (c :: r, rest)

def spanDigits : Bytes → Bytes × Bytes
  | [] => ([], [])
  | c :: t => if isDigit c then let (d, r) := spanDigits t; (c :: d, r) else ([], c :: t)

/-- A number literal at the head of the input: the literal and the rest. -/
def scanNum (s : Bytes) : Option (Bytes × Bytes) :=
  let (sign, s1) := match s with
    | 45 :: t => ([45], t)
    | _ => ([], s)
  match s1 with
  | [] => none
  | c :: t =>
    if !isDigit c then none else
    -- state0 after a leading 0: no further digits
    let (intPart, s2) := if c = 48 then ([48], t) else spanDigits (c :: t)
    let fracRes : Option (Bytes × Bytes) := match s2 with
      | 46 :: t2 =>
        let (fd, r) := spanDigits t2
        if fd.isEmpty then none else some (46 :: fd, r)
      | _ => some ([], s2)
    match fracRes with
    | none => none
    | some (frac, s3) =>
      let expRes : Option (Bytes × Bytes) := match s3 with
        | e :: t3 =>
          if e = 101 || e = 69 then
            let (sg, t4) := match t3 with
              | 43 :: u => ([43], u)
              | 45 :: u => ([45], u)
              | _ => ([], t3)
            let (ed, r) := spanDigits t4
            if ed.isEmpty then none else some (e :: sg ++ ed, r)
          else some ([], s3)
        | [] => some ([], [])
      match expRes with
      | none => none
      | some (ex, s4) => some (sign ++ intPart ++ frac ++ ex, s4)

def stripPrefix (p : Bytes) (s : Bytes) : Option Bytes :=
  if s.take p.length = p then some (s.drop p.length) else none

/-
  Fuel: `parseFirst` starts with more fuel than there are bytes; every recursive call below spends
  one unit and has consumed at least one byte, so the fuel always exceeds the number of bytes left
  (this is also why the current fuel is enough for `scanStr`). Running out of fuel is therefore not
  a reachable outcome; it is not proved here — the tie would show it as a spurious "bad".
-/

/-- `maxNestingDepth` of encoding/json/scanner.go. -/
def goMaxDepth : Nat := 10000

mutual
  /-- A value at the head of the input (no leading white space), inside `depth` containers. -/
  def pValue (maxDepth : Nat) : Nat → Nat → Bytes → Option (JVal × Bytes)
    | 0, _, _ => none
    | _, _, [] => none
    | fuel + 1, depth, c :: t =>
      if c = 123 then
        if depth + 1 > maxDepth then none else
        match skipWs t with
        | 125 :: r => some (.obj .nil, r)
        | s => (pMems maxDepth fuel (depth + 1) s).map fun (ms, r) => (.obj ms, r)
      else if c = 91 then
        if depth + 1 > maxDepth then none else
        match skipWs t with
        | 93 :: r => some (.arr .nil, r)
        | s => (pElems maxDepth fuel (depth + 1) s).map fun (xs, r) => (.arr xs, r)
      else if c = 34 then (scanStr (fuel + 1) t).map fun (raw, r) => (.str raw, r)
      else if c = 116 then (stripPrefix [114, 117, 101] t).map fun r => (.tru, r)
      else if c = 102 then (stripPrefix [97, 108, 115, 101] t).map fun r => (.fls, r)
      else if c = 110 then (stripPrefix [117, 108, 108] t).map fun r => (.null, r)
      else (scanNum (c :: t)).map fun (lit, r) => (.num lit, r)
  /-- One or more members, then `}`; the input starts at the first member name. -/
  def pMems (maxDepth : Nat) : Nat → Nat → Bytes → Option (JMems × Bytes)
    | 0, _, _ => none
    | fuel + 1, depth, s =>
      match s with
      | 34 :: t =>
        match scanStr (fuel + 1) t with
        | none => none
        | some (k, r1) =>
          match skipWs r1 with
          | 58 :: r2 =>
            match pValue maxDepth fuel depth (skipWs r2) with
            | none => none
            | some (v, r3) =>
              match skipWs r3 with
              | 125 :: r4 => some (.cons k v .nil, r4)
              | 44 :: r4 => (pMems maxDepth fuel depth (skipWs r4)).map fun (ms, r) => (.cons k v ms, r)
              | _ => none
          | _ => none
      | _ => none
  /-- One or more elements, then `]`. -/
  def pElems (maxDepth : Nat) : Nat → Nat → Bytes → Option (JList × Bytes)
    | 0, _, _ => none
    | fuel + 1, depth, s =>
      match pValue maxDepth fuel depth s with
      | none => none
      | some (v, r1) =>
        match skipWs r1 with
        | 93 :: r2 => some (.cons v .nil, r2)
        | 44 :: r2 => (pElems maxDepth fuel depth (skipWs r2)).map fun (xs, r) => (.cons v xs, r)
        | _ => none
end

/-- `Decoder.Decode`: the first value of the stream; what follows is not examined. -/
def parseFirst (b : Bytes) : Option (JVal × Bytes) :=
  pValue goMaxDepth (b.length + 1) 0 (skipWs b)

/-- `checkValid` (Unmarshal): exactly one value, white space around it. -/
def parseDoc (b : Bytes) : Option JVal :=
  match parseFirst b with
  | some (v, r) => if skipWs r = [] then some v else none
  | none => none

/-! ## Unquoting -/

inductive Flavor where
  | std      -- encoding/json
  | iter     -- json-iterator
  deriving Repr, DecidableEq

def hex4 (a b c d : Nat) : Nat := ((hexVal a * 16 + hexVal b) * 16 + hexVal c) * 16 + hexVal d

def isSurrogate (r : Nat) : Bool := 0xD800 ≤ r && r < 0xE000

/-- `utf8.EncodeRune` for a rune that is not a surrogate and ≤ U+10FFFF. -/
def encodeRune (r : Nat) : Bytes :=
  if r < 0x80 then [r]
  else if r < 0x800 then [0xC0 + r / 64, 0x80 + r % 64]
  else if r < 0x10000 then [0xE0 + r / 4096, 0x80 + (r / 64) % 64, 0x80 + r % 64]
  else [0xF0 + r / 262144, 0x80 + (r / 4096) % 64, 0x80 + (r / 64) % 64, 0x80 + r % 64]

/-- U+FFFD in UTF-8. -/
def replacement : Bytes := [0xEF, 0xBF, 0xBD]

/-- A non-surrogate rune, or U+FFFD (`appendRune` / `utf8.EncodeRune` on a surrogate). -/
def encodeOrRepl (r : Nat) : Bytes := if isSurrogate r then replacement else encodeRune r

/-- `utf16.DecodeRune`: some for a high surrogate followed by a low one. -/
def decodePair (r1 r2 : Nat) : Option Nat :=
  if 0xD800 ≤ r1 && r1 < 0xDC00 && 0xDC00 ≤ r2 && r2 < 0xE000 then
    some ((r1 - 0xD800) * 1024 + (r2 - 0xDC00) + 0x10000)
  else none

def isCont (c : Nat) : Bool := 0x80 ≤ c && c ≤ 0xBF

/-- `utf8.DecodeRune` on the bytes at hand: the length of the valid encoding at the head, if any
    (the `first` / `acceptRanges` tables of unicode/utf8). -/
def utf8Len : Bytes → Option Nat
  | c :: rest =>
    if 0xC2 ≤ c && c ≤ 0xDF then
      match rest with
      | c1 :: _ => if isCont c1 then some 2 else none
      | _ => none
    else if 0xE0 ≤ c && c ≤ 0xEF then
      match rest with
      | c1 :: c2 :: _ =>
        let lo := if c = 0xE0 then 0xA0 else 0x80
        let hi := if c = 0xED then 0x9F else 0xBF
        if lo ≤ c1 && c1 ≤ hi && isCont c2 then some 3 else none
      | _ => none
    else if 0xF0 ≤ c && c ≤ 0xF4 then
      match rest with
      | c1 :: c2 :: c3 :: _ =>
        let lo := if c = 0xF0 then 0x90 else 0x80
        let hi := if c = 0xF4 then 0x8F else 0xBF
        if lo ≤ c1 && c1 ≤ hi && isCont c2 && isCont c3 then some 4 else none
      | _ => none
    else none
  | [] => none

def simpleEsc (e : Nat) : Nat :=
  if e = 98 then 8 else if e = 102 then 12 else if e = 110 then 10 else if e = 114 then 13
  else if e = 116 then 9 else e      -- `"` `\` `/` stand for themselves

/-- A `\uXXXX` escape at the head of the input (`getu4`). -/
def getU4 : Bytes → Option (Nat × Bytes)
  | 92 :: 117 :: a :: b :: c :: d :: t =>
    if isHex a && isHex b && isHex c && isHex d then some (hex4 a b c d, t) else none
  | _ => none

/-- encoding/json `unquoteBytes` on scanner-valid raw string content (a valid multi-byte encoding
    is decoded and re-encoded, i.e. copied; an invalid byte becomes U+FFFD and one byte is skipped). -/
def unqS : Nat → Bytes → Bytes
  | 0, _ => []
  | _, [] => []
  | fuel + 1, c :: t =>
    if c = 92 then
      match getU4 (c :: t) with
      | some (r, t4) =>
        if isSurrogate r then
          match getU4 t4 with
          | some (r2, t8) =>
            match decodePair r r2 with
            | some rr => encodeRune rr ++ unqS fuel t8
            | none => replacement ++ unqS fuel t4
          | none => replacement ++ unqS fuel t4
        else encodeRune r ++ unqS fuel t4
      | none =>
        match t with
        | e :: t' => simpleEsc e :: unqS fuel t'
        | [] => []
    else if c < 0x80 then c :: unqS fuel t
    else
      match utf8Len (c :: t) with
      | some n => (c :: t).take n ++ unqS fuel ((c :: t).drop n)
      | none => replacement ++ unqS fuel t

/-- json-iterator `readStringSlowPath`. -/
def unqI : Nat → Bytes → Bytes
  | 0, _ => []
  | _, [] => []
  | fuel + 1, c :: t =>
    if c = 92 then
      match getU4 (c :: t) with
      | some (r, t4) =>
        if isSurrogate r then
          match getU4 t4 with
          | some (r2, t8) =>
            match decodePair r r2 with
            | some rr => encodeRune rr ++ unqI fuel t8
            | none => replacement ++ encodeOrRepl r2 ++ unqI fuel t8
          | none => replacement ++ unqI fuel t4
        else encodeRune r ++ unqI fuel t4
      | none =>
        match t with
        | e :: t' => simpleEsc e :: unqI fuel t'
        | [] => []
    else c :: unqI fuel t

def unquote (f : Flavor) (raw : Bytes) : Bytes :=
  match f with
  | .std => unqS (raw.length + 1) raw
  | .iter => unqI (raw.length + 1) raw

/-! ## Numbers: does `strconv.ParseFloat(lit, 64)` report a range error? -/

def digitsVal (ds : Bytes) : Nat := ds.foldl (fun acc c => acc * 10 + (c - 48)) 0

/-- Number of decimal digits of `n` (0 for 0). -/
def decLen : Nat → Nat → Nat
  | 0, _ => 0
  | fuel + 1, n => if n = 0 then 0 else 1 + decLen fuel (n / 10)

/-- 2^1024 − 2^970: the least magnitude that rounds (to nearest even) to +Inf. -/
def infThreshold : Nat := 2 ^ 1024 - 2 ^ 970

/-- 2^128 − 2^103: the same for float32 (`strconv.ParseFloat(s, 32)`). -/
def infThreshold32 : Nat := 2 ^ 128 - 2 ^ 103

/-- Does the decimal literal (number grammar, from `scanNum`) denote a magnitude ≥ `thr`, where
    10^p < thr < 10^(p+1)? -/
def overflowsAt (thr p : Nat) (lit : Bytes) : Bool :=
  let s := match lit with
    | 45 :: t => t
    | _ => lit
  let (intD, r1) := spanDigits s
  let (fracD, r2) := match r1 with
    | 46 :: t => spanDigits t
    | _ => ([], r1)
  let (expNeg, expD) := match r2 with
    | _ :: 45 :: t => (true, t)
    | _ :: 43 :: t => (false, t)
    | _ :: t => (false, t)
    | [] => (false, [])
  let m := digitsVal (intD ++ fracD)
  let e := digitsVal expD
  let fl := fracD.length
  if m = 0 then false else
  let d := decLen (intD.length + fracD.length + 1) m
  -- value = m · 10^(±e − fl), with 10^(d-1) ≤ m < 10^d
  if expNeg then
    -- exponent −e − fl ≤ 0: value < 10^d / 10^(e+fl)
    if d ≤ p + e + fl then false
    else m ≥ thr * 10 ^ (e + fl)
  else if e ≥ fl then
    let x := e - fl
    if d + x ≤ p then false
    else if d + x ≥ p + 3 then true
    else m * 10 ^ x ≥ thr
  else
    let x := fl - e
    if d ≤ p + x then false
    else m ≥ thr * 10 ^ x

/-- `strconv.ParseFloat(lit, 64)` reports a range error. -/
def overflows (lit : Bytes) : Bool := overflowsAt infThreshold 308 lit

/-- `strconv.ParseFloat(lit, 32)` reports a range error. -/
def overflows32 (lit : Bytes) : Bool := overflowsAt infThreshold32 38 lit

/-- json-iterator's strict `Skip` of a number (iter_skip.go, iter_skip_strict.go): a literal that
    starts with `0` is read with `ReadFloat32`; one that starts with `-` or `1`..`9` is skipped
    unread when it has no exponent (`trySkipNumber`) and read with `ReadFloat64` otherwise
    (a range error is an error: the `ReadBigFloat` retry finds the number already consumed). -/
def skipNumOkI (lit : Bytes) : Bool :=
  match lit with
  | 48 :: _ => !overflows32 lit
  | _ => if lit.any (fun c => c == 101 || c == 69) then !overflows lit else true

mutual
  /-- json-iterator's `Skip` succeeds on this (scanner-valid) value: used for unknown members. -/
  def skipOkI : JVal → Bool
    | .num lit => skipNumOkI lit
    | .arr xs => skipListOkI xs
    | .obj ms => skipMemsOkI ms
    | _ => true
  def skipListOkI : JList → Bool
    | .nil => true
    | .cons v t => skipOkI v && skipListOkI t
  def skipMemsOkI : JMems → Bool
    | .nil => true
    | .cons _ v t => skipOkI v && skipMemsOkI t
end

/-! ## `interface{}` values -/

/-- `m[key] = value`. -/
def JMems.set (k : Bytes) (v : JVal) : JMems → JMems
  | .nil => .cons k v .nil
  | .cons k' v' t => if k' = k then .cons k' v t else .cons k' v' (JMems.set k v t)

mutual
  /-- A JSON value as a Go `interface{}`: strings and keys unquoted (a `JVal` whose byte strings
      are *decoded* text), objects as maps; `none` on a float64 range error. -/
  def conv (f : Flavor) : JVal → Option JVal
    | .null => some .null
    | .tru => some .tru
    | .fls => some .fls
    | .num lit => if overflows lit then none else some (.num lit)
    | .str raw => some (.str (unquote f raw))
    | .arr xs => (convList f xs).map .arr
    | .obj ms => (convMems f ms .nil).map .obj
  def convList (f : Flavor) : JList → Option JList
    | .nil => some .nil
    | .cons v t =>
      match conv f v, convList f t with
      | some v', some t' => some (.cons v' t')
      | _, _ => none
  /-- The members stored one by one into the map `acc`. -/
  def convMems (f : Flavor) : JMems → JMems → Option JMems
    | .nil, acc => some acc
    | .cons k v t, acc =>
      match conv f v with
      | some v' => convMems f t (acc.set (unquote f k) v')
      | none => none
end

/-! ## Member names -/

def lowerAscii (k : Bytes) : Bytes := k.map fun c => if 65 ≤ c && c ≤ 90 then c + 32 else c

/-- `foldName` of encoding/json/fold.go as far as ASCII-named fields can tell: ASCII letters to
    upper case, U+017F (C5 BF) → `S`, U+212A (E2 84 AA) → `K`; every other rune folds to a
    non-ASCII rune and is left as it is (it cannot make a name equal to an ASCII one). -/
def foldStd : Bytes → Bytes
  | [] => []
  | 0xC5 :: 0xBF :: t => 83 :: foldStd t
  | 0xE2 :: 0x84 :: 0xAA :: t => 75 :: foldStd t
  | c :: t => (if 97 ≤ c && c ≤ 122 then c - 32 else c) :: foldStd t

def tagQuery : Bytes := [113, 117, 101, 114, 121]
def tagOperationName : Bytes := [111, 112, 101, 114, 97, 116, 105, 111, 110, 78, 97, 109, 101]
def tagVariables : Bytes := [118, 97, 114, 105, 97, 98, 108, 101, 115]
def tagExtensions : Bytes := [101, 120, 116, 101, 110, 115, 105, 111, 110, 115]
def tagId : Bytes := [105, 100]
def tagType : Bytes := [116, 121, 112, 101]
def tagPayload : Bytes := [112, 97, 121, 108, 111, 97, 100]

/-- Does the (unquoted) member name select the field tagged `tag`? -/
def nameMatches (f : Flavor) (name tag : Bytes) : Bool :=
  match f with
  | .std => name == tag || foldStd name == foldStd tag
  | .iter => lowerAscii name == lowerAscii tag

inductive Field where
  | query | operationName | variables | extensions | unknown
  deriving Repr, DecidableEq

/-- The HTTP struct has four fields, the WebSocket payload struct three (no `extensions`). -/
def fieldOf (f : Flavor) (name : Bytes) : Field :=
  if nameMatches f name tagQuery then .query
  else if nameMatches f name tagOperationName then .operationName
  else if nameMatches f name tagVariables then .variables
  else if f = .std && nameMatches f name tagExtensions then .extensions
  else .unknown

/-! ## The envelope structs -/

/-- The decoded envelope: byte strings are decoded text; `none` is the nil map. -/
structure Env where
  query : Bytes := []
  operationName : Bytes := []
  variables : Option JMems := none
  extensions : Option JMems := none

/-- A value stored into a `string` field holding `cur`. -/
def strStep (f : Flavor) (cur : Bytes) : JVal → Option Bytes
  | .str raw => some (unquote f raw)
  | .null => some (match f with | .std => cur | .iter => [])
  | _ => none

/-- A value stored into a `map[string]interface{}` field holding `cur`. -/
def mapStep (f : Flavor) (cur : Option JMems) : JVal → Option (Option JMems)
  | .null => some none
  | .obj ms => (convMems f ms (cur.getD .nil)).map some
  | _ => none

def step (f : Flavor) (e : Env) (k : Bytes) (v : JVal) : Option Env :=
  match fieldOf f (unquote f k) with
  | .query => (strStep f e.query v).map fun s => { e with query := s }
  | .operationName => (strStep f e.operationName v).map fun s => { e with operationName := s }
  | .variables => (mapStep f e.variables v).map fun m => { e with variables := m }
  | .extensions => (mapStep f e.extensions v).map fun m => { e with extensions := m }
  | .unknown =>
    match f with
    | .std => some e                                   -- the value was validated by the scanner
    | .iter => if skipOkI v then some e else none      -- `iter.Skip()` reads some numbers

def JMems.toList : JMems → List (Bytes × JVal)
  | .nil => []
  | .cons k v t => (k, v) :: JMems.toList t

/-- The members in source order, each stored into the struct; the first error ends the decoding
    (json-iterator) or is reported at the end (encoding/json): rejected either way. -/
def run (f : Flavor) : Env → List (Bytes × JVal) → Option Env
  | e, [] => some e
  | e, (k, v) :: t =>
    match step f e k v with
    | some e' => run f e' t
    | none => none

def decodeStruct (f : Flavor) : JVal → Option Env
  | .null => some {}
  | .obj ms => run f {} ms.toList
  | _ => none

/-- `json.NewDecoder(r.Body).Decode(&body)` of graphql.go:217-224. -/
def postDecode (body : Bytes) : Option Env :=
  match parseFirst body with
  | some (v, _) => decodeStruct .std v
  | none => none

/-- `jsoniter.Unmarshal(msg.Payload, &payload)` of both connections. -/
def wsPayloadDecode (payload : Bytes) : Option Env :=
  match parseDoc payload with
  | some v => decodeStruct .iter v
  | none => none

/-- `json.Unmarshal([]byte(text), &m)` for a nil map (GET `variables` / `extensions`):
    `none` error, `some none` the map stays nil. -/
def getMapDecode (text : Bytes) : Option (Option JMems) :=
  match parseDoc text with
  | some v => mapStep .std none v
  | none => none

/-! ## WebSocket frames -/

structure Msg where
  id : Bytes := []
  type : Bytes := []
  payload : Option Bytes := none       -- json.RawMessage; `none` = nil

/-- The members of the top-level object with the exact bytes of each value. The input starts at
    the first member name. -/
def topMems : Nat → Bytes → Option (List (Bytes × Bytes × JVal))
  | 0, _ => none
  | fuel + 1, s =>
    match s with
    | 34 :: t =>
      match scanStr (t.length + 1) t with
      | none => none
      | some (k, r1) =>
        match skipWs r1 with
        | 58 :: r2 =>
          let vs := skipWs r2
          match pValue goMaxDepth (vs.length + 1) 1 vs with
          | none => none
          | some (v, r3) =>
            let raw := vs.take (vs.length - r3.length)
            match skipWs r3 with
            | 125 :: r4 => if skipWs r4 = [] then some [(k, raw, v)] else none
            | 44 :: r4 => (topMems fuel (skipWs r4)).map fun ms => (k, raw, v) :: ms
            | _ => none
        | _ => none
    | _ => none

def msgStep (m : Msg) (k raw : Bytes) (v : JVal) : Option Msg :=
  let name := unquote .std k
  let str (cur : Bytes) : Option Bytes := strStep .std cur v
  if nameMatches .std name tagId then (str m.id).map fun s => { m with id := s }
  else if nameMatches .std name tagType then (str m.type).map fun s => { m with type := s }
  else if nameMatches .std name tagPayload then some { m with payload := some raw }
  else some m

def msgRun : Msg → List (Bytes × Bytes × JVal) → Option Msg
  | m, [] => some m
  | m, (k, raw, v) :: t =>
    match msgStep m k raw v with
    | some m' => msgRun m' t
    | none => none

/-- `json.Unmarshal(data, &msg)` of both connections. -/
def decodeMsg (frame : Bytes) : Option Msg :=
  match parseDoc frame with
  | none => none
  | some .null => some {}
  | some (.obj .nil) => some {}
  | some (.obj _) =>
    match skipWs frame with
    | 123 :: t => (topMems (frame.length + 1) (skipWs t)).bind (msgRun {})
    | _ => none
  | some _ => none

end ApiFu.C17.Json
