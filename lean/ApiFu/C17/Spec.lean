/-
  C17 — specification side, written from the property statement and from the GraphQL-over-HTTP /
  graphql-ws / graphql-transport-ws envelope conventions, independently of `decideHTTP`'s
  control flow:

  * `Accepts h r` / `Rejects h rj`: which abstract HTTP requests carry which request, and which
    are refused for which reason (declarative, one rule per case);
  * `Malformed h`: what the property statement calls a malformed envelope;
  * the five transports, `canCarry`, and how a client *encodes* an abstract request for each of
    them (`encode`), parameterised by encoders that are only required to be left inverses of the
    server's decoders (`Lawful` — a hypothesis of the theorems, never an axiom);
  * `decode` / `serve`: what the server does with a wire message (by way of the model).

  Core Lean only.
-/
import ApiFu.C17.Model

namespace ApiFu.C17

/-! ## The HTTP envelope, declaratively -/

/-- `Accepts h r`: the HTTP request `h` carries the GraphQL request `r`. -/
inductive Accepts {J : Type} : AbsHttp J → Req J → Prop where
  /-- GET: everything comes from the query string; JSON-valued parameters that are absent, empty
      or `null` count as "no value". -/
  | get (h : AbsHttp J) (v e : Option J) :
      h.method = .get → h.pVariables.value = some v → h.pExtensions.value = some e →
      Accepts h { query := h.pQuery.getD "", operationName := h.pOperationName.getD "", variables := v, extensions := e }
  /-- POST application/json: everything comes from the JSON body. -/
  | postJson (h : AbsHttp J) (q op : String) (v e : Option J) :
      h.method = .post → h.media = .json → h.jsonBody = .ok q op v e →
      Accepts h { query := q, operationName := op, variables := v, extensions := e }
  /-- POST application/graphql: the body is the query text, nothing else is carried. -/
  | postGraphql (h : AbsHttp J) :
      h.method = .post → h.media = .graphql →
      Accepts h { query := h.rawBody, operationName := "", variables := none, extensions := none }

/-- `Rejects h rj`: the HTTP request `h` is refused for reason `rj`. -/
inductive Rejects {J : Type} : AbsHttp J → Reject → Prop where
  | method (h : AbsHttp J) : h.method = .other → Rejects h .methodNotAllowed
  | contentType (h : AbsHttp J) : h.method = .post → h.media ≠ .json → h.media ≠ .graphql → Rejects h .invalidContentType
  | body (h : AbsHttp J) : h.method = .post → h.media = .json → h.jsonBody = .bad → Rejects h .malformedBody
  | variables (h : AbsHttp J) : h.method = .get → h.pVariables = .nonempty .bad → Rejects h .malformedVariables
  /-- the `variables` parameter is looked at first -/
  | extensions (h : AbsHttp J) : h.method = .get → h.pVariables ≠ .nonempty .bad → h.pExtensions = .nonempty .bad →
      Rejects h .malformedExtensions

/-- The property statement's "malformed envelope": bad JSON, unsupported content type, unsupported method. -/
def Malformed {J : Type} (h : AbsHttp J) : Prop :=
  h.method = .other ∨
  (h.method = .post ∧ h.media ≠ .json ∧ h.media ≠ .graphql) ∨
  (h.method = .post ∧ h.media = .json ∧ h.jsonBody = .bad) ∨
  (h.method = .get ∧ (h.pVariables = .nonempty .bad ∨ h.pExtensions = .nonempty .bad))

/-- The WebSocket counterpart: a frame that is not a message, a start whose payload does not
    decode, or a start before the connection was initialised. -/
def WsMalformed {J : Type} (didInit : Bool) : WsMsg J → Prop
  | .undecodable => True
  | .start _ p => didInit = false ∨ p = .bad

/-! ## Transports and client-side encoding -/

inductive Transport where
  | httpGet | httpPostJson | httpPostGraphql | graphqlWs | transportWs
  deriving Repr, DecidableEq

/-- Which requests a transport has room for: application/graphql carries the query text only; the
    WebSocket payloads have no `extensions` member. -/
def canCarry {J : Type} : Transport → Req J → Prop
  | .httpGet, _ => True
  | .httpPostJson, _ => True
  | .httpPostGraphql, r => r.operationName = "" ∧ r.variables = none ∧ r.extensions = none
  | .graphqlWs, r => r.extensions = none
  | .transportWs, r => r.extensions = none

/-- What a client uses to spell a request. -/
structure Encoders (J : Type) where
  /-- query-string encoding of name/value pairs (`url.Values.Encode`) -/
  urlEncode : List (String × String) → String
  /-- JSON text of an object (`json.Marshal` of the map) -/
  marshalMap : J → String
  /-- the JSON envelope `{"query":…,"operationName":…,"variables":…,"extensions":…}` -/
  encodeBody : Req J → String
  /-- the WebSocket payload `{"query":…,"variables":…,"operationName":…}` -/
  encodePayload : String → Option J → String → String
  /-- the WebSocket message `{"type":…,"id":…,"payload":…}` -/
  encodeMessage : String → String → String → String

/-- The encoders are left inverses of the server's decoders — the only thing the theorems assume
    about JSON, URL and MIME handling. -/
structure Lawful {J : Type} (c : Codec J) (e : Encoders J) : Prop where
  url_get : ∀ (kvs : List (String × String)) (k : String), (kvs.map Prod.fst).Nodup →
    c.urlGet (e.urlEncode kvs) k = kvs.lookup k
  map_roundtrip : ∀ j, c.unmarshalMap (e.marshalMap j) = .obj j
  map_nonempty : ∀ j, e.marshalMap j ≠ ""
  body_roundtrip : ∀ r : Req J, c.decodeBody (e.encodeBody r) = .ok r.query r.operationName r.variables r.extensions
  media_json : c.mediaType "application/json" = .json
  media_graphql : c.mediaType "application/graphql" = .graphql
  message_roundtrip : ∀ ty id p, c.decodeMessage (e.encodeMessage ty id p) = some (ty, id, some p)
  payload_roundtrip : ∀ q v op, c.decodePayload (e.encodePayload q v op) = .ok q v op

/-- A message on the wire. -/
inductive Wire where
  | http (h : HttpReq)
  | ws (k : WsKind) (frame : String)
  deriving Repr, DecidableEq

/-- Everything about a concrete request that the carried operation does not determine. -/
structure Extras where
  id : String := "1"              -- WebSocket operation id
  getContentType : String := ""   -- a GET may carry any Content-Type header …
  getBody : String := ""          -- … and any body
  postRawQuery : String := ""     -- a POST may carry any query string (it is read, then overwritten)

def getParams {J : Type} (e : Encoders J) (r : Req J) : List (String × String) :=
  [("query", r.query), ("operationName", r.operationName)]
    ++ (match r.variables with | none => [] | some v => [("variables", e.marshalMap v)])
    ++ (match r.extensions with | none => [] | some x => [("extensions", e.marshalMap x)])

/-- How a client sends request `r` over transport `t`. -/
def encode {J : Type} (e : Encoders J) (x : Extras) : Transport → Req J → Wire
  | .httpGet, r => .http { method := "GET", rawQuery := e.urlEncode (getParams e r), contentType := x.getContentType, body := x.getBody }
  | .httpPostJson, r => .http { method := "POST", rawQuery := x.postRawQuery, contentType := "application/json", body := e.encodeBody r }
  | .httpPostGraphql, r => .http { method := "POST", rawQuery := x.postRawQuery, contentType := "application/graphql", body := r.query }
  | .graphqlWs, r => .ws .graphqlWs (e.encodeMessage "start" x.id (e.encodePayload r.query r.variables r.operationName))
  | .transportWs, r => .ws .transportWs (e.encodeMessage "subscribe" x.id (e.encodePayload r.query r.variables r.operationName))

/-! ## Server side: decoding and serving a wire message (through the model) -/

/-- What the server's envelope decoders make of a wire message. -/
inductive Decoded (J : Type) where
  | request (r : Req J)                       -- HTTP: handed to the pipeline
  | rejected (rj : Reject)                    -- HTTP: error status
  | wsStart (id : String) (r : Req J)         -- WebSocket: HandleStart
  | wsIgnored
  | wsClosed (code : Nat) (text : String)
  | notModelled                               -- a WebSocket message type other than start / subscribe
  deriving Repr, DecidableEq

def decode {J : Type} (c : Codec J) (didInit : Bool) : Wire → Decoded J
  | .http h =>
    match newRequestFromHTTP c h with
    | .ok r => .request r
    | .error rj => .rejected rj
  | .ws k frame =>
    match abstractWS c k frame with
    | none => .notModelled
    | some m =>
      match wsDecide k didInit m with
      | .ignore => .wsIgnored
      | .close code text => .wsClosed code text
      | .handleStart id q v op => .wsStart id { query := q, operationName := op, variables := v, extensions := none }

/-- What the client observes. -/
inductive Served (Resp : Type) where
  | http (o : HttpOut Resp)
  | ws (o : WsOut Resp)
  | notModelled
  deriving Repr, DecidableEq

/-- The GraphQL response content an exchange delivered (if any). -/
def Served.response {Resp : Type} : Served Resp → Option Resp
  | .http (.ok r) => some r
  | .ws (.dataThenComplete _ r) => some r
  | _ => none

section serve
variable {m : Type → Type} [Monad m] {J Def Schema Feat Cost Ctx Doc Resp : Type}

/-- The server: `API.ServeGraphQL` for HTTP messages, `API.ServeGraphQLWS` (one start/subscribe on
    a connection with context `ctx`) for WebSocket frames. -/
def serve (P : Pipeline m J Schema Feat Cost Ctx Doc Resp) (S : SchemaOps Def Schema)
    (a : Api Def Feat Cost Ctx) (c : Codec J) (ctx : Ctx) (didInit : Bool) : Wire → m (Served Resp)
  | .http h => Served.http <$> serveGraphQL P S a ctx (abstractHTTP c h)
  | .ws k frame =>
    match abstractWS c k frame with
    | none => pure .notModelled
    | some msg => Served.ws <$> serveWS P S a k didInit ctx msg

/-- A history: wire messages served one after the other by the same API value, each with the
    context (principal, hence features) of its own request / connection. The model keeps no state
    between them — whatever `ServeGraphQL` / `HandleStart` may remember from earlier requests must
    not be observable; the harness checks exactly that on histories. -/
def serveAll (P : Pipeline m J Schema Feat Cost Ctx Doc Resp) (S : SchemaOps Def Schema)
    (a : Api Def Feat Cost Ctx) (c : Codec J) (didInit : Bool) : List (Ctx × Wire) → m (List (Served Resp))
  | [] => pure []
  | (ctx, w) :: rest => do
    let o ← serve P S a c ctx didInit w
    let os ← serveAll P S a c didInit rest
    pure (o :: os)

/-- How transport `t` wraps the response of the shared pipeline. -/
def deliver (t : Transport) (x : Extras) (resp : Resp) : Served Resp :=
  match t with
  | .httpGet | .httpPostJson | .httpPostGraphql => .http (.ok resp)
  | .graphqlWs | .transportWs => .ws (.dataThenComplete x.id resp)

end serve

end ApiFu.C17
