/-
  C17 — `NewRequestFromHTTP` on raw bytes end to end: method, raw query, Content-Type header *bytes*
  and body bytes; every decoder (net/url, mime, encoding/json) is a transliteration inside the model,
  no decoder outcome is a parameter any more (only `strconv.ParseFloat`'s value of an in-range
  literal, which no decision depends on).
-/
import ApiFu.C17.Props
import ApiFu.C17.JsonBridge
import ApiFu.C17.JsonProps
import ApiFu.C17.Mime

namespace ApiFu.C17.Json
open ApiFu.C17

structure HttpRaw where
  method : Method
  rawQuery : Bytes
  contentType : Bytes        -- r.Header.Get("Content-Type")
  body : Bytes

def HttpRaw.toBytes (h : HttpRaw) : HttpBytes :=
  { method := h.method, rawQuery := h.rawQuery, media := Mime.mediaOf h.contentType, body := h.body }

/-- `graphql.NewRequestFromHTTP` with all its decoders modelled. -/
def newRequestRaw (h : HttpRaw) : Except Reject (Req JMems) := newRequestBytes h.toBytes

/-- **raw_reject_4xx** — for every method, query string, Content-Type header and body (arbitrary
    bytes) the outcome is a request or a refusal with a 4xx status. -/
theorem raw_reject_4xx (h : HttpRaw) :
    (∃ r, newRequestRaw h = .ok r) ∨ (∃ rj, newRequestRaw h = .error rj ∧ 400 ≤ rj.status ∧ rj.status < 500) :=
  bytes_reject_4xx h.toBytes

/-- **raw_unsupported_media_400** — a POST whose Content-Type is not application/json or
    application/graphql in the sense of `mime.ParseMediaType` (any other type, unparsable type, or a
    duplicate parameter — `Mime.mediaOf … = .other`) is refused with 400 "invalid content-type",
    whatever the body is. -/
theorem raw_unsupported_media_400 (h : HttpRaw) (hm : h.method = .post) (hmed : Mime.mediaOf h.contentType = .other) :
    newRequestRaw h = .error .invalidContentType := by
  simp [newRequestRaw, HttpRaw.toBytes, newRequestBytes, decideHTTP, abstractBytes, hm, hmed]

/-- **raw_unsupported_method_405** — any method but GET and POST is refused with 405, whatever else
    the request carries (HEAD, PUT, … with a query in the URL included). -/
theorem raw_unsupported_method_405 (h : HttpRaw) (hm : h.method = .other) :
    newRequestRaw h = .error .methodNotAllowed := by
  simp [newRequestRaw, HttpRaw.toBytes, newRequestBytes, decideHTTP, abstractBytes, hm]

/-- **raw_graphql_body_is_query** — POST application/graphql (in `mime.ParseMediaType`'s sense) hands
    the body bytes, untouched, to the pipeline as the query; no operationName, variables, extensions. -/
theorem raw_graphql_body_is_query (h : HttpRaw) (hm : h.method = .post) (hmed : Mime.mediaOf h.contentType = .graphql) :
    newRequestRaw h = .ok { query := latin1 h.body, operationName := "", variables := none, extensions := none } := by
  simp [newRequestRaw, HttpRaw.toBytes, newRequestBytes, decideHTTP, abstractBytes, hm, hmed]

/-- `APPLİCATION/JSON; charset=utf-8` (U+0130) is application/json; a duplicate parameter makes it nothing. -/
example : Mime.mediaOf [65, 80, 80, 76, 0xC4, 0xB0, 67, 65, 84, 73, 79, 78, 47, 74, 83, 79, 78, 59, 32, 99, 61, 49] = .json ∧
    Mime.mediaOf (Mime.nameJson ++ [59, 120, 61, 49, 59, 120, 61, 50]) = .other ∧
    Mime.mediaOf (Mime.nameJson ++ [59, 120, 61, 49, 59, 120, 61, 49]) = .json ∧
    Mime.mediaOf (Mime.nameJson ++ [59, 32, 99, 104, 97, 114, 115, 101, 116]) = .json := by decide

end ApiFu.C17.Json
