/-
  C17 — theorems about the byte-level envelope decoders (`Json.lean`, `JsonBridge.lean`): no codec
  hypothesis (`JsonLawful`) is used anywhere in this file; the JSON decoders are the modelled ones.
-/
import ApiFu.C17.Model
import ApiFu.C17.Spec
import ApiFu.C17.Props
import ApiFu.C17.Json
import ApiFu.C17.JsonBridge

namespace ApiFu.C17.Json
open ApiFu.C17

/-! ## 1. Where the two string decoders agree -/

/-- Raw string content on which no library-specific branch of the unquoters is reached: every
    byte is ASCII and no `\u` escape names a surrogate. -/
def plain : Nat → Bytes → Bool
  | 0, _ => true
  | _, [] => true
  | fuel + 1, c :: t =>
    if c = 92 then
      match getU4 (c :: t) with
      | some (r, t4) => !isSurrogate r && plain fuel t4
      | none =>
        match t with
        | _ :: t' => plain fuel t'
        | [] => true
    else decide (c < 0x80) && plain fuel t

/-- **unquote_agree_of_plain** — on ASCII content without surrogate escapes encoding/json and
    json-iterator produce the same text (all simple escapes and non-surrogate `\u` escapes included). -/
theorem unquote_agree_of_plain : ∀ (fuel : Nat) (raw : Bytes), plain fuel raw = true → unqS fuel raw = unqI fuel raw := by
  intro fuel
  induction fuel with
  | zero => intro raw _; simp [unqS, unqI]
  | succ n ih =>
    intro raw h
    cases raw with
    | nil => simp [unqS, unqI]
    | cons c t =>
      unfold unqS unqI
      unfold plain at h
      by_cases hc : c = 92
      · simp only [hc, if_true] at h ⊢
        cases hg : getU4 (92 :: t) with
        | some p =>
          obtain ⟨r, t4⟩ := p
          simp only [hg, Bool.and_eq_true, Bool.not_eq_true'] at h ⊢
          simp only [h.1, Bool.false_eq_true, if_false]
          rw [ih t4 h.2]
        | none =>
          simp only [hg] at h ⊢
          cases t with
          | nil => rfl
          | cons e t' => simp only at h ⊢; rw [ih t' h]
      · simp only [hc, if_false, Bool.and_eq_true, decide_eq_true_eq] at h ⊢
        simp only [h.1, if_true]
        rw [ih t h.2]

/-! ## 2. The struct decoders agree member by member -/

/-- The WebSocket payload struct has no `extensions` field. -/
def dropExt : Field → Field
  | .extensions => .unknown
  | x => x

/-- A member on which the leaf-level decoders of the two libraries agree: the name unquotes to the
    same text and selects the same field, a string value unquotes to the same text, a map value
    converts to the same map. (Sufficient: name and all strings inside are `plain` and the name is
    ASCII — `unquote_agree_of_plain`; the divergent cases are exhibited below.) -/
structure MemberTame (k : Bytes) (v : JVal) : Prop where
  name : unquote .std k = unquote .iter k
  field : fieldOf .iter (unquote .iter k) = dropExt (fieldOf .std (unquote .std k))
  str : ∀ raw, v = .str raw → unquote .std raw = unquote .iter raw
  map : ∀ cur, mapStep .std cur v = mapStep .iter cur v

def stdField (m : Bytes × JVal) : Field := fieldOf .std (unquote .std m.1)

/-- How many members select field `fld` (under encoding/json's matching). -/
def countField (fld : Field) : List (Bytes × JVal) → Nat
  | [] => 0
  | m :: t => (if stdField m = fld then 1 else 0) + countField fld t

/-- The three members every transport hands to the pipeline. -/
def Same3 (a b : Env) : Prop :=
  a.query = b.query ∧ a.operationName = b.operationName ∧ a.variables = b.variables

/-- **run_agree** — the induction behind `transport_same_request_bytes_partial`: started from envelopes
    that agree on query / operationName / variables, over members that are `MemberTame`, with at most
    one `query` and one `operationName` member (or none left once the field is non-empty), the two
    struct decoders end in envelopes that agree again — whenever both accept. -/
theorem run_agree : ∀ (ms : List (Bytes × JVal)) (e1 e2 r1 r2 : Env),
    Same3 e1 e2 → (∀ m ∈ ms, MemberTame m.1 m.2) →
    (e1.query = [] ∨ countField .query ms = 0) → countField .query ms ≤ 1 →
    (e1.operationName = [] ∨ countField .operationName ms = 0) → countField .operationName ms ≤ 1 →
    run .std e1 ms = some r1 → run .iter e2 ms = some r2 → Same3 r1 r2 := by
  intro ms
  induction ms with
  | nil =>
    intro e1 e2 r1 r2 hs _ _ _ _ _ h1 h2
    simp only [run, Option.some.injEq] at h1 h2
    subst h1; subst h2; exact hs
  | cons m t ih =>
    obtain ⟨k, v⟩ := m
    intro e1 e2 r1 r2 hs htame hq hq1 ho ho1 h1 h2
    have tm : MemberTame k v := htame (k, v) (List.mem_cons_self ..)
    have htame' : ∀ m ∈ t, MemberTame m.1 m.2 := fun m hm => htame m (List.mem_cons_of_mem _ hm)
    simp only [run] at h1 h2
    cases hs1 : step .std e1 k v with
    | none => simp [hs1] at h1
    | some e1' =>
      cases hs2 : step .iter e2 k v with
      | none => simp [hs2] at h2
      | some e2' =>
        simp only [hs1, hs2] at h1 h2
        obtain ⟨hsq, hso, hsv⟩ := hs
        simp only [countField, stdField] at hq hq1 ho ho1
        have hfield := tm.field
        unfold step at hs1 hs2
        rw [hfield] at hs2
        cases hf : fieldOf .std (unquote .std k) with
        | query =>
          simp only [hf, dropExt, Option.map_eq_some_iff] at hs1 hs2
          simp [hf] at hq hq1 ho ho1
          obtain ⟨s1, hs1a, rfl⟩ := hs1
          obtain ⟨s2, hs2a, rfl⟩ := hs2
          have hct : countField .query t = 0 := by omega
          have hqe : e1.query = [] := hq
          have hss : s1 = s2 := by
            cases v with
            | str raw =>
              simp only [strStep, Option.some.injEq] at hs1a hs2a
              rw [← hs1a, ← hs2a]; exact tm.str raw rfl
            | null =>
              simp only [strStep, Option.some.injEq] at hs1a hs2a
              rw [← hs1a, ← hs2a]; exact hqe
            | _ => simp [strStep] at hs1a
          refine ih _ _ r1 r2 ?_ htame' (Or.inr hct) (by omega) ?_ ho1 h1 h2
          · exact ⟨hss, hso, hsv⟩
          · exact ho
        | operationName =>
          simp only [hf, dropExt, Option.map_eq_some_iff] at hs1 hs2
          simp [hf] at hq hq1 ho ho1
          obtain ⟨s1, hs1a, rfl⟩ := hs1
          obtain ⟨s2, hs2a, rfl⟩ := hs2
          have hct : countField .operationName t = 0 := by omega
          have hoe : e1.operationName = [] := ho
          have hss : s1 = s2 := by
            cases v with
            | str raw =>
              simp only [strStep, Option.some.injEq] at hs1a hs2a
              rw [← hs1a, ← hs2a]; exact tm.str raw rfl
            | null =>
              simp only [strStep, Option.some.injEq] at hs1a hs2a
              rw [← hs1a, ← hs2a]; exact hoe
            | _ => simp [strStep] at hs1a
          refine ih _ _ r1 r2 ?_ htame' ?_ hq1 (Or.inr hct) (by omega) h1 h2
          · exact ⟨hsq, hss, hsv⟩
          · exact hq
        | variables =>
          simp only [hf, dropExt, Option.map_eq_some_iff] at hs1 hs2
          simp [hf] at hq hq1 ho ho1
          obtain ⟨m1, hm1, rfl⟩ := hs1
          obtain ⟨m2, hm2, rfl⟩ := hs2
          have hmm : m1 = m2 := by
            rw [tm.map, hsv, hm2] at hm1
            exact (Option.some.inj hm1).symm
          exact ih { e1 with variables := m1 } { e2 with variables := m2 } r1 r2 ⟨hsq, hso, hmm⟩ htame' hq hq1 ho ho1 h1 h2
        | extensions =>
          simp only [hf, dropExt, Option.map_eq_some_iff] at hs1 hs2
          simp [hf] at hq hq1 ho ho1
          obtain ⟨m1, _, rfl⟩ := hs1
          split at hs2
          · simp only [Option.some.injEq] at hs2
            subst hs2
            exact ih { e1 with extensions := m1 } e2 r1 r2 ⟨hsq, hso, hsv⟩ htame' hq hq1 ho ho1 h1 h2
          · simp at hs2
        | unknown =>
          simp only [hf, dropExt, Option.some.injEq] at hs1 hs2
          simp [hf] at hq hq1 ho ho1
          subst hs1
          split at hs2
          · simp only [Option.some.injEq] at hs2
            subst hs2
            exact ih e1 e2 r1 r2 ⟨hsq, hso, hsv⟩ htame' hq hq1 ho ho1 h1 h2
          · simp at hs2

/-- What the restriction of `transport_same_request_bytes_partial` says about a parsed envelope:
    nothing for a non-object; for an object every member is `MemberTame` and `query` /
    `operationName` are not given twice (`variables` may be: both libraries merge). -/
def TameVal : JVal → Prop
  | .obj ms =>
    (∀ m ∈ ms.toList, MemberTame m.1 m.2) ∧ countField .query ms.toList ≤ 1 ∧
      countField .operationName ms.toList ≤ 1
  | _ => True

/-
  Full statement (false for the code as it is, see the three `example`s below — none of them is a
  violation of the property, which speaks about the same *operation*, not the same bytes):

    ∀ b r w, postDecode b = some r → wsPayloadDecode b = some w → Same3 r w
-/
/-- **transport_same_request_bytes_partial** — for *every byte string* `b`: if the HTTP POST
    decoder (encoding/json, first value of the body) and the WebSocket payload decoder
    (json-iterator, on both WebSocket protocols) both accept `b`, then query, operationName and
    variables handed to the shared pipeline are equal — member order, duplicate `variables`, `null`
    members, unknown members, upper/lower-case member names, top-level `null` included — *provided*
    `b`'s envelope is `TameVal`: strings inside are text on which the two unquoters agree, member
    names select the same field, `query` / `operationName` occur at most once. No codec hypothesis. -/
theorem transport_same_request_bytes_partial (b : Bytes) (r w : Env)
    (hp : postDecode b = some r) (hw : wsPayloadDecode b = some w)
    (tame : ∀ v rest, parseFirst b = some (v, rest) → TameVal v) : Same3 r w := by
  unfold postDecode at hp
  unfold wsPayloadDecode parseDoc at hw
  cases hpf : parseFirst b with
  | none => simp [hpf] at hp
  | some p =>
    obtain ⟨v, rest⟩ := p
    simp only [hpf] at hp hw
    have tv := tame v rest hpf
    by_cases hr : skipWs rest = []
    · simp only [hr, if_true] at hw
      cases v with
      | null =>
        simp only [decodeStruct, Option.some.injEq] at hp hw
        subst hp; subst hw; exact ⟨rfl, rfl, rfl⟩
      | obj ms =>
        simp only [decodeStruct] at hp hw
        obtain ⟨t1, t2, t3⟩ := tv
        exact run_agree ms.toList {} {} r w ⟨rfl, rfl, rfl⟩ t1 (Or.inl rfl) t2 (Or.inl rfl) t3 hp hw
      | _ => simp [decodeStruct] at hp
    · simp [hr] at hw

/-- The hypothesis is satisfiable and the theorem is not vacuous: `{"query":"{a}","Variables":{"n":1},"x":null}`. -/
def sampleBody : Bytes :=
  [123, 34, 113, 117, 101, 114, 121, 34, 58, 34, 123, 97, 125, 34, 44, 34, 86, 97, 114, 105, 97, 98, 108, 101, 115, 34, 58,
   123, 34, 110, 34, 58, 49, 125, 44, 34, 120, 34, 58, 110, 117, 108, 108, 125]

example : (postDecode sampleBody).map (·.query) = some [123, 97, 125] ∧
    (wsPayloadDecode sampleBody).map (·.query) = some [123, 97, 125] ∧
    ((postDecode sampleBody).map (·.variables.isSome)) = some true := by decide

/-! The three ways in which the restriction is necessary (each reproduced against the real
    decoders by the harness, corpus `J-divergent-*`): -/

/-- `{"query":"x","query":null}`: encoding/json keeps "x", json-iterator stores "". -/
example : (postDecode [123, 34, 113, 117, 101, 114, 121, 34, 58, 34, 120, 34, 44, 34, 113, 117, 101, 114, 121, 34, 58, 110, 117, 108, 108, 125]).map (·.query) = some [120] ∧
    (wsPayloadDecode [123, 34, 113, 117, 101, 114, 121, 34, 58, 34, 120, 34, 44, 34, 113, 117, 101, 114, 121, 34, 58, 110, 117, 108, 108, 125]).map (·.query) = some [] := by decide

/-- The member name `variableſ` (U+017F) selects `variables` in encoding/json only. -/
example : fieldOf .std [118, 97, 114, 105, 97, 98, 108, 101, 0xC5, 0xBF] = .variables ∧
    fieldOf .iter [118, 97, 114, 105, 97, 98, 108, 101, 0xC5, 0xBF] = .unknown := by decide

/-- `\ud800😀`: U+FFFD U+1F600 in encoding/json, three U+FFFD in json-iterator; a raw
    byte 0xFF: U+FFFD vs the byte itself. -/
example : unquote .std [92, 117, 100, 56, 48, 48, 92, 117, 100, 56, 51, 100, 92, 117, 100, 101, 48, 48] = [0xEF, 0xBF, 0xBD, 0xF0, 0x9F, 0x98, 0x80] ∧
    unquote .iter [92, 117, 100, 56, 48, 48, 92, 117, 100, 56, 51, 100, 92, 117, 100, 101, 48, 48] = [0xEF, 0xBF, 0xBD, 0xEF, 0xBF, 0xBD, 0xEF, 0xBF, 0xBD] ∧
    unquote .std [0xFF] = [0xEF, 0xBF, 0xBD] ∧ unquote .iter [0xFF] = [0xFF] := by decide

/-! ## 3. GET and POST decode `variables` with the same function -/

/-- **run_std_variables_untouched** — members that do not select `variables` leave it as it was. -/
theorem run_std_variables_untouched : ∀ (ms : List (Bytes × JVal)) (e r : Env),
    countField .variables ms = 0 → run .std e ms = some r → r.variables = e.variables := by
  intro ms
  induction ms with
  | nil => intro e r _ h; simp only [run, Option.some.injEq] at h; subst h; rfl
  | cons m t ih =>
    obtain ⟨k, v⟩ := m
    intro e r hc h
    simp only [countField, stdField] at hc
    simp only [run] at h
    cases hs : step .std e k v with
    | none => simp [hs] at h
    | some e' =>
      simp only [hs] at h
      have hct : countField .variables t = 0 := by omega
      rw [ih e' r hct h]
      unfold step at hs
      cases hf : fieldOf .std (unquote .std k) with
      | variables => simp [hf] at hc
      | query => simp only [hf, Option.map_eq_some_iff] at hs; obtain ⟨_, _, rfl⟩ := hs; rfl
      | operationName => simp only [hf, Option.map_eq_some_iff] at hs; obtain ⟨_, _, rfl⟩ := hs; rfl
      | extensions => simp only [hf, Option.map_eq_some_iff] at hs; obtain ⟨_, _, rfl⟩ := hs; rfl
      | unknown => simp only [hf, Option.some.injEq] at hs; subst hs; rfl

/-- **get_post_same_variables** — for every text `t` and every accepted POST body whose single
    `variables` member has the value `t` parses to: the GET decoder (`json.Unmarshal` of the
    `variables` parameter) accepts `t` and yields exactly the POST request's variables (nil map for
    `null`, numbers, nesting, duplicate keys inside, all alike — one function, `mapStep .std none`). -/
theorem get_post_same_variables (text : Bytes) (v : JVal) (k : Bytes) (pre post : List (Bytes × JVal)) (r : Env)
    (hparse : parseDoc text = some v)
    (hk : fieldOf .std (unquote .std k) = .variables)
    (hpre : countField .variables pre = 0) (hpost : countField .variables post = 0)
    (hrun : run .std {} (pre ++ (k, v) :: post) = some r) :
    getMapDecode text = some r.variables := by
  have split : ∀ (pre : List (Bytes × JVal)) (e : Env), countField .variables pre = 0 →
      run .std e (pre ++ (k, v) :: post) = some r →
      ∃ e', e'.variables = e.variables ∧ run .std e' ((k, v) :: post) = some r := by
    intro pre
    induction pre with
    | nil => intro e _ h; exact ⟨e, rfl, h⟩
    | cons m t ih =>
      intro e hc h
      simp only [countField] at hc
      simp only [List.cons_append, run] at h
      cases hs : step .std e m.1 m.2 with
      | none => simp [hs] at h
      | some e1 =>
        simp only [hs] at h
        obtain ⟨e', he', hr'⟩ := ih e1 (by omega) h
        refine ⟨e', ?_, hr'⟩
        rw [he']
        have := run_std_variables_untouched [m] e e1 (by simp only [countField]; omega) (by simp [run, hs])
        exact this
  obtain ⟨e', he', hr'⟩ := split pre {} hpre hrun
  simp only [run] at hr'
  cases hs : step .std e' k v with
  | none => simp [hs] at hr'
  | some e2 =>
    simp only [hs] at hr'
    rw [run_std_variables_untouched post e2 r hpost hr']
    unfold step at hs
    simp only [hk, Option.map_eq_some_iff] at hs
    obtain ⟨m, hm, rfl⟩ := hs
    unfold getMapDecode
    rw [hparse]
    have : e'.variables = none := he'
    rw [this] at hm
    simpa using hm

/-! ## 4. Malformed bytes: 4xx / ignored / closed with 4400, nothing executed -/

/-- **bytes_reject_4xx** — whatever the bytes of the request are, `NewRequestFromHTTP` either
    yields a request or refuses with a status in 4xx (never 5xx; the model function is total: there
    is no third outcome such as a panic or a dropped connection). -/
theorem bytes_reject_4xx (h : HttpBytes) :
    (∃ r, newRequestBytes h = .ok r) ∨
    (∃ rj, newRequestBytes h = .error rj ∧ 400 ≤ rj.status ∧ rj.status < 500) := by
  cases hd : newRequestBytes h with
  | ok r => exact Or.inl ⟨r, rfl⟩
  | error rj => exact Or.inr ⟨rj, rfl, reject_status_4xx rj⟩

/-- **bytes_bad_json_body_400** — a POST application/json body that is not acceptable JSON for the
    envelope (empty, BOM, bad syntax, nesting > 10000, a member of the wrong type, a number out of
    float64 range, top-level array/string/number …: `postDecode` fails) is refused with
    400 "malformed request body", whatever the URL says. -/
theorem bytes_bad_json_body_400 (h : HttpBytes) (hm : h.method = .post) (hmed : h.media = .json)
    (hbad : postDecode h.body = none) : newRequestBytes h = .error .malformedBody := by
  simp [newRequestBytes, decideHTTP, abstractBytes, hm, hmed, bodyOutcome, hbad]

/-- **bytes_bad_json_variables_400** — a GET whose non-empty `variables` parameter is not `null` or
    an acceptable JSON object is refused with 400 "malformed variables parameter". -/
theorem bytes_bad_json_variables_400 (h : HttpBytes) (hm : h.method = .get) (s : Bytes)
    (hget : urlGetB h.rawQuery tagVariables = some s) (hne : s ≠ []) (hbad : getMapDecode s = none) :
    newRequestBytes h = .error .malformedVariables := by
  simp [newRequestBytes, decideHTTP, abstractBytes, hm, jsonParamB, hget, hne, mapOutcome, hbad, JsonParam.value]

section served
variable {m : Type → Type} [Monad m] [LawfulMonad m] {Def Schema Feat Cost Ctx Doc Resp : Type}

omit [LawfulMonad m] in
/-- **bytes_malformed_nothing_executed** — a refused byte-level request is answered by
    `ServeGraphQL` with that 4xx status and the exchange is `pure`: no pipeline piece runs. -/
theorem bytes_malformed_nothing_executed (P : Pipeline m JMems Schema Feat Cost Ctx Doc Resp) (S : SchemaOps Def Schema)
    (a : Api Def Feat Cost Ctx) (ctx : Ctx) (h : HttpBytes) (rj : Reject) (hd : newRequestBytes h = .error rj) :
    serveGraphQL P S a ctx (abstractBytes h) = pure (.error rj.status rj.message) ∧
      400 ≤ rj.status ∧ rj.status < 500 := by
  refine ⟨?_, reject_status_4xx rj⟩
  unfold newRequestBytes at hd
  unfold serveGraphQL
  rw [hd]

end served

/-- **ws_bytes_malformed** — a frame that `json.Unmarshal` refuses, or a start / subscribe frame
    without payload or with a payload json-iterator refuses, is ignored (graphql-ws, or before
    init) or closes the connection with 4400 (graphql-transport-ws): the protocol's own error
    signal; `HandleStart` is not reached. -/
theorem ws_bytes_malformed (k : WsKind) (didInit : Bool) (frame : Bytes)
    (hbad : decodeMsg frame = none ∨
      ∃ msg, decodeMsg frame = some msg ∧ msg.type = startTypeB k ∧ payloadOutcome msg.payload = .bad) :
    wsBytes k didInit frame = some .ignore ∨ ∃ text, wsBytes k didInit frame = some (.close 4400 text) := by
  rcases hbad with h | ⟨msg, h, ht, hp⟩
  · cases k
    · left; simp [wsBytes, abstractFrame, h, wsDecide]
    · right; exact ⟨"unable to deserialize message", by simp [wsBytes, abstractFrame, h, wsDecide]⟩
  · cases didInit
    · left; simp [wsBytes, abstractFrame, h, ht, wsDecide]
    · cases k
      · left; simp [wsBytes, abstractFrame, h, ht, hp, wsDecide]
      · right; exact ⟨"unable to deserialize payload", by simp [wsBytes, abstractFrame, h, ht, hp, wsDecide]⟩

/-- **ws_bytes_start_reaches_handler** — a decodable start / subscribe frame on an initialised
    connection reaches `HandleStart` with the frame's id and exactly the members json-iterator
    decoded from the payload bytes. -/
theorem ws_bytes_start_reaches_handler (k : WsKind) (frame : Bytes) (msg : Msg) (p : Bytes) (e : Env)
    (hm : decodeMsg frame = some msg) (ht : msg.type = startTypeB k) (hp : msg.payload = some p)
    (he : wsPayloadDecode p = some e) :
    wsBytes k true frame =
      some (.handleStart (latin1 msg.id) (latin1 e.query) e.variables (latin1 e.operationName)) := by
  cases k <;> simp [wsBytes, abstractFrame, hm, ht, hp, payloadOutcome, he, wsDecide]

end ApiFu.C17.Json
