/-
  C14 model driver. One S-expression per line:

    (mul a b) | (add a b)                      → (some n) | panic     -- the generated arithmetic
    (cost OPNAME VARSOK MAX (R M C) (ops OP*) (frags FR*))
                                               → (res VERDICT ACTUAL REF)
      OPNAME  requested operation name ("" = none)        VARSOK  true|false (CoerceVariableValues)
      MAX     the limit (-1 = none)                       (R M C) the rule's defaultCost
      OP      (op NAME node) | (anon node)                FR      (fr NAME node)
      node    (f SRC node*) | (s NAME node*) | (o node*)          -- ast.Inspect order
      SRC     t (__typename) | u (no definition) | a (argument error) | d (no cost function)
              | (c R M C)       R, M: integer | ctx (the context value);  C: keep | integer
              | (conn F L)      defaultConnectionCost; F, L: absent | null | integer (ctx.Arguments["first"|"last"])
              | edges           the connection's `edges` field
              | (connraw (decls D*) (given G*) FS LS)   the same, from the request as written: the model coerces
                                  variables and arguments itself (ArgModel.lean; an error → argument error)
                D  (d NAME true|false none|null|integer)      `$NAME: Int[!] [= default]`
                G  (g NAME null|integer)                      the request's variables (no entry = not given)
                FS, LS  absent | null | integer | (var NAME)  how `first` / `last` are written
      VERDICT accepted | toohigh | (exceeds cost max) | (secondary msg) | (panic what) | oof
      ACTUAL  unset | integer                              REF     none | natural (Spec.refCost)
    (connargs (decls D*) (given G*) FS LS)     → (ok F L) | (error MSG)   -- ConnRequest.args alone
  The cost context type is `Ctx = Int × Int` (application value, max edge count); background = (0, 0).
-/
import ApiFu.Common.Sexp
import ApiFu.Common.Loop
import ApiFu.C14.Model
import ApiFu.C14.Spec
import ApiFu.C14.ArgModel

open ApiFu ApiFu.C14

def parseVal (x : Sexp) : Option (Int → Int) :=
  match x with
  | Sexp.atom "ctx" => some (fun k => k)
  | _ => (x.int?).map (fun n _ => n)

def parseCtx (x : Sexp) : Option (Option Int) :=
  match x with
  | Sexp.atom "keep" => some none
  | _ => (x.int?).map some

def parseArgVal (x : Sexp) : Option ArgVal :=
  match x with
  | Sexp.atom "absent" => some .absent
  | Sexp.atom "null" => some .null
  | _ => (x.int?).map .int

def parseLitOpt (x : Sexp) : Option (Option Lit) :=
  match x with
  | Sexp.atom "none" => some none
  | Sexp.atom "null" => some (some .null)
  | _ => (x.int?).map fun n => some (.int n)

def parseDecl (x : Sexp) : Option VarDecl :=
  match x with
  | Sexp.list [Sexp.atom "d", Sexp.atom name, Sexp.atom nn, d] =>
    (parseLitOpt d).map fun d => { name := name, nonNull := nn == "true", dflt := d }
  | _ => none

def parseGivenEntry (x : Sexp) : Option (String × ArgVal) :=
  match x with
  | Sexp.list [Sexp.atom "g", Sexp.atom name, v] =>
    match v with
    | Sexp.atom "null" => some (name, .null)
    | _ => (v.int?).map fun n => (name, .int n)
  | _ => none

def parseSpelling (x : Sexp) : Option Spelling :=
  match x with
  | Sexp.atom "absent" => some .absent
  | Sexp.atom "null" => some (.lit .null)
  | Sexp.list [Sexp.atom "var", Sexp.atom name] => some (.var name)
  | _ => (x.int?).map fun n => .lit (.int n)

def allSome' {α β : Type} (f : α → Option β) : List α → Option (List β)
  | [] => some []
  | x :: xs =>
    match f x, allSome' f xs with
    | some y, some ys => some (y :: ys)
    | _, _ => none

/-- the request's variables map: the first entry of a name (the harness sends each name once). -/
def givenOf (entries : List (String × ArgVal)) (name : String) : ArgVal :=
  match entries.find? (fun p => p.1 == name) with
  | some p => p.2
  | none => .absent

def parseConnRequest (decls given f l : Sexp) : Option ConnRequest :=
  match decls, given with
  | Sexp.list (Sexp.atom "decls" :: ds), Sexp.list (Sexp.atom "given" :: gs) =>
    match allSome' parseDecl ds, allSome' parseGivenEntry gs, parseSpelling f, parseSpelling l with
    | some ds, some gs, some f, some l => some { decls := ds, given := givenOf gs, first := f, last := l }
    | _, _, _, _ => none
  | _, _ => none

def argValSexp : ArgVal → Sexp
  | .absent => Sexp.atom "absent"
  | .null => Sexp.atom "null"
  | .int n => Sexp.ofInt n

def parseSrc (x : Sexp) : Option (CostSrc Ctx) :=
  match x with
  | Sexp.atom "edges" => some (.fn edgesCost)
  | Sexp.list [Sexp.atom "connraw", decls, given, f, l] =>
    (parseConnRequest decls given f l).map fun r =>
      match r.args with
      | .ok (f, l) => .fn (connectionCost f l)
      | .error _ => .argError
  | Sexp.list [Sexp.atom "conn", f, l] =>
    match parseArgVal f, parseArgVal l with
    | some f, some l => some (.fn (connectionCost f l))
    | _, _ => none
  | Sexp.atom "t" => some .typename
  | Sexp.atom "u" => some .unknown
  | Sexp.atom "a" => some .argError
  | Sexp.atom "d" => some .default
  | Sexp.list [Sexp.atom "c", r, m, c] =>
    match parseVal r, parseVal m, parseCtx c with
    | some r, some m, some c =>
      -- R, M read the application's value; C replaces it and keeps the max edge count
      some (.fn fun k => { resolver := r k.1, multiplier := m k.1, ctx := c.map fun n => (n, k.2) })
    | _, _, _ => none
  | _ => none

mutual
partial def parseNode (x : Sexp) : Option (Node Ctx) :=
  match x with
  | Sexp.list (Sexp.atom "f" :: src :: children) =>
    match parseSrc src, parseNodes children with
    | some s, some cs => some (.field s cs)
    | _, _ => none
  | Sexp.list (Sexp.atom "s" :: Sexp.atom name :: children) => (parseNodes children).map (.spread name)
  | Sexp.list (Sexp.atom "o" :: children) => (parseNodes children).map .other
  | _ => none
partial def parseNodes (xs : List Sexp) : Option (List (Node Ctx)) :=
  match xs with
  | [] => some []
  | x :: rest =>
    match parseNode x, parseNodes rest with
    | some n, some ns => some (n :: ns)
    | _, _ => none
end

def parseOp (x : Sexp) : Option (Op Ctx) :=
  match x with
  | Sexp.list [Sexp.atom "op", Sexp.atom name, n] => (parseNode n).map fun n => { name := some name, node := n }
  | Sexp.list [Sexp.atom "anon", n] => (parseNode n).map fun n => { name := none, node := n }
  | _ => none

def parseFrag (x : Sexp) : Option (String × Node Ctx) :=
  match x with
  | Sexp.list [Sexp.atom "fr", Sexp.atom name, n] => (parseNode n).map fun n => (name, n)
  | _ => none

def allSome {α β : Type} (f : α → Option β) : List α → Option (List β)
  | [] => some []
  | x :: xs =>
    match f x, allSome f xs with
    | some y, some ys => some (y :: ys)
    | _, _ => none

def verdictSexp : Verdict → Sexp
  | .accepted => Sexp.atom "accepted"
  | .tooHigh => Sexp.atom "toohigh"
  | .exceeds c m => Sexp.node "exceeds" [Sexp.ofInt c, Sexp.ofInt m]
  | .secondary m => Sexp.node "secondary" [Sexp.str m]
  | .panicked w => Sexp.node "panic" [Sexp.str w]
  | .outOfFuel => Sexp.atom "oof"

def arith (f : Int → Int → Option Int) (a b : Sexp) : String :=
  match a.int?, b.int? with
  | some a, some b =>
    match f a b with
    | some v => toString (Sexp.node "some" [Sexp.ofInt v])
    | none => "panic"
  | _, _ => "bad-op"

def handle (line : String) : String :=
  match Sexp.parse line with
  | some (Sexp.list [Sexp.atom "mul", a, b]) => arith Generated.checkedNonNegativeMultiply a b
  | some (Sexp.list [Sexp.atom "add", a, b]) => arith Generated.checkedNonNegativeAdd a b
  | some (Sexp.list [Sexp.atom "connargs", decls, given, f, l]) =>
    match parseConnRequest decls given f l with
    | some r =>
      match r.args with
      | .ok (f, l) => toString (Sexp.node "ok" [argValSexp f, argValSexp l])
      | .error e => toString (Sexp.node "error" [Sexp.str e])
    | none => "bad-op"
  | some (Sexp.list [Sexp.atom "cost", Sexp.atom opName, Sexp.atom varsOk, max, Sexp.list [dr, dm, dc],
      Sexp.list (Sexp.atom "ops" :: ops), Sexp.list (Sexp.atom "frags" :: frags)]) =>
    match max.int?, dr.int?, dm.int?, parseCtx dc, allSome parseOp ops, allSome parseFrag frags with
    | some max, some dr, some dm, some dc, some ops, some frags =>
      -- a default cost's Context is a fixed context of its own: it carries no max edge count
      let dflt : FieldCost Ctx := { resolver := dr, multiplier := dm, ctx := dc.map fun n => (n, 0) }
      let doc : Doc Ctx := { ops := ops, frags := frags }
      let r := validateCost ((0, 0) : Ctx) opName (varsOk == "true") max dflt doc
      let ref := Spec.refCost ((0, 0) : Ctx) opName dflt doc
      toString (Sexp.node "res" [verdictSexp r.verdict,
        (match r.actual with | some a => Sexp.ofInt a | none => Sexp.atom "unset"),
        (match ref with | some n => Sexp.ofNat n | none => Sexp.atom "none")])
    | _, _, _, _, _, _ => "bad-op"
  | _ => "bad-op"

def main : IO Unit := lineLoopPure handle
