/-
  C14 model driver. One S-expression per line:

    (mul a b) | (add a b)                      → (some n) | panic     -- the generated arithmetic
    (cost OPNAME VARSOK MAX (R M C) (ops OP*) (frags FR*))
                                               → (res VERDICT ACTUAL REF)
      OPNAME  requested operation name ("" = none)        VARSOK  true|false (CoerceVariableValues)
      MAX     the limit (-1 = none)                       (R M C) the rule's defaultCost
      OP      (op NAME node) | (anon node)                FR      (fr NAME node)
      node    (f SRC node*) | (s NAME node*) | (o node*)          -- ast.Inspect order
      SRC     t (__typename) | u (no definition) | a (argument error) | d (no cost function)
              | (c R M C)       R, M: integer | ctx (the context value);  C: keep | integer
              | (conn F L)      defaultConnectionCost; F, L: absent | null | integer (ctx.Arguments["first"|"last"])
              | edges           the connection's `edges` field
      VERDICT accepted | toohigh | (exceeds cost max) | (secondary msg) | (panic what) | oof
      ACTUAL  unset | integer                              REF     none | natural (Spec.refCost)
  The cost context type is `Ctx = Int × Int` (application value, max edge count); background = (0, 0).
-/
import ApiFu.Common.Sexp
import ApiFu.Common.Loop
import ApiFu.C14.Model
import ApiFu.C14.Spec

open ApiFu ApiFu.C14

def parseVal (x : Sexp) : Option (Int → Int) :=
  match x with
  | Sexp.atom "ctx" => some (fun k => k)
  | _ => (x.int?).map (fun n _ => n)

def parseCtx (x : Sexp) : Option (Option Int) :=
  match x with
  | Sexp.atom "keep" => some none
  | _ => (x.int?).map some

def parseArgVal (x : Sexp) : Option ArgVal :=
  match x with
  | Sexp.atom "absent" => some .absent
  | Sexp.atom "null" => some .null
  | _ => (x.int?).map .int

def parseSrc (x : Sexp) : Option (CostSrc Ctx) :=
  match x with
  | Sexp.atom "edges" => some (.fn edgesCost)
  | Sexp.list [Sexp.atom "conn", f, l] =>
    match parseArgVal f, parseArgVal l with
    | some f, some l => some (.fn (connectionCost f l))
    | _, _ => none
  | Sexp.atom "t" => some .typename
  | Sexp.atom "u" => some .unknown
  | Sexp.atom "a" => some .argError
  | Sexp.atom "d" => some .default
  | Sexp.list [Sexp.atom "c", r, m, c] =>
    match parseVal r, parseVal m, parseCtx c with
    | some r, some m, some c =>
      -- R, M read the application's value; C replaces it and keeps the max edge count
      some (.fn fun k => { resolver := r k.1, multiplier := m k.1, ctx := c.map fun n => (n, k.2) })
    | _, _, _ => none
  | _ => none

mutual
partial def parseNode (x : Sexp) : Option (Node Ctx) :=
  match x with
  | Sexp.list (Sexp.atom "f" :: src :: children) =>
    match parseSrc src, parseNodes children with
    | some s, some cs => some (.field s cs)
    | _, _ => none
  | Sexp.list (Sexp.atom "s" :: Sexp.atom name :: children) => (parseNodes children).map (.spread name)
  | Sexp.list (Sexp.atom "o" :: children) => (parseNodes children).map .other
  | _ => none
partial def parseNodes (xs : List Sexp) : Option (List (Node Ctx)) :=
  match xs with
  | [] => some []
  | x :: rest =>
    match parseNode x, parseNodes rest with
    | some n, some ns => some (n :: ns)
    | _, _ => none
end

def parseOp (x : Sexp) : Option (Op Ctx) :=
  match x with
  | Sexp.list [Sexp.atom "op", Sexp.atom name, n] => (parseNode n).map fun n => { name := some name, node := n }
  | Sexp.list [Sexp.atom "anon", n] => (parseNode n).map fun n => { name := none, node := n }
  | _ => none

def parseFrag (x : Sexp) : Option (String × Node Ctx) :=
  match x with
  | Sexp.list [Sexp.atom "fr", Sexp.atom name, n] => (parseNode n).map fun n => (name, n)
  | _ => none

def allSome {α β : Type} (f : α → Option β) : List α → Option (List β)
  | [] => some []
  | x :: xs =>
    match f x, allSome f xs with
    | some y, some ys => some (y :: ys)
    | _, _ => none

def verdictSexp : Verdict → Sexp
  | .accepted => Sexp.atom "accepted"
  | .tooHigh => Sexp.atom "toohigh"
  | .exceeds c m => Sexp.node "exceeds" [Sexp.ofInt c, Sexp.ofInt m]
  | .secondary m => Sexp.node "secondary" [Sexp.str m]
  | .panicked w => Sexp.node "panic" [Sexp.str w]
  | .outOfFuel => Sexp.atom "oof"

def arith (f : Int → Int → Option Int) (a b : Sexp) : String :=
  match a.int?, b.int? with
  | some a, some b =>
    match f a b with
    | some v => toString (Sexp.node "some" [Sexp.ofInt v])
    | none => "panic"
  | _, _ => "bad-op"

def handle (line : String) : String :=
  match Sexp.parse line with
  | some (Sexp.list [Sexp.atom "mul", a, b]) => arith Generated.checkedNonNegativeMultiply a b
  | some (Sexp.list [Sexp.atom "add", a, b]) => arith Generated.checkedNonNegativeAdd a b
  | some (Sexp.list [Sexp.atom "cost", Sexp.atom opName, Sexp.atom varsOk, max, Sexp.list [dr, dm, dc],
      Sexp.list (Sexp.atom "ops" :: ops), Sexp.list (Sexp.atom "frags" :: frags)]) =>
    match max.int?, dr.int?, dm.int?, parseCtx dc, allSome parseOp ops, allSome parseFrag frags with
    | some max, some dr, some dm, some dc, some ops, some frags =>
      -- a default cost's Context is a fixed context of its own: it carries no max edge count
      let dflt : FieldCost Ctx := { resolver := dr, multiplier := dm, ctx := dc.map fun n => (n, 0) }
      let doc : Doc Ctx := { ops := ops, frags := frags }
      let r := validateCost ((0, 0) : Ctx) opName (varsOk == "true") max dflt doc
      let ref := Spec.refCost ((0, 0) : Ctx) opName dflt doc
      toString (Sexp.node "res" [verdictSexp r.verdict,
        (match r.actual with | some a => Sexp.ofInt a | none => Sexp.atom "unset"),
        (match ref with | some n => Sexp.ofNat n | none => Sexp.atom "none")])
    | _, _, _, _, _, _ => "bad-op"
  | _ => "bad-op"

def main : IO Unit := lineLoopPure handle
