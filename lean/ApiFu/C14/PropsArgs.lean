/-
  C14 — the argument-resolution parameter of the model, instantiated for the `first` / `last` arguments of
  connections: from the request as written (variable definitions with defaults, the request's
  variables, the spelling of each argument) through the transliterated `CoerceVariableValues` /
  `CoerceArgumentValues` (ArgModel.lean) to what the cost function and the resolver receive, and on to
  the charged multiplier. `denotes` / `varInt` are the independent reading (GraphQL specification).
  The driver evaluates `ConnRequest.args` on the raw spelling the harness sends (`connraw`), so the
  transliteration is compared with the real coercion on every served and every costed connection.
-/
import ApiFu.C14.ArgModel
import ApiFu.C14.PropsGen

set_option linter.unusedSimpArgs false

namespace ApiFu.C14

/-! ## Independent reading of a spelling (GraphQL spec, "Coercing Variable Values" / "Coercing Field Arguments") -/

/-- The declaration of a variable name (validated documents declare each name once). -/
def declOf (decls : List VarDecl) (v : String) : Option VarDecl := decls.find? (fun d => d.name = v)

/-- The integer value of a variable for the request, if it has one: the request's value when one is
    provided (an explicit null is null: **no** default), the declared default when the variable is left
    out, nothing when there is neither. -/
def varInt (d : VarDecl) (g : ArgVal) : Option Int :=
  match g with
  | .int n => some n
  | .null => none
  | .absent =>
    match d.dflt with
    | some (.int n) => some n
    | _ => none

/-- The integer an argument spelling denotes for the request, if any — written from the specification:
    a literal integer is itself; `null` and an omitted argument are no integer; a variable is the
    request's value when one is provided (an explicit null is null: **no** default), the declared
    default when the variable is left out, and nothing when there is neither. -/
def denotes (decls : List VarDecl) (given : String → ArgVal) : Spelling → Option Int
  | .absent => none
  | .lit .null => none
  | .lit (.int n) => some n
  | .var v =>
    match declOf decls v with
    | none => none
    | some d => varInt d (given v)

theorem lookupVar_notin (m : List (String × ArgVal)) (v : String) (h : v ∉ m.map (·.1)) :
    lookupVar m v = .absent := by
  induction m with
  | nil => rfl
  | cons p rest ih =>
    obtain ⟨n, a⟩ := p
    simp only [List.map_cons, List.mem_cons, not_or] at h
    simp only [lookupVar, ih h.2]
    have : ¬ n = v := fun e => h.1 e.symm
    simp [this]

theorem coerceVariables_names (given : String → ArgVal) :
    ∀ (decls : List VarDecl) (m : List (String × ArgVal)), coerceVariables given decls = .ok m →
      m.map (·.1) = decls.map (·.name)
  | [], m, h => by simp only [coerceVariables, Except.ok.injEq] at h; subst h; rfl
  | d :: ds, m, h => by
    simp only [coerceVariables] at h
    cases hv : coerceVariable d (given d.name) with
    | error e => rw [hv] at h; cases h
    | ok v =>
      rw [hv] at h
      cases hr : coerceVariables given ds with
      | error e => rw [hr] at h; cases h
      | ok rest =>
        rw [hr] at h
        simp only [Except.ok.injEq] at h
        subst h
        simp [coerceVariables_names given ds rest hr]

/-- With every name declared once, the coerced map holds for a declared variable exactly what
    `coerceVariable` computed for its declaration. -/
theorem lookupVar_coerceVariables (given : String → ArgVal) :
    ∀ (decls : List VarDecl) (m : List (String × ArgVal)), (decls.map (·.name)).Nodup →
      coerceVariables given decls = .ok m →
      ∀ v, lookupVar m v = match declOf decls v with
                           | none => .absent
                           | some d => match coerceVariable d (given v) with
                                       | .ok a => a
                                       | .error _ => .absent
  | [], m, _, h, v => by
    simp only [coerceVariables, Except.ok.injEq] at h; subst h; rfl
  | d :: ds, m, hn, h, v => by
    simp only [coerceVariables] at h
    cases hv : coerceVariable d (given d.name) with
    | error e => rw [hv] at h; cases h
    | ok a =>
      rw [hv] at h
      cases hr : coerceVariables given ds with
      | error e => rw [hr] at h; cases h
      | ok rest =>
        rw [hr] at h
        simp only [Except.ok.injEq] at h
        subst h
        simp only [List.map_cons, List.nodup_cons] at hn
        have ih := lookupVar_coerceVariables given ds rest hn.2 hr v
        by_cases hd : d.name = v
        · subst hd
          have hnot : d.name ∉ rest.map (·.1) := by
            rw [coerceVariables_names given ds rest hr]; exact hn.1
          simp [lookupVar, lookupVar_notin rest d.name hnot, declOf, List.find?, hv]
        · simp only [lookupVar, ih, declOf, List.find?, hd, decide_false]
          cases hf : List.find? (fun d => decide (d.name = v)) ds with
          | none => simp [hd]
          | some d' =>
            simp only
            cases coerceVariable d' (given v) with
            | error e => simp [hd]
            | ok a' => cases a' <;> simp [hd]

/-- A declared variable whose whole map coerced was itself coerced without error. -/
theorem coerceVariable_ok_of_mem (given : String → ArgVal) :
    ∀ (decls : List VarDecl) (m : List (String × ArgVal)), coerceVariables given decls = .ok m →
      ∀ d ∈ decls, ∃ a, coerceVariable d (given d.name) = .ok a
  | [], _, _, d, hd => by cases hd
  | d0 :: ds, m, h, d, hd => by
    simp only [coerceVariables] at h
    cases hv : coerceVariable d0 (given d0.name) with
    | error e => rw [hv] at h; cases h
    | ok a =>
      rw [hv] at h
      cases hr : coerceVariables given ds with
      | error e => rw [hr] at h; cases h
      | ok rest =>
        rcases List.mem_cons.mp hd with e | hmem
        · subst e; exact ⟨a, hv⟩
        · exact coerceVariable_ok_of_mem given ds rest hr d hmem

/-- The integer in a variable's coerced entry, read off the request. -/
theorem coerceVariable_asInt (d : VarDecl) (g a : ArgVal) (h : coerceVariable d g = .ok a) :
    a.asInt = varInt d g := by
  obtain ⟨name, nn, dflt⟩ := d
  cases g with
  | int n =>
    simp only [coerceVariable] at h
    split at h
    · simp only [Except.ok.injEq] at h; subst h; rfl
    · cases h
  | null =>
    simp only [coerceVariable] at h
    split at h
    · cases h
    · simp only [Except.ok.injEq] at h; subst h; rfl
  | absent =>
    cases dflt with
    | none =>
      simp only [coerceVariable] at h
      split at h
      · cases h
      · simp only [Except.ok.injEq] at h; subst h; rfl
    | some l =>
      cases l with
      | null =>
        simp only [coerceVariable, coerceLit] at h
        cases nn <;> simp at h
        subst h; rfl
      | int n =>
        simp only [coerceVariable, coerceLit] at h
        by_cases hr : inInt32 n = true
        · simp [hr] at h; subst h; rfl
        · simp [hr] at h

/-- A nullable argument without default written as a variable receives the variable's entry as it is
    (no entry → no key). -/
theorem coerceArgument_var (vars : String → ArgVal) (v : String) :
    coerceArgument false none vars (.var v) = .ok (vars v) := by
  cases h : vars v <;> simp [coerceArgument, h]

theorem coerceArgument_asInt (decls : List VarDecl) (given : String → ArgVal)
    (m : List (String × ArgVal)) (hn : (decls.map (·.name)).Nodup)
    (hm : coerceVariables given decls = .ok m) (sp : Spelling) (a : ArgVal)
    (h : coerceArgument false none (lookupVar m) sp = .ok a) : a.asInt = denotes decls given sp := by
  cases sp with
  | absent =>
    simp [coerceArgument] at h; subst h; rfl
  | lit l =>
    cases l with
    | null => simp [coerceArgument, coerceLit] at h; subst h; rfl
    | int n =>
      by_cases hr : inInt32 n = true
      · simp [coerceArgument, coerceLit, hr] at h; subst h; rfl
      · simp [coerceArgument, coerceLit, hr] at h
  | var v =>
    rw [coerceArgument_var] at h
    simp only [Except.ok.injEq] at h
    subst h
    have hl := lookupVar_coerceVariables given decls m hn hm v
    simp only [denotes]
    cases hd : declOf decls v with
    | none => rw [hd] at hl; simp only at hl; rw [hl]; rfl
    | some d =>
      rw [hd] at hl
      simp only at hl
      have hname : d.name = v := by
        have := List.find?_some hd
        simpa using this
      obtain ⟨a', ha'⟩ := coerceVariable_ok_of_mem given decls m hm d (List.mem_of_find?_eq_some hd)
      rw [hname] at ha'
      rw [ha'] at hl
      simp only at hl
      rw [hl]
      exact coerceVariable_asInt d (given v) a' ha'

/-! ## The instantiated statements -/

/-- The max edge count a request denotes for one connection selection: an integer `last` decides, else an
    integer `first`, else 0 (independent reading). -/
def ConnRequest.count (r : ConnRequest) : Int :=
  (denotes r.decls r.given r.last).getD ((denotes r.decls r.given r.first).getD 0)

/-- The number of edges the connection may return for the request, or `none` when it must answer with an
    error (negative count, both or neither given as integers) — independent reading of pagination. -/
def ConnRequest.limit (r : ConnRequest) : Option Int :=
  match denotes r.decls r.given r.first, denotes r.decls r.given r.last with
  | some f, none => if f < 0 then none else some f
  | none, some l => if l < 0 then none else some l
  | some f, some _ => if f < 0 then none else none
  | none, none => none

/-- **explicit_null_is_not_defaulted** — `CoerceVariableValues` keeps an explicit `null` for a nullable
    variable whatever default the definition declares (and rejects it for a non-null one): the default
    is for a variable that is *left out*. -/
theorem explicit_null_is_not_defaulted (d : VarDecl) :
    coerceVariable d .null =
      if d.nonNull then .error "Invalid value: a value is required" else .ok .null := by
  cases h : d.dflt <;> simp [coerceVariable, h]

/-- **omitted_variable_takes_default** — a variable that is left out takes its (32-bit) integer default;
    without a default a nullable variable gets no entry at all. -/
theorem omitted_variable_takes_default (d : VarDecl) :
    (∀ n, d.dflt = some (.int n) → inInt32 n = true → coerceVariable d .absent = .ok (.int n)) ∧
    (d.dflt = none → d.nonNull = false → coerceVariable d .absent = .ok .absent) := by
  constructor
  · intro n h hr; simp [coerceVariable, h, coerceLit, hr]
  · intro h hn; simp [coerceVariable, h, hn]

/-- **valueless_variable_is_omitted_argument** — an argument (nullable, no default) written as a variable
    receives the variable's entry unchanged: an integer, a nil, or — for a variable without entry — no
    key, exactly as if the argument had been omitted. -/
theorem valueless_variable_is_omitted_argument (vars : String → ArgVal) (v : String) :
    coerceArgument false none vars (.var v) = .ok (vars v) ∧
    (vars v = .absent → coerceArgument false none vars (.var v) = coerceArgument false none vars .absent) := by
  refine ⟨coerceArgument_var vars v, fun h => ?_⟩
  rw [coerceArgument_var, h]; rfl

/-- **conn_request_args_denote** — for every request whose variable names are declared once and whose
    coercion succeeds, what `Arguments["first"]` / `Arguments["last"]` hold are integers exactly when
    the spellings denote integers (independent reading), and `defaultConnectionCost`'s max edge count is
    the request's count: an integer `last`, else an integer `first`, else 0 — for literals, null,
    omitted arguments, variables with a value, with an explicit null (default or not), left out with a
    default, and left out without one. -/
theorem conn_request_args_denote (r : ConnRequest) (hn : (r.decls.map (·.name)).Nodup) (F L : ArgVal)
    (h : r.args = .ok (F, L)) :
    F.asInt = denotes r.decls r.given r.first ∧ L.asInt = denotes r.decls r.given r.last ∧
    connMaxCount F L = r.count := by
  unfold ConnRequest.args at h
  cases hm : coerceVariables r.given r.decls with
  | error e => rw [hm] at h; cases h
  | ok m =>
    rw [hm] at h
    simp only at h
    cases hf : coerceArgument false none (lookupVar m) r.first with
    | error e => rw [hf] at h; cases h
    | ok f =>
      cases hl : coerceArgument false none (lookupVar m) r.last with
      | error e => rw [hf, hl] at h; cases h
      | ok l =>
        rw [hf, hl] at h
        simp only [Except.ok.injEq, Prod.mk.injEq] at h
        obtain ⟨e1, e2⟩ := h
        subst e1; subst e2
        have h1 := coerceArgument_asInt r.decls r.given m hn hm r.first f hf
        have h2 := coerceArgument_asInt r.decls r.given m hn hm r.last l hl
        refine ⟨h1, h2, ?_⟩
        unfold connMaxCount ConnRequest.count
        rw [h1, h2]
        cases denotes r.decls r.given r.last <;> cases denotes r.decls r.given r.first <;> rfl

/-- **conn_request_charged** — `cost_eq`-level instance for a connection written in a request:
    `conn(first: …, last: …) { edges { sels } }` costs `M` plus the cost of `sels` under the multiplier
    `M × effMul count`, `count` being read off the request by the independent `denotes`. -/
theorem conn_request_charged (E : String → Nat → Ctx → Option Nat) (dflt : FieldCost Ctx) (M : Nat) (c : Ctx)
    (r : ConnRequest) (hn : (r.decls.map (·.name)).Nodup) (F L : ArgVal) (h : r.args = .ok (F, L))
    (sels : List (Node Ctx)) :
    Spec.refNode E dflt M c
      (.field (.fn (connectionCost F L)) [.other [.field (.fn edgesCost) [.other sels]]]) =
    (Spec.refList E dflt (M * Spec.effMul r.count) (c.1, r.count) sels).map (fun below => M + below) := by
  rw [connection_charges_max_count, (conn_request_args_denote r hn F L h).2.2]

/-- **conn_request_resolver_limit** — the resolver, which receives the same coerced arguments, may return
    exactly the request's limit (independent reading), and whenever it returns edges at all the limit is
    the count that was charged. -/
theorem conn_request_resolver_limit (r : ConnRequest) (hn : (r.decls.map (·.name)).Nodup) (F L : ArgVal)
    (h : r.args = .ok (F, L)) :
    resolverEdgeLimit F L = r.limit ∧ ∀ n, r.limit = some n → n = r.count ∧ 0 ≤ n := by
  obtain ⟨h1, h2, h3⟩ := conn_request_args_denote r hn F L h
  have hlim : resolverEdgeLimit F L = r.limit := by
    unfold resolverEdgeLimit ConnRequest.limit
    rw [h1, h2]
    cases denotes r.decls r.given r.first <;> cases denotes r.decls r.given r.last <;> simp
  refine ⟨hlim, fun n hn' => ?_⟩
  rw [← hlim] at hn'
  rw [← h3]
  exact resolver_limit_eq_charged F L n hn'

/-- **conn_request_edges_le_multiplier** — `edges_le_multiplier` for a request: the edges a connection
    resolves never exceed the multiplier charged for them, the multiplier being `effMul` of the count the
    request denotes. Hypothesis: the connection's guarantee (C09), in terms of the request's limit. -/
theorem conn_request_edges_le_multiplier (r : ConnRequest) (hn : (r.decls.map (·.name)).Nodup) (F L : ArgVal)
    (h : r.args = .ok (F, L)) (edges : Nat)
    (hC09 : match r.limit with
            | none => edges = 0
            | some n => (edges : Int) ≤ n) :
    edges ≤ Spec.effMul r.count := by
  obtain ⟨hlim, _⟩ := conn_request_resolver_limit r hn F L h
  rw [← (conn_request_args_denote r hn F L h).2.2]
  apply edges_le_multiplier F L edges
  rw [hlim]; exact hC09

/-! ## Non-vacuity: concrete requests, evaluated by the kernel -/

deriving instance DecidableEq for Except

/-- `query($n: Int = 7) { conn(first: $n) { edges { node } } }` -/
def reqDefault (given : ArgVal) : ConnRequest :=
  { decls := [{ name := "n", nonNull := false, dflt := some (.int 7) }],
    given := fun v => if v = "n" then given else .absent, first := .var "n", last := .absent }

/-- The document of a connection request over the default costs (`node` costs the default 1). -/
def connDoc (a : ArgVal × ArgVal) : Doc Ctx :=
  { ops := [{ name := none, node := .other [.other [
      .field (.fn (connectionCost a.1 a.2)) [.other [.field (.fn edgesCost) [.other [.field .default []]]]]]] }]
    frags := [] }

-- the variable left out: the default 7 is charged (1 + 7); explicit null: nothing to multiply (1 + 1);
-- a value: that value
example : (reqDefault .absent).args = .ok (.int 7, .absent) := by decide
example : (reqDefault .null).args = .ok (.null, .absent) := by decide
example : (reqDefault (.int 3)).args = .ok (.int 3, .absent) := by decide
example : (reqDefault .absent).count = 7 ∧ (reqDefault .null).count = 0 ∧ (reqDefault (.int 3)).count = 3 := by decide
example : (reqDefault .null).limit = none ∧ (reqDefault .absent).limit = some 7 := by decide
example : gvalidateCost ((0, 0) : Ctx) "" true (-1) { ctx := none, resolver := 1, multiplier := 0 }
    (connDoc (.int 7, .absent)) = { verdict := .accepted, actual := some 8 } := by decide +kernel
example : gvalidateCost ((0, 0) : Ctx) "" true (-1) { ctx := none, resolver := 1, multiplier := 0 }
    (connDoc (.null, .absent)) = { verdict := .accepted, actual := some 2 } := by decide +kernel
-- `conn(first: 20, last: $l)` with `$l: Int = 5` and an explicit null for it: 20 edges, 20 charged
example : ({ decls := [{ name := "l", nonNull := false, dflt := some (.int 5) }],
             given := fun v => if v = "l" then .null else .absent,
             first := .lit (.int 20), last := .var "l" } : ConnRequest).args = .ok (.int 20, .null) := by decide
-- a non-null variable given null, and a 33-bit value, do not coerce
example : coerceVariable { name := "n", nonNull := true, dflt := some (.int 7) } .null =
    .error "Invalid value: a value is required" := by decide
example : coerceVariable { name := "n", nonNull := false, dflt := none } (.int 2147483648) = .error "Invalid value" := by
  decide

end ApiFu.C14
