/-
  C14 — lemmas relating the model's walk (stacks, -1 marker, error plumbing) to the reference
  semantics (Spec.lean). Core Lean only.
-/
import ApiFu.C14.Arith
import ApiFu.C14.Model
import ApiFu.C14.Spec

namespace ApiFu.C14
open Generated

/-- Saturation: how the implementation represents an exact natural-number cost or multiplier
    product in a Go `int`: itself when it fits, else the sticky overflow marker `-1`. -/
def rep (x : Nat) : Int := if (x : Int) ≤ 9223372036854775807 then (x : Int) else -1

theorem rep_inInt (x : Nat) : InInt (rep x) := by
  unfold rep InInt; split <;> omega

theorem rep_of_le {x : Nat} (h : (x : Int) ≤ 9223372036854775807) : rep x = x := by
  unfold rep; simp [h]

theorem rep_toNat {r : Int} (h0 : 0 ≤ r) (h1 : r ≤ 9223372036854775807) : rep r.toNat = r := by
  unfold rep
  have : ((r.toNat : Nat) : Int) = r := Int.toNat_of_nonneg h0
  rw [this]; simp [h1]

/-- **The −1-sticky multiplication is the image of ℕ multiplication under saturation.** -/
theorem mulSpec_rep (x y : Nat) : mulSpec (rep x) (rep y) = rep (x * y) := by
  unfold mulSpec rep
  have hxy : ((x * y : Nat) : Int) = (x : Int) * (y : Int) := Int.natCast_mul x y
  have hx0 : (0 : Int) ≤ x := Int.natCast_nonneg x
  have hy0 : (0 : Int) ≤ y := Int.natCast_nonneg y
  rw [hxy]
  by_cases hx : (x : Int) ≤ 9223372036854775807 <;> by_cases hy : (y : Int) ≤ 9223372036854775807
  · simp only [hx, hy, if_true]
    by_cases h0 : (x : Int) = 0 ∨ (y : Int) = 0
    · rcases h0 with h | h <;> simp [h]
    · have hneg : ¬ ((x : Int) < 0 ∨ (y : Int) < 0) := by omega
      simp only [h0, hneg, if_false]
  · -- y overflowed
    simp only [hx, hy, if_true, if_false]
    by_cases hx0' : (x : Int) = 0
    · simp [hx0']
    · have h1 : (1 : Int) ≤ x := by omega
      have : (y : Int) ≤ (x : Int) * (y : Int) := by
        have := Int.mul_le_mul_of_nonneg_right h1 hy0
        omega
      have hbig : ¬ ((x : Int) * (y : Int) ≤ 9223372036854775807) := by omega
      have hc : ¬ ((x : Int) = 0 ∨ (-1 : Int) = 0) := by omega
      simp only [hc, hbig, if_false]
      simp
  · simp only [hx, hy, if_true, if_false]
    by_cases hy0' : (y : Int) = 0
    · simp [hy0']
    · have h1 : (1 : Int) ≤ y := by omega
      have : (x : Int) ≤ (x : Int) * (y : Int) := by
        have := Int.mul_le_mul_of_nonneg_left h1 hx0
        omega
      have hbig : ¬ ((x : Int) * (y : Int) ≤ 9223372036854775807) := by omega
      have hc : ¬ ((-1 : Int) = 0 ∨ (y : Int) = 0) := by omega
      simp only [hc, hbig, if_false]
      simp
  · simp only [hx, hy, if_false]
    have h1 : (1 : Int) ≤ y := by omega
    have : (x : Int) ≤ (x : Int) * (y : Int) := by
      have := Int.mul_le_mul_of_nonneg_left h1 hx0
      omega
    have hbig : ¬ ((x : Int) * (y : Int) ≤ 9223372036854775807) := by omega
    simp [hbig]

/-- **The −1-sticky addition is the image of ℕ addition under saturation.** -/
theorem addSpec_rep (x y : Nat) : addSpec (rep x) (rep y) = rep (x + y) := by
  unfold addSpec rep
  have hxy : ((x + y : Nat) : Int) = (x : Int) + (y : Int) := Int.natCast_add x y
  have hx0 : (0 : Int) ≤ x := Int.natCast_nonneg x
  have hy0 : (0 : Int) ≤ y := Int.natCast_nonneg y
  rw [hxy]
  repeat' split
  all_goals omega

theorem mul_rep (x y : Nat) : mul (rep x) (rep y) = .ok (rep (x * y)) := by
  unfold mul
  rw [mul_eq_spec (rep_inInt x) (rep_inInt y), mulSpec_rep]; rfl

theorem add_rep (x y : Nat) : add (rep x) (rep y) = .ok (rep (x + y)) := by
  unfold add
  rw [add_eq_spec (rep_inInt x) (rep_inInt y), addSpec_rep]; rfl

/-! ### The domain of the property: cost functions return Go ints, resolver costs are ≥ 0 -/

/-- A `FieldCost` as the property quantifies over it: resolver cost in `[0, maxInt]`, multiplier any
    Go `int` (values ≤ 1, including negative ones, mean "not set"). -/
def FieldCost.OK {κ : Type} (fc : FieldCost κ) : Prop :=
  0 ≤ fc.resolver ∧ fc.resolver ≤ 9223372036854775807 ∧ InInt fc.multiplier

def CostSrc.OK {κ : Type} : CostSrc κ → Prop
  | .fn f => ∀ k, (f k).OK
  | _ => True

mutual
def Node.OK {κ : Type} : Node κ → Prop
  | .field src children => src.OK ∧ NodesOK children
  | .spread _ children => NodesOK children
  | .other children => NodesOK children
def NodesOK {κ : Type} : List (Node κ) → Prop
  | [] => True
  | n :: ns => n.OK ∧ NodesOK ns
end

/-- An error that is not a Go panic. -/
def Abort.NotPanic (e : Abort) : Prop := ∀ w, e ≠ .panic w

/-- The outcome of a piece of the walk started with accumulated cost `rep C`, multiplier stack
    `rep M :: ms` and context stack `c :: cs`, as predicted by the reference value `r`:
    `some n` — it succeeds, the cost becomes `rep (C + n)` and both stacks are exactly restored;
    `none` — it stops with an error that is not a panic. -/
def Tracks {κ : Type} (res : Except Abort (St κ)) (r : Option Nat) (C M : Nat) (ms : List Int) (c : κ)
    (cs : List κ) : Prop :=
  match r with
  | some n => res = .ok { cost := rep (C + n), mults := rep M :: ms, ctxs := c :: cs }
  | none => ∃ e, res = .error e ∧ e.NotPanic

/-- The walker's and the specification's treatment of fragment spreads agree. -/
def Agree {κ : Type} (W : String → St κ → Except Abort (St κ)) (E : String → Nat → κ → Option Nat) : Prop :=
  ∀ name C M ms c cs,
    Tracks (W name { cost := rep C, mults := rep M :: ms, ctxs := c :: cs }) (E name M c) C M ms c cs

theorem effMul_rep {m : Int} (M : Nat) (hm : InInt m) (h : m > 1) :
    mul (rep M) m = .ok (rep (M * Spec.effMul m)) := by
  have h1 : rep m.toNat = m := rep_toNat (by omega) hm.2
  have := mul_rep M m.toNat
  rw [h1] at this
  rw [this]; unfold Spec.effMul; simp [h]

/-- Lines 100-114 against the specification: the field is charged `M × resolver` and its
    sub-selections inherit `M × effMul multiplier` and the (possibly replaced) context. -/
theorem charge_rep {κ : Type} (fc : FieldCost κ) (hfc : fc.OK) (C M : Nat) (ms : List Int) (c : κ)
    (cs : List κ) :
    charge fc { cost := rep C, mults := ms, ctxs := cs } (rep M) c =
      .ok ({ cost := rep (C + M * fc.resolver.toNat), mults := ms, ctxs := cs },
           rep (M * Spec.effMul fc.multiplier), fc.ctx.getD c) := by
  obtain ⟨h0, h1, hm⟩ := hfc
  obtain ⟨ctx, r, m⟩ := fc
  simp only at h0 h1 hm
  unfold charge
  have hr : rep r.toNat = r := rep_toNat h0 h1
  have e1 : mul (rep M) r = .ok (rep (M * r.toNat)) := by
    have := mul_rep M r.toNat; rwa [hr] at this
  by_cases hgt : m > 1
  · cases ctx <;>
      simp only [e1, add_rep, bind, Except.bind, hgt, if_true, effMul_rep M hm hgt, Option.getD]
  · have : Spec.effMul m = 1 := by unfold Spec.effMul; simp [hgt]
    cases ctx <;>
      simp only [e1, add_rep, bind, Except.bind, hgt, if_false, this, Nat.mul_one, Option.getD]

theorem pop_push {κ : Type} (st : St κ) (m : Int) (c : κ) : pop (push st m c) = .ok st := by
  cases st; rfl

theorem tracks_pop {κ : Type} {res : Except Abort (St κ)} {r : Option Nat} {C M' M : Nat} {ms : List Int}
    {c' c : κ} {cs : List κ} (h : Tracks res r C M' (rep M :: ms) c' (c :: cs)) :
    Tracks (res >>= pop) r C M ms c cs := by
  unfold Tracks at *
  cases r with
  | some n => simp only at h ⊢; rw [h]; rfl
  | none =>
    obtain ⟨e, he, hp⟩ := h
    exact ⟨e, by rw [he]; rfl, hp⟩

theorem tracks_map {κ : Type} {res : Except Abort (St κ)} {r : Option Nat} {C k M : Nat} {ms : List Int}
    {c : κ} {cs : List κ} (h : Tracks res r (C + k) M ms c cs) :
    Tracks res (r.map fun below => k + below) C M ms c cs := by
  unfold Tracks at *
  cases r with
  | some n => simp only [Option.map] at h ⊢; rw [h, Nat.add_assoc]
  | none => exact h

mutual
/-- One node: the walk tracks the reference value (for every walker/specification pair that agree
    on fragment spreads). -/
theorem visit_tracks {κ : Type} (W : String → St κ → Except Abort (St κ))
    (E : String → Nat → κ → Option Nat) (hA : Agree W E) (dflt : FieldCost κ) (hd : dflt.OK) :
    ∀ (node : Node κ), node.OK → ∀ (C M : Nat) (ms : List Int) (c : κ) (cs : List κ),
      Tracks (visit W dflt node { cost := rep C, mults := rep M :: ms, ctxs := c :: cs })
        (Spec.refNode E dflt M c node) C M ms c cs
  | .field src children, hok, C, M, ms, c, cs => by
    rw [Node.OK] at hok
    obtain ⟨hsrc, hch⟩ := hok
    cases src with
    | typename =>
      simp only [visit, Spec.refNode, bind, Except.bind]
      exact tracks_pop (visitList_tracks W E hA dflt hd children hch C M (rep M :: ms) c (c :: cs))
    | unknown =>
      simp only [visit, Spec.refNode, bind, Except.bind]
      exact ⟨_, rfl, fun w h => by cases h⟩
    | argError =>
      simp only [visit, Spec.refNode, bind, Except.bind]
      exact ⟨_, rfl, fun w h => by cases h⟩
    | default =>
      simp only [visit, Spec.refNode, bind, Except.bind, charge_rep dflt hd]
      exact tracks_map (tracks_pop
        (visitList_tracks W E hA dflt hd children hch (C + M * dflt.resolver.toNat)
          (M * Spec.effMul dflt.multiplier) (rep M :: ms) (dflt.ctx.getD c) (c :: cs)))
    | fn f =>
      have hf : (f c).OK := hsrc c
      simp only [visit, Spec.refNode, bind, Except.bind, charge_rep (f c) hf]
      exact tracks_map (tracks_pop
        (visitList_tracks W E hA dflt hd children hch (C + M * (f c).resolver.toNat)
          (M * Spec.effMul (f c).multiplier) (rep M :: ms) ((f c).ctx.getD c) (c :: cs)))
  | .spread name children, hok, C, M, ms, c, cs => by
    rw [Node.OK] at hok
    have hW := hA name C M ms c cs
    simp only [visit, Spec.refNode, bind, Except.bind]
    unfold Tracks at hW
    cases hE : E name M c with
    | none =>
      rw [hE] at hW
      obtain ⟨e, he, hp⟩ := hW
      rw [he]
      exact ⟨e, rfl, hp⟩
    | some a =>
      rw [hE] at hW
      simp only at hW
      rw [hW]
      have hrest := tracks_pop (visitList_tracks W E hA dflt hd children hok (C + a) M (rep M :: ms) c (c :: cs))
      unfold Tracks at hrest ⊢
      cases hL : Spec.refList E dflt M c children with
      | none =>
        rw [hL] at hrest
        exact hrest
      | some b =>
        rw [hL] at hrest
        simp only at hrest ⊢
        rw [← Nat.add_assoc]; exact hrest
  | .other children, hok, C, M, ms, c, cs => by
    rw [Node.OK] at hok
    simp only [visit, Spec.refNode, bind, Except.bind]
    exact tracks_pop (visitList_tracks W E hA dflt hd children hok C M (rep M :: ms) c (c :: cs))
/-- A list of sibling nodes. -/
theorem visitList_tracks {κ : Type} (W : String → St κ → Except Abort (St κ))
    (E : String → Nat → κ → Option Nat) (hA : Agree W E) (dflt : FieldCost κ) (hd : dflt.OK) :
    ∀ (nodes : List (Node κ)), NodesOK nodes → ∀ (C M : Nat) (ms : List Int) (c : κ) (cs : List κ),
      Tracks (visitList W dflt nodes { cost := rep C, mults := rep M :: ms, ctxs := c :: cs })
        (Spec.refList E dflt M c nodes) C M ms c cs
  | [], _, C, M, ms, c, cs => by
    simp only [visitList, Spec.refList, Tracks, Nat.add_zero]
  | n :: ns, hok, C, M, ms, c, cs => by
    rw [NodesOK] at hok
    have h1 := visit_tracks W E hA dflt hd n hok.1 C M ms c cs
    simp only [visitList, Spec.refList, bind, Except.bind]
    unfold Tracks at h1
    cases hN : Spec.refNode E dflt M c n with
    | none =>
      rw [hN] at h1
      obtain ⟨e, he, hp⟩ := h1
      rw [he]
      exact ⟨e, rfl, hp⟩
    | some a =>
      rw [hN] at h1
      simp only at h1
      rw [h1]
      have h2 := visitList_tracks W E hA dflt hd ns hok.2 (C + a) M ms c cs
      unfold Tracks at h2 ⊢
      cases hL : Spec.refList E dflt M c ns with
      | none => rw [hL] at h2; exact h2
      | some b =>
        rw [hL] at h2
        simp only at h2 ⊢
        rw [← Nat.add_assoc]; exact h2
end

/-- Every fragment definition is in the property's domain. -/
def FragsOK {κ : Type} (frags : List (String × Node κ)) : Prop := ∀ p ∈ frags, p.2.OK

theorem findFrag_mem {κ : Type} {frags : List (String × Node κ)} {name : String} {d : Node κ}
    (h : findFrag frags name = some d) : (name, d) ∈ frags := by
  induction frags with
  | nil => simp [findFrag] at h
  | cons p rest ih =>
    obtain ⟨n, d'⟩ := p
    simp only [findFrag] at h
    cases hr : findFrag rest name with
    | some d'' =>
      rw [hr] at h
      simp only [Option.some.injEq] at h
      subst h
      exact List.mem_cons_of_mem _ (ih hr)
    | none =>
      rw [hr] at h
      simp only at h
      by_cases hn : n = name
      · simp only [hn, if_true, Option.some.injEq] at h
        subst h; subst hn
        exact List.mem_cons_self
      · simp [hn] at h

/-- The spread handling of the walk and of the specification agree when their recursive calls do. -/
theorem onSpread_agree {κ : Type} (frags : List (String × Node κ)) (path : List String)
    (recurW : Option (List String → Node κ → St κ → Except Abort (St κ)))
    (recurE : Option (List String → Nat → κ → Node κ → Option Nat))
    (hnone : recurW.isNone = recurE.isNone)
    (hrec : ∀ w e, recurW = some w → recurE = some e → ∀ name d, findFrag frags name = some d →
      ∀ C M ms c cs, Tracks (w (name :: path) d { cost := rep C, mults := rep M :: ms, ctxs := c :: cs })
        (e (name :: path) M c d) C M ms c cs) :
    Agree (onSpreadWith frags path recurW) (Spec.expandWith frags path recurE) := by
  intro name C M ms c cs
  unfold onSpreadWith Spec.expandWith
  by_cases hp : name ∈ path
  · simp only [hp, if_true]
    exact ⟨_, rfl, fun w h => by cases h⟩
  · simp only [hp, if_false]
    cases hf : findFrag frags name with
    | none => exact ⟨_, rfl, fun w h => by cases h⟩
    | some d =>
      cases recurW with
      | none =>
        cases recurE with
        | none => exact ⟨_, rfl, fun w h => by cases h⟩
        | some e => simp at hnone
      | some w =>
        cases recurE with
        | none => simp at hnone
        | some e => exact hrec w e rfl rfl name d hf C M ms c cs

/-- **The walk tracks the reference cost** for every fuel, every set of fragments being expanded
    and every node of a document in the property's domain. -/
theorem walk_tracks {κ : Type} (frags : List (String × Node κ)) (hfr : FragsOK frags)
    (dflt : FieldCost κ) (hd : dflt.OK) :
    ∀ (fuel : Nat) (path : List String) (node : Node κ), node.OK →
      ∀ (C M : Nat) (ms : List Int) (c : κ) (cs : List κ),
        Tracks (walk frags dflt fuel path node { cost := rep C, mults := rep M :: ms, ctxs := c :: cs })
          (Spec.ref frags dflt fuel path M c node) C M ms c cs := by
  intro fuel
  induction fuel with
  | zero =>
    intro path node hok C M ms c cs
    simp only [walk, Spec.ref]
    exact visit_tracks _ _ (onSpread_agree frags path none none rfl (by intro w e h; cases h)) dflt hd node hok C M ms c cs
  | succ f ih =>
    intro path node hok C M ms c cs
    simp only [walk, Spec.ref]
    refine visit_tracks _ _ (onSpread_agree frags path _ _ rfl ?_) dflt hd node hok C M ms c cs
    intro w e hw he name d hf C M ms c cs
    simp only [Option.some.injEq] at hw he
    subst hw; subst he
    exact ih (name :: path) d (hfr _ (findFrag_mem hf)) C M ms c cs

/-! ### Operation choice -/

theorem chooseOp_acc {κ : Type} (opName : String) (ops : List (Op κ)) :
    (chooseOp opName ops none = Spec.chosen opName ops) ∧
    (∀ a, chooseOp opName ops (some a) =
      if (ops.filter (fun d => opName == "" || d.name == some opName)).isEmpty then some a else none) := by
  induction ops with
  | nil => simp [chooseOp, Spec.chosen]
  | cons d rest ih =>
    obtain ⟨ih1, ih2⟩ := ih
    by_cases hm : opName = "" ∨ d.name = some opName
    · have hb : (opName == "" || d.name == some opName) = true := by
        rcases hm with h | h <;> simp [h]
      constructor
      · simp only [chooseOp, hm, if_true, ih2, Spec.chosen, List.filter, hb]
        cases hfl : List.filter (fun d => opName == "" || d.name == some opName) rest <;> simp
      · intro a
        simp only [chooseOp, hm, if_true, List.filter, hb]
        simp
    · have hb : (opName == "" || d.name == some opName) = false := by
        have h1 : ¬ opName = "" := fun h => hm (Or.inl h)
        have h2 : ¬ d.name = some opName := fun h => hm (Or.inr h)
        simp [h1, h2]
      constructor
      · simp only [chooseOp, hm, if_false, ih1, Spec.chosen, List.filter, hb]
      · intro a
        simp only [chooseOp, hm, if_false, ih2, List.filter, hb]

/-- Lines 46-57 choose exactly the unique matching operation. -/
theorem chooseOp_eq_chosen {κ : Type} (opName : String) (ops : List (Op κ)) :
    chooseOp opName ops none = Spec.chosen opName ops := (chooseOp_acc opName ops).1

theorem chosen_mem {κ : Type} {opName : String} {ops : List (Op κ)} {o : Op κ}
    (h : Spec.chosen opName ops = some o) : o ∈ ops := by
  unfold Spec.chosen at h
  split at h
  · rename_i o' hf
    simp only [Option.some.injEq] at h
    subst h
    have : o' ∈ ops.filter (fun d => opName == "" || d.name == some opName) := by rw [hf]; simp
    exact (List.mem_filter.mp this).1
  · cases h

theorem rep_zero : rep 0 = 0 := by decide
theorem rep_one : rep 1 = 1 := by decide

theorem rep_neg_iff (R : Nat) : rep R < 0 ↔ (9223372036854775807 : Int) < R := by
  unfold rep
  have : (0 : Int) ≤ R := Int.natCast_nonneg R
  split <;> omega

/-- The property's domain for a document: every cost function returns a resolver cost in
    `[0, maxInt]` and a Go-int multiplier, whatever context it is given. -/
def Doc.OK {κ : Type} (doc : Doc κ) : Prop := (∀ o ∈ doc.ops, o.node.OK) ∧ FragsOK doc.frags

/-- The rule's final `cost` variable is the saturated reference cost; a document outside the
    reference's domain stops the walk with a (non-panic) error. -/
theorem finalCost_eq {κ : Type} (ctx0 : κ) (opName : String) (dflt : FieldCost κ) (doc : Doc κ)
    (hdoc : doc.OK) (hd : dflt.OK) :
    match Spec.refCost ctx0 opName dflt doc with
    | some R => finalCost ctx0 opName true dflt doc = .ok (rep R)
    | none => ∃ e, finalCost ctx0 opName true dflt doc = .error e ∧ e.NotPanic := by
  unfold finalCost Spec.refCost
  rw [chooseOp_eq_chosen]
  cases hc : Spec.chosen opName doc.ops with
  | none => simp only; exact congrArg _ rep_zero.symm
  | some o =>
    simp only [if_true]
    have hok : o.node.OK := hdoc.1 o (chosen_mem hc)
    have h := walk_tracks doc.frags hdoc.2 dflt hd doc.frags.length [] o.node hok 0 1 [] ctx0 []
    rw [rep_zero, rep_one] at h
    unfold Tracks at h
    cases hr : Spec.ref doc.frags dflt doc.frags.length [] 1 ctx0 o.node with
    | some R =>
      rw [hr] at h
      simp only at h ⊢
      rw [h]
      simp [bind, Except.bind]
    | none =>
      rw [hr] at h
      obtain ⟨e, he, hp⟩ := h
      exact ⟨e, by rw [he]; rfl, hp⟩

/-! ### The model's fuel never runs out (the Go recursion terminates) -/

/-- A result that is not the model's out-of-fuel artefact. -/
def NoOOF {α : Type} (res : Except Abort α) : Prop := res ≠ .error .outOfFuel

theorem NoOOF.bind {α β : Type} {x : Except Abort α} {f : α → Except Abort β} (hx : NoOOF x)
    (hf : ∀ a, NoOOF (f a)) : NoOOF (x >>= f) := by
  cases x with
  | error e => intro h; apply hx; simpa [Bind.bind, Except.bind] using h
  | ok a => exact hf a

theorem liftArith_noOOF (o : Option Int) : NoOOF (liftArith o) := by
  cases o <;> intro h <;> cases h

theorem charge_noOOF {κ : Type} (fc : FieldCost κ) (st : St κ) (m : Int) (c : κ) :
    NoOOF (charge fc st m c) := by
  unfold charge
  refine NoOOF.bind (liftArith_noOOF _) fun prod => NoOOF.bind (liftArith_noOOF _) fun cost =>
    NoOOF.bind ?_ fun newM => fun h => by cases h
  split
  · exact liftArith_noOOF _
  · intro h; cases h

theorem pop_noOOF {κ : Type} (st : St κ) : NoOOF (pop st) := by
  unfold pop; split <;> intro h <;> cases h

mutual
theorem visit_noOOF {κ : Type} (W : String → St κ → Except Abort (St κ))
    (hW : ∀ name st, NoOOF (W name st)) (dflt : FieldCost κ) :
    ∀ (node : Node κ) (st : St κ), NoOOF (visit W dflt node st)
  | .field src children, st => by
    unfold visit
    split
    · refine NoOOF.bind ?_ fun r => NoOOF.bind (visitList_noOOF W hW dflt children _) fun st' => pop_noOOF st'
      cases src with
      | typename => intro h; cases h
      | unknown => intro h; cases h
      | argError => intro h; cases h
      | default => exact charge_noOOF _ _ _ _
      | fn f => exact charge_noOOF _ _ _ _
    · intro h; cases h
  | .spread name children, st => by
    unfold visit
    split
    · exact NoOOF.bind (hW name st) fun st1 =>
        NoOOF.bind (visitList_noOOF W hW dflt children _) fun st' => pop_noOOF st'
    · intro h; cases h
  | .other children, st => by
    unfold visit
    split
    · exact NoOOF.bind (visitList_noOOF W hW dflt children _) fun st' => pop_noOOF st'
    · intro h; cases h
theorem visitList_noOOF {κ : Type} (W : String → St κ → Except Abort (St κ))
    (hW : ∀ name st, NoOOF (W name st)) (dflt : FieldCost κ) :
    ∀ (nodes : List (Node κ)) (st : St κ), NoOOF (visitList W dflt nodes st)
  | [], st => by unfold visitList; intro h; cases h
  | n :: ns, st => by
    unfold visitList
    exact NoOOF.bind (visit_noOOF W hW dflt n st) fun st' => visitList_noOOF W hW dflt ns st'
end

/-- Pigeonhole: a duplicate-free list inside `k` that is at least as long as `k` covers `k`. -/
theorem subset_of_nodup_of_length_le {l k : List String} (hn : l.Nodup) (hs : l ⊆ k)
    (hl : k.length ≤ l.length) : k ⊆ l := by
  intro x hx
  by_cases hxl : x ∈ l
  · exact hxl
  · exfalso
    have hn' : (x :: l).Nodup := List.nodup_cons.mpr ⟨hxl, hn⟩
    have hs' : (x :: l) ⊆ k := by
      intro y hy
      rcases List.mem_cons.mp hy with rfl | hy
      · exact hx
      · exact hs hy
    have := List.Nodup.length_le_of_subset hn' hs'
    simp only [List.length_cons] at this
    omega

/-- The names of the fragment definitions. -/
def fragNames {κ : Type} (frags : List (String × Node κ)) : List String := frags.map (·.1)

theorem walk_noOOF {κ : Type} (frags : List (String × Node κ)) (dflt : FieldCost κ) :
    ∀ (fuel : Nat) (path : List String), path.Nodup → path ⊆ fragNames frags →
      frags.length ≤ path.length + fuel →
      ∀ (node : Node κ) (st : St κ), NoOOF (walk frags dflt fuel path node st) := by
  intro fuel
  induction fuel with
  | zero =>
    intro path hn hs hl node st
    simp only [walk]
    refine visit_noOOF _ ?_ dflt node st
    intro name st'
    unfold onSpreadWith
    split
    · intro h; cases h
    · rename_i hnp
      cases hf : findFrag frags name with
      | none => intro h; cases h
      | some d =>
        exfalso
        have hmem : name ∈ fragNames frags := List.mem_map_of_mem (f := (·.1)) (findFrag_mem hf)
        have hlen : (fragNames frags).length ≤ path.length := by
          simp only [fragNames, List.length_map]; omega
        exact hnp (subset_of_nodup_of_length_le hn hs hlen hmem)
  | succ f ih =>
    intro path hn hs hl node st
    simp only [walk]
    refine visit_noOOF _ ?_ dflt node st
    intro name st'
    unfold onSpreadWith
    split
    · intro h; cases h
    · rename_i hnp
      cases hf : findFrag frags name with
      | none => intro h; cases h
      | some d =>
        have hmem : name ∈ fragNames frags := List.mem_map_of_mem (f := (·.1)) (findFrag_mem hf)
        refine ih (name :: path) (List.nodup_cons.mpr ⟨hnp, hn⟩) ?_ ?_ d st'
        · intro y hy
          rcases List.mem_cons.mp hy with rfl | hy
          · exact hmem
          · exact hs hy
        · simp only [List.length_cons]; omega

/-! ### No panic and balanced stacks for *every* document (also outside the property's domain) -/

/-- `res` succeeds leaving the stacks `ms`, `cs`, or stops with an error that is not a panic. -/
def Safe {κ : Type} (res : Except Abort (St κ)) (ms : List Int) (cs : List κ) : Prop :=
  (∃ st', res = .ok st' ∧ st'.mults = ms ∧ st'.ctxs = cs) ∨ (∃ e, res = .error e ∧ e.NotPanic)

theorem Safe.bind {κ : Type} {res : Except Abort (St κ)} {f : St κ → Except Abort (St κ)}
    {ms ms' : List Int} {cs cs' : List κ} (h : Safe res ms cs)
    (hf : ∀ st', st'.mults = ms → st'.ctxs = cs → Safe (f st') ms' cs') : Safe (res >>= f) ms' cs' := by
  rcases h with ⟨st', he, h1, h2⟩ | ⟨e, he, hp⟩
  · rw [he]; exact hf st' h1 h2
  · rw [he]; exact Or.inr ⟨e, rfl, hp⟩

theorem pop_safe {κ : Type} (st : St κ) (m : Int) (ms : List Int) (c : κ) (cs : List κ)
    (h1 : st.mults = m :: ms) (h2 : st.ctxs = c :: cs) : Safe (pop st) ms cs := by
  obtain ⟨cost, mults, ctxs⟩ := st
  simp only at h1 h2
  subst h1; subst h2
  exact Or.inl ⟨_, rfl, rfl, rfl⟩

theorem mul_ok (a b : Int) : ∃ v, mul a b = .ok v := by
  unfold mul liftArith
  have := mul_isSome a b
  cases h : Generated.checkedNonNegativeMultiply a b with
  | none => rw [h] at this; cases this
  | some v => exact ⟨v, rfl⟩

theorem add_ok (a b : Int) : ∃ v, add a b = .ok v := by
  unfold add liftArith
  have := add_isSome a b
  cases h : Generated.checkedNonNegativeAdd a b with
  | none => rw [h] at this; cases this
  | some v => exact ⟨v, rfl⟩

theorem charge_ok {κ : Type} (fc : FieldCost κ) (st : St κ) (m : Int) (c : κ) :
    ∃ cost newM newC, charge fc st m c = .ok ({ st with cost := cost }, newM, newC) := by
  obtain ⟨ctx, r, mu⟩ := fc
  unfold charge
  obtain ⟨p, hp⟩ := mul_ok m r
  obtain ⟨s, hs⟩ := add_ok st.cost p
  by_cases hgt : mu > 1
  · obtain ⟨nm, hnm⟩ := mul_ok m mu
    refine ⟨s, nm, ctx.getD c, ?_⟩
    cases ctx <;> simp only [hp, hs, hgt, if_true, hnm, bind, Except.bind, Option.getD]
  · refine ⟨s, m, ctx.getD c, ?_⟩
    cases ctx <;> simp only [hp, hs, hgt, if_false, bind, Except.bind, Option.getD]

mutual
theorem visit_safe {κ : Type} (W : String → St κ → Except Abort (St κ))
    (hW : ∀ name (st : St κ) m ms c cs, st.mults = m :: ms → st.ctxs = c :: cs →
      Safe (W name st) (m :: ms) (c :: cs)) (dflt : FieldCost κ) :
    ∀ (node : Node κ) (st : St κ) (m : Int) (ms : List Int) (c : κ) (cs : List κ),
      st.mults = m :: ms → st.ctxs = c :: cs → Safe (visit W dflt node st) (m :: ms) (c :: cs)
  | .field src children, st, m, ms, c, cs, h1, h2 => by
    obtain ⟨cost, mults, ctxs⟩ := st
    simp only at h1 h2
    subst h1; subst h2
    have key : ∀ (st1 : St κ) (newM : Int) (newC : κ), st1.mults = m :: ms → st1.ctxs = c :: cs →
        Safe (visitList W dflt children (push st1 newM newC) >>= pop) (m :: ms) (c :: cs) := by
      intro st1 newM newC e1 e2
      refine Safe.bind (visitList_safe W hW dflt children (push st1 newM newC) newM (m :: ms) newC (c :: cs)
        (by simp [push, e1]) (by simp [push, e2])) ?_
      intro st' e1' e2'
      exact pop_safe st' newM (m :: ms) newC (c :: cs) e1' e2'
    cases src with
    | typename => simp only [visit, bind, Except.bind]; exact key _ m c rfl rfl
    | unknown => simp only [visit, bind, Except.bind]; exact Or.inr ⟨_, rfl, fun w h => by cases h⟩
    | argError => simp only [visit, bind, Except.bind]; exact Or.inr ⟨_, rfl, fun w h => by cases h⟩
    | default =>
      obtain ⟨cost', newM, newC, hc⟩ := charge_ok dflt { cost := cost, mults := m :: ms, ctxs := c :: cs } m c
      simp only [visit, bind, Except.bind, hc]
      exact key _ newM newC rfl rfl
    | fn f =>
      obtain ⟨cost', newM, newC, hc⟩ := charge_ok (f c) { cost := cost, mults := m :: ms, ctxs := c :: cs } m c
      simp only [visit, bind, Except.bind, hc]
      exact key _ newM newC rfl rfl
  | .spread name children, st, m, ms, c, cs, h1, h2 => by
    obtain ⟨cost, mults, ctxs⟩ := st
    simp only at h1 h2
    subst h1; subst h2
    simp only [visit]
    refine Safe.bind (hW name _ m ms c cs rfl rfl) ?_
    intro st1 e1 e2
    refine Safe.bind (visitList_safe W hW dflt children (push st1 m c) m (m :: ms) c (c :: cs)
      (by simp [push, e1]) (by simp [push, e2])) ?_
    intro st' e1' e2'
    exact pop_safe st' m (m :: ms) c (c :: cs) e1' e2'
  | .other children, st, m, ms, c, cs, h1, h2 => by
    obtain ⟨cost, mults, ctxs⟩ := st
    simp only at h1 h2
    subst h1; subst h2
    simp only [visit]
    refine Safe.bind (visitList_safe W hW dflt children (push _ m c) m (m :: ms) c (c :: cs)
      (by simp [push]) (by simp [push])) ?_
    intro st' e1' e2'
    exact pop_safe st' m (m :: ms) c (c :: cs) e1' e2'
theorem visitList_safe {κ : Type} (W : String → St κ → Except Abort (St κ))
    (hW : ∀ name (st : St κ) m ms c cs, st.mults = m :: ms → st.ctxs = c :: cs →
      Safe (W name st) (m :: ms) (c :: cs)) (dflt : FieldCost κ) :
    ∀ (nodes : List (Node κ)) (st : St κ) (m : Int) (ms : List Int) (c : κ) (cs : List κ),
      st.mults = m :: ms → st.ctxs = c :: cs → Safe (visitList W dflt nodes st) (m :: ms) (c :: cs)
  | [], st, m, ms, c, cs, h1, h2 => by
    simp only [visitList]; exact Or.inl ⟨st, rfl, h1, h2⟩
  | n :: ns, st, m, ms, c, cs, h1, h2 => by
    simp only [visitList]
    refine Safe.bind (visit_safe W hW dflt n st m ms c cs h1 h2) ?_
    intro st' e1 e2
    exact visitList_safe W hW dflt ns st' m ms c cs e1 e2
end

theorem walk_safe {κ : Type} (frags : List (String × Node κ)) (dflt : FieldCost κ) :
    ∀ (fuel : Nat) (path : List String) (node : Node κ) (st : St κ) (m : Int) (ms : List Int) (c : κ)
      (cs : List κ), st.mults = m :: ms → st.ctxs = c :: cs →
      Safe (walk frags dflt fuel path node st) (m :: ms) (c :: cs) := by
  intro fuel
  induction fuel with
  | zero =>
    intro path node st m ms c cs h1 h2
    simp only [walk]
    refine visit_safe _ ?_ dflt node st m ms c cs h1 h2
    intro name st' m' ms' c' cs' _ _
    unfold onSpreadWith
    split
    · exact Or.inr ⟨_, rfl, fun w h => by cases h⟩
    · split
      · exact Or.inr ⟨_, rfl, fun w h => by cases h⟩
      · exact Or.inr ⟨_, rfl, fun w h => by cases h⟩
  | succ f ih =>
    intro path node st m ms c cs h1 h2
    simp only [walk]
    refine visit_safe _ ?_ dflt node st m ms c cs h1 h2
    intro name st' m' ms' c' cs' e1 e2
    unfold onSpreadWith
    split
    · exact Or.inr ⟨_, rfl, fun w h => by cases h⟩
    · split
      · exact Or.inr ⟨_, rfl, fun w h => by cases h⟩
      · exact ih _ _ st' m' ms' c' cs' e1 e2

/-! ### Validated documents are in the reference's domain -/

/-- The field has a definition and its arguments coerce. -/
def CostSrc.Defined {κ : Type} : CostSrc κ → Prop
  | .unknown => False
  | .argError => False
  | _ => True

mutual
/-- The fragment names spread anywhere inside the node (not looking into the fragments). -/
def spreadNames {κ : Type} : Node κ → List String
  | .field _ children => spreadNamesL children
  | .spread name children => name :: spreadNamesL children
  | .other children => spreadNamesL children
def spreadNamesL {κ : Type} : List (Node κ) → List String
  | [] => []
  | n :: ns => spreadNames n ++ spreadNamesL ns
end

mutual
def Node.Clean {κ : Type} : Node κ → Prop
  | .field src children => src.Defined ∧ CleanL children
  | .spread _ children => CleanL children
  | .other children => CleanL children
def CleanL {κ : Type} : List (Node κ) → Prop
  | [] => True
  | n :: ns => n.Clean ∧ CleanL ns
end

mutual
theorem refNode_isSome {κ : Type} (E : String → Nat → κ → Option Nat) (dflt : FieldCost κ) :
    ∀ (node : Node κ), node.Clean → (∀ g ∈ spreadNames node, ∀ M c, (E g M c).isSome) →
      ∀ M c, (Spec.refNode E dflt M c node).isSome
  | .field src children, hc, hE, M, c => by
    rw [Node.Clean] at hc
    rw [spreadNames] at hE
    cases src with
    | typename => simp only [Spec.refNode]; exact refList_isSome E dflt children hc.2 hE M c
    | unknown => exact absurd hc.1 (by simp [CostSrc.Defined])
    | argError => exact absurd hc.1 (by simp [CostSrc.Defined])
    | default =>
      simp only [Spec.refNode, Option.isSome_map]
      exact refList_isSome E dflt children hc.2 hE _ _
    | fn f =>
      simp only [Spec.refNode, Option.isSome_map]
      exact refList_isSome E dflt children hc.2 hE _ _
  | .spread name children, hc, hE, M, c => by
    rw [Node.Clean] at hc
    rw [spreadNames] at hE
    have h1 := hE name (List.mem_cons_self) M c
    have h2 := refList_isSome E dflt children hc (fun g hg => hE g (List.mem_cons_of_mem _ hg)) M c
    simp only [Spec.refNode]
    cases ha : E name M c with
    | none => rw [ha] at h1; cases h1
    | some a =>
      cases hb : Spec.refList E dflt M c children with
      | none => rw [hb] at h2; cases h2
      | some b => rfl
  | .other children, hc, hE, M, c => by
    rw [Node.Clean] at hc
    rw [spreadNames] at hE
    simp only [Spec.refNode]
    exact refList_isSome E dflt children hc hE M c
theorem refList_isSome {κ : Type} (E : String → Nat → κ → Option Nat) (dflt : FieldCost κ) :
    ∀ (nodes : List (Node κ)), CleanL nodes → (∀ g ∈ spreadNamesL nodes, ∀ M c, (E g M c).isSome) →
      ∀ M c, (Spec.refList E dflt M c nodes).isSome
  | [], _, _, M, c => by simp [Spec.refList]
  | n :: ns, hc, hE, M, c => by
    rw [CleanL] at hc
    rw [spreadNamesL] at hE
    have h1 := refNode_isSome E dflt n hc.1 (fun g hg => hE g (List.mem_append_left _ hg)) M c
    have h2 := refList_isSome E dflt ns hc.2 (fun g hg => hE g (List.mem_append_right _ hg)) M c
    simp only [Spec.refList]
    cases ha : Spec.refNode E dflt M c n with
    | none => rw [ha] at h1; cases h1
    | some a =>
      cases hb : Spec.refList E dflt M c ns with
      | none => rw [hb] at h2; cases h2
      | some b => rfl
end

/-- What validation guarantees about fragments, stated with a topological order: `order` lists
    fragment names, each defined and clean, and every fragment only spreads fragments listed
    *earlier* (so spreads are acyclic). -/
structure FragsValid {κ : Type} (frags : List (String × Node κ)) (order : List String) : Prop where
  nodup : order.Nodup
  defined : ∀ g ∈ order, ∃ d, findFrag frags g = some d ∧ d.Clean ∧
    ∀ g' ∈ spreadNames d, g' ∈ order ∧ order.idxOf g' < order.idxOf g

theorem ref_isSome_of_valid {κ : Type} (frags : List (String × Node κ)) (order : List String)
    (hv : FragsValid frags order) (dflt : FieldCost κ) :
    ∀ (fuel : Nat) (path : List String) (node : Node κ), node.Clean →
      (∀ g ∈ spreadNames node, g ∈ order ∧ order.idxOf g < fuel ∧ ∀ p ∈ path, order.idxOf g < order.idxOf p) →
      ∀ M c, (Spec.ref frags dflt fuel path M c node).isSome := by
  intro fuel
  induction fuel with
  | zero =>
    intro path node hc hs M c
    simp only [Spec.ref]
    refine refNode_isSome _ dflt node hc ?_ M c
    intro g hg
    exact absurd (hs g hg).2.1 (Nat.not_lt_zero _)
  | succ f ih =>
    intro path node hc hs M c
    simp only [Spec.ref]
    refine refNode_isSome _ dflt node hc ?_ M c
    intro g hg M' c'
    obtain ⟨hgo, hgf, hgp⟩ := hs g hg
    obtain ⟨d, hfd, hdc, hds⟩ := hv.defined g hgo
    have hnp : g ∉ path := fun h => Nat.lt_irrefl _ (hgp g h)
    simp only [Spec.expandWith, hnp, if_false, hfd]
    refine ih (g :: path) d hdc ?_ M' c'
    intro g' hg'
    obtain ⟨hg'o, hlt⟩ := hds g' hg'
    refine ⟨hg'o, by omega, ?_⟩
    intro p hp
    rcases List.mem_cons.mp hp with rfl | hp
    · exact hlt
    · exact Nat.lt_trans hlt (hgp p hp)

end ApiFu.C14
