/-
  C14 — the connection cost functions and the connection resolver's reading of `first` / `last`, as
  translated from the current pagination.go (GeneratedConn.lean, regenerated on every check), are the
  model's `connectionCost`, `edgesCost`, `resolverEdgeLimit`; and, through the argument-resolution
  instance (PropsArgs.lean), the translated resolver and the translated cost function agree for every
  request: the resolver may return exactly as many edges as were charged.
-/
import ApiFu.C14.GeneratedConn
import ApiFu.C14.PropsArgs

set_option linter.unusedSimpArgs false

namespace ApiFu.C14

/-- `ctx.Arguments` of a connection field as far as these functions read it: the two keys. -/
def argsOf (first last : ArgVal) : String → ArgVal :=
  fun n => if n = "first" then first else if n = "last" then last else .absent

theorem argsOf_first (first last : ArgVal) : argsOf first last "first" = first := by simp [argsOf]
theorem argsOf_last (first last : ArgVal) : argsOf first last "last" = last := by
  have : ¬ ("last" = "first") := by decide
  simp [argsOf, this]

/-- **generated_connection_cost_eq** — `defaultConnectionCost` as translated from pagination.go is the
    model's `connectionCost`: resolver cost 1, no multiplier, and the context it received with the max
    edge count (`last` if it is an int, else `first` if it is an int, else 0) added under pagination's
    own key — for every spelling of `first` / `last` (no key, nil, int) and every received context. -/
theorem generated_connection_cost_eq (first last : ArgVal) :
    GeneratedConn.defaultConnectionCost (argsOf first last) = connectionCost first last := by
  funext ctx
  simp only [GeneratedConn.defaultConnectionCost, argsOf_first, argsOf_last]
  cases first <;> cases last <;> simp [connectionCost, connMaxCount, ArgVal.asInt]

/-- **generated_edges_cost_eq** — the cost function of every `edges` field pagination.go defines (the
    connection object's and the connection interface's) is the model's `edgesCost`: resolver cost 0,
    multiplier = the max edge count found in the context (0, i.e. none, when no connection cost function
    put one there). -/
theorem generated_edges_cost_eq :
    GeneratedConn.edgesCosts.length = 2 ∧ ∀ f ∈ GeneratedConn.edgesCosts, f = edgesCost := by
  refine ⟨rfl, ?_⟩
  intro f hf
  simp only [GeneratedConn.edgesCosts, List.mem_cons, List.mem_nil_iff, or_false] at hf
  rcases hf with h | h <;> subst h <;> funext ctx <;>
    simp [GeneratedConn.edgesCost_1, GeneratedConn.edgesCost_2, GeneratedConn.maxEdgeCount, edgesCost]

/-- The number of edges the resolver asks its data source for, minus the one it fetches to learn
    whether there is a further page: `limit = first + 1` forwards, `-(last + 1)` backwards. -/
def edgesOfLimit (l : Int) : Int := if l > 0 then l - 1 else -l - 1

/-- **generated_resolver_reading_eq** — the connection resolver's own reading of `first` / `last`, as
    translated from pagination.go (`ret.Resolve`: the argument checks and the computation of `limit`), is
    the model's `resolverEdgeLimit`: when a check fails the resolver returns an error (no edges), and
    otherwise `limit` is computed without panic (the single-valued `.(int)` on `last` cannot fail there)
    and allows exactly `resolverEdgeLimit` edges. For 32-bit values (what `Int` coercion delivers). -/
theorem generated_resolver_reading_eq (first last : ArgVal)
    (hb : ∀ n, first = .int n ∨ last = .int n → -2147483648 ≤ n ∧ n ≤ 2147483647) :
    (∀ msg, GeneratedConn.resolveGuard (argsOf first last) = some msg → resolverEdgeLimit first last = none) ∧
    (GeneratedConn.resolveGuard (argsOf first last) = none →
      ∃ l, GeneratedConn.resolveLimit (argsOf first last) = some l ∧
        resolverEdgeLimit first last = some (edgesOfLimit l)) := by
  have hw : ∀ x : Int, -2147483649 ≤ x → x ≤ 2147483648 → wrap64 x = x :=
    fun x h1 h2 => wrap64_id ⟨by omega, by omega⟩
  simp only [GeneratedConn.resolveGuard, GeneratedConn.resolveLimit, argsOf_first, argsOf_last]
  cases first with
  | int f =>
    have hf := hb f (Or.inl rfl)
    have e1 := hw (f + 1) (by omega) (by omega)
    by_cases hneg : f < 0
    · cases last <;> simp [ArgVal.asInt, resolverEdgeLimit, hneg]
    · cases last <;> simp [ArgVal.asInt, resolverEdgeLimit, hneg, e1, edgesOfLimit] <;> omega
  | absent =>
    cases last with
    | int l =>
      have hl := hb l (Or.inr rfl)
      have e1 := hw (l + 1) (by omega) (by omega)
      have e2 := hw (-(l + 1)) (by omega) (by omega)
      by_cases hneg : l < 0
      · simp [ArgVal.asInt, resolverEdgeLimit, hneg]
      · simp [ArgVal.asInt, resolverEdgeLimit, hneg, e1, e2, edgesOfLimit]; omega
    | absent => simp [ArgVal.asInt, resolverEdgeLimit]
    | null => simp [ArgVal.asInt, resolverEdgeLimit]
  | null =>
    cases last with
    | int l =>
      have hl := hb l (Or.inr rfl)
      have e1 := hw (l + 1) (by omega) (by omega)
      have e2 := hw (-(l + 1)) (by omega) (by omega)
      by_cases hneg : l < 0
      · simp [ArgVal.asInt, resolverEdgeLimit, hneg]
      · simp [ArgVal.asInt, resolverEdgeLimit, hneg, e1, e2, edgesOfLimit]; omega
    | absent => simp [ArgVal.asInt, resolverEdgeLimit]
    | null => simp [ArgVal.asInt, resolverEdgeLimit]

/-! ## 32 bits: what `Int` coercion delivers (discharges the hypothesis above for requests) -/

theorem coerceLit_int32 (nn : Bool) (l : Lit) (n : Int) (h : coerceLit nn l = .ok (.int n)) :
    inInt32 n = true := by
  cases l with
  | null => cases nn <;> simp [coerceLit] at h
  | int k =>
    by_cases hr : inInt32 k = true
    · simp [coerceLit, hr] at h; subst h; exact hr
    · simp [coerceLit, hr] at h

theorem coerceVariable_int32 (d : VarDecl) (g : ArgVal) (n : Int) (h : coerceVariable d g = .ok (.int n)) :
    inInt32 n = true := by
  obtain ⟨name, nn, dflt⟩ := d
  cases g with
  | int k =>
    by_cases hr : inInt32 k = true
    · simp [coerceVariable, hr] at h; subst h; exact hr
    · simp [coerceVariable, hr] at h
  | null => cases nn <;> simp [coerceVariable] at h
  | absent =>
    cases dflt with
    | none => cases nn <;> simp [coerceVariable] at h
    | some l =>
      simp only [coerceVariable] at h
      cases hl : coerceLit nn l with
      | error e => rw [hl] at h; cases h
      | ok a =>
        rw [hl] at h
        simp only [Except.ok.injEq] at h
        subst h
        exact coerceLit_int32 nn l n hl

theorem lookupVar_int_mem : ∀ (m : List (String × ArgVal)) (v : String) (n : Int),
    lookupVar m v = .int n → (v, ArgVal.int n) ∈ m
  | [], _, _, h => by cases h
  | (name, a) :: rest, v, n, h => by
    simp only [lookupVar] at h
    cases hr : lookupVar rest v with
    | int k =>
      rw [hr] at h
      simp only [ArgVal.int.injEq] at h
      subst h
      exact List.mem_cons_of_mem _ (lookupVar_int_mem rest v k hr)
    | null => rw [hr] at h; cases h
    | absent =>
      rw [hr] at h
      simp only at h
      by_cases hn : name = v
      · simp only [hn, if_true] at h
        subst h; subst hn
        exact List.mem_cons_self
      · simp [hn] at h

theorem coerceVariables_int32 (given : String → ArgVal) :
    ∀ (decls : List VarDecl) (m : List (String × ArgVal)), coerceVariables given decls = .ok m →
      ∀ v n, (v, ArgVal.int n) ∈ m → inInt32 n = true
  | [], m, h, v, n, hm => by
    simp only [coerceVariables, Except.ok.injEq] at h; subst h; cases hm
  | d :: ds, m, h, v, n, hm => by
    simp only [coerceVariables] at h
    cases hv : coerceVariable d (given d.name) with
    | error e => rw [hv] at h; cases h
    | ok a =>
      rw [hv] at h
      cases hr : coerceVariables given ds with
      | error e => rw [hr] at h; cases h
      | ok rest =>
        rw [hr] at h
        simp only [Except.ok.injEq] at h
        subst h
        rcases List.mem_cons.mp hm with e | hmem
        · simp only [Prod.mk.injEq] at e
          obtain ⟨_, e2⟩ := e
          subst e2
          exact coerceVariable_int32 d _ n hv
        · exact coerceVariables_int32 given ds rest hr v n hmem

theorem coerceArgument_int32 (m : List (String × ArgVal))
    (hm : ∀ v n, (v, ArgVal.int n) ∈ m → inInt32 n = true) (sp : Spelling) (n : Int)
    (h : coerceArgument false none (lookupVar m) sp = .ok (.int n)) : inInt32 n = true := by
  cases sp with
  | absent => simp [coerceArgument] at h
  | lit l =>
    cases l with
    | null => simp [coerceArgument, coerceLit] at h
    | int k =>
      by_cases hr : inInt32 k = true
      · simp [coerceArgument, coerceLit, hr] at h; subst h; exact hr
      · simp [coerceArgument, coerceLit, hr] at h
  | var v =>
    rw [coerceArgument_var] at h
    simp only [Except.ok.injEq] at h
    exact hm v n (lookupVar_int_mem m v n h)

/-- **conn_request_args_int32** — every integer a request's coercion hands to the cost function and the
    resolver as `first` / `last` fits 32 bits. -/
theorem conn_request_args_int32 (r : ConnRequest) (F L : ArgVal) (h : r.args = .ok (F, L)) :
    ∀ n, F = .int n ∨ L = .int n → -2147483648 ≤ n ∧ n ≤ 2147483647 := by
  unfold ConnRequest.args at h
  cases hm : coerceVariables r.given r.decls with
  | error e => rw [hm] at h; cases h
  | ok m =>
    rw [hm] at h
    simp only at h
    have h32 := coerceVariables_int32 r.given r.decls m hm
    cases hf : coerceArgument false none (lookupVar m) r.first with
    | error e => rw [hf] at h; cases h
    | ok f =>
      cases hl : coerceArgument false none (lookupVar m) r.last with
      | error e => rw [hf, hl] at h; cases h
      | ok l =>
        rw [hf, hl] at h
        simp only [Except.ok.injEq, Prod.mk.injEq] at h
        obtain ⟨e1, e2⟩ := h
        subst e1; subst e2
        intro n hn
        have : inInt32 n = true := by
          rcases hn with e | e
          · subst e; exact coerceArgument_int32 m h32 r.first n hf
          · subst e; exact coerceArgument_int32 m h32 r.last n hl
        simp only [inInt32, Bool.and_eq_true, decide_eq_true_eq] at this
        exact this

/-- **conn_request_generated_resolver** — for every request (names declared once, coercion succeeds): the
    resolver code translated from pagination.go answers with an error exactly when the request denotes
    no valid limit (independent reading `ConnRequest.limit`), and otherwise computes, without panic, a
    `limit` that allows exactly the number of edges the request's count was charged for. -/
theorem conn_request_generated_resolver (r : ConnRequest) (hn : (r.decls.map (·.name)).Nodup) (F L : ArgVal)
    (h : r.args = .ok (F, L)) :
    (∀ msg, GeneratedConn.resolveGuard (argsOf F L) = some msg → r.limit = none) ∧
    (GeneratedConn.resolveGuard (argsOf F L) = none →
      ∃ l, GeneratedConn.resolveLimit (argsOf F L) = some l ∧ r.limit = some (edgesOfLimit l) ∧
        edgesOfLimit l = r.count) := by
  obtain ⟨h1, h2⟩ := generated_resolver_reading_eq F L (conn_request_args_int32 r F L h)
  obtain ⟨hlim, hcount⟩ := conn_request_resolver_limit r hn F L h
  refine ⟨fun msg hg => by rw [← hlim]; exact h1 msg hg, fun hg => ?_⟩
  obtain ⟨l, hl, he⟩ := h2 hg
  refine ⟨l, hl, by rw [← hlim]; exact he, ?_⟩
  exact (hcount _ (by rw [← hlim]; exact he)).1

end ApiFu.C14
