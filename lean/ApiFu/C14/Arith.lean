/-
  C14 — facts about the *generated* arithmetic (Generated.lean, translated from the current
  source of validate_cost.go). If the source changes, these proofs are re-checked against the new
  translation. Core Lean only.
-/
import ApiFu.C14.Generated

namespace ApiFu.C14
open Generated

/-- A Go `int` value. -/
def InInt (x : Int) : Prop := -9223372036854775808 ≤ x ∧ x ≤ 9223372036854775807

theorem wrap64_id {x : Int} (h : InInt x) : wrap64 x = x := by
  unfold InInt at h; unfold wrap64; omega

theorem wrap64_range (x : Int) : InInt (wrap64 x) := by
  unfold InInt wrap64; omega

/-- `wrap64 x` differs from `x` by a multiple of 2^64. -/
theorem wrap64_congr (x : Int) : ∃ k : Int, wrap64 x = x - k * 18446744073709551616 := by
  refine ⟨(x + 9223372036854775808) / 18446744073709551616, ?_⟩
  unfold wrap64; omega

/-- Truncated division by a positive divisor does not leave the `int` range. -/
theorem tdiv_range {c b : Int} (hc : InInt c) (hb : 1 ≤ b) : InInt (c.tdiv b) := by
  unfold InInt at *
  have hd := Int.mul_tdiv_add_tmod c b
  by_cases hc0 : 0 ≤ c
  · have hq0 : 0 ≤ c.tdiv b := Int.tdiv_nonneg hc0 (by omega)
    have hm0 : 0 ≤ c.tmod b := Int.tmod_nonneg b hc0
    have := Int.mul_le_mul_of_nonneg_right hb hq0
    omega
  · have hq0 : c.tdiv b ≤ 0 := by
      have := Int.tdiv_nonneg (show 0 ≤ -c by omega) (show 0 ≤ b by omega)
      rw [Int.neg_tdiv] at this; omega
    have hm0 : c.tmod b ≤ 0 := by
      have := Int.tmod_nonneg b (show 0 ≤ -c by omega)
      rw [Int.neg_tmod] at this; omega
    have := Int.mul_le_mul_of_nonpos_right hb hq0
    omega

/-- The heart of the overflow test `c/b != a` (validate_cost.go): for `a, b ≥ 2` in range, the
    truncated quotient of the *wrapped* product by `b` gives `a` back exactly when the exact
    product fits — the test is sound (never lets a wrapped product through) and complete (never
    flags a product that fits). -/
theorem div_test_iff {a b : Int} (ha : 2 ≤ a) (hb : 2 ≤ b) (ha' : a ≤ 9223372036854775807)
    (hb' : b ≤ 9223372036854775807) :
    goDiv (wrap64 (a * b)) b = a ↔ a * b ≤ 9223372036854775807 := by
  have hbpos : 0 < b := by omega
  have hab : 0 ≤ a * b := Int.mul_nonneg (by omega) (by omega)
  constructor
  · intro h
    unfold goDiv at h
    obtain ⟨k, hk⟩ := wrap64_congr (a * b)
    have hr := wrap64_range (a * b)
    generalize wrap64 (a * b) = c at *
    rw [wrap64_id (tdiv_range hr (by omega))] at h
    have hd := Int.mul_tdiv_add_tmod c b
    have hm1 : c.tmod b < b := Int.tmod_lt_of_pos c hbpos
    have hm2 : -b < c.tmod b := by
      have := Int.tmod_lt_of_pos (-c) hbpos
      rw [Int.neg_tmod] at this; omega
    rw [h, Int.mul_comm b a] at hd
    unfold InInt at hr
    omega
  · intro h
    have hin : InInt (a * b) := by unfold InInt; omega
    rw [wrap64_id hin]
    unfold goDiv
    rw [Int.mul_tdiv_cancel _ (by omega : b ≠ 0)]
    exact wrap64_id (by unfold InInt; omega)

/-- The exact specification of the multiplication with the sticky `-1` overflow marker, on Go
    `int` inputs. -/
def mulSpec (a b : Int) : Int :=
  if a = 0 ∨ b = 0 then 0
  else if a < 0 ∨ b < 0 then -1
  else if a * b ≤ 9223372036854775807 then a * b else -1

/-- The exact specification of the addition with the sticky `-1` overflow marker. -/
def addSpec (a b : Int) : Int :=
  if a < 0 ∨ b < 0 then -1
  else if a + b ≤ 9223372036854775807 then a + b else -1

theorem mul_eq_spec {a b : Int} (ha : InInt a) (hb : InInt b) :
    checkedNonNegativeMultiply a b = some (mulSpec a b) := by
  unfold InInt at ha hb
  -- the facts about the exact product that the case analysis needs (as disjunctions, for omega)
  have k0 : a < 0 ∨ b < 0 ∨ 0 ≤ a * b := by
    by_cases h1 : a < 0; · exact Or.inl h1
    by_cases h2 : b < 0; · exact Or.inr (Or.inl h2)
    exact Or.inr (Or.inr (Int.mul_nonneg (by omega) (by omega)))
  have k1 : a ≠ 1 ∨ a * b = b := by
    by_cases h : a = 1
    · subst h; right; omega
    · exact Or.inl h
  have k2 : b ≠ 1 ∨ a * b = a := by
    by_cases h : b = 1
    · subst h; right; omega
    · exact Or.inl h
  have k3 : a < 2 ∨ b < 2 ∨ (goDiv (wrap64 (a * b)) b = a ∧ a * b ≤ 9223372036854775807) ∨
      (goDiv (wrap64 (a * b)) b ≠ a ∧ a * b > 9223372036854775807) := by
    by_cases h1 : a < 2; · exact Or.inl h1
    by_cases h2 : b < 2; · exact Or.inr (Or.inl h2)
    have hiff := div_test_iff (a := a) (b := b) (by omega) (by omega) ha.2 hb.2
    by_cases hp : a * b ≤ 9223372036854775807
    · exact Or.inr (Or.inr (Or.inl ⟨hiff.mpr hp, hp⟩))
    · exact Or.inr (Or.inr (Or.inr ⟨fun h => hp (hiff.mp h), by omega⟩))
  -- the same test written the other way round (`c/a != b`) is equivalent; keep the fact at hand so
  -- that such a refactoring of the source still checks
  have k3' : a < 2 ∨ b < 2 ∨ (goDiv (wrap64 (a * b)) a = b ∧ a * b ≤ 9223372036854775807) ∨
      (goDiv (wrap64 (a * b)) a ≠ b ∧ a * b > 9223372036854775807) := by
    by_cases h1 : a < 2; · exact Or.inl h1
    by_cases h2 : b < 2; · exact Or.inr (Or.inl h2)
    have hiff := div_test_iff (a := b) (b := a) (by omega) (by omega) hb.2 ha.2
    rw [Int.mul_comm b a] at hiff
    by_cases hp : a * b ≤ 9223372036854775807
    · exact Or.inr (Or.inr (Or.inl ⟨hiff.mpr hp, hp⟩))
    · exact Or.inr (Or.inr (Or.inr ⟨fun h => hp (hiff.mp h), by omega⟩))
  have k4 : a * b < -9223372036854775808 ∨ a * b > 9223372036854775807 ∨ wrap64 (a * b) = a * b := by
    by_cases h1 : a * b < -9223372036854775808; · exact Or.inl h1
    by_cases h2 : a * b > 9223372036854775807; · exact Or.inr (Or.inl h2)
    exact Or.inr (Or.inr (wrap64_id (by unfold InInt; omega)))
  unfold checkedNonNegativeMultiply mulSpec
  dsimp only
  try simp only [Int.mul_comm b a]
  generalize goDiv (wrap64 (a * b)) b = q at *
  generalize goDiv (wrap64 (a * b)) a = q' at *
  generalize wrap64 (a * b) = c at *
  generalize a * b = p at *
  -- whatever other arithmetic the source does is linear: expose the wrap-around to omega
  try unfold wrap64
  repeat' split
  all_goals first | omega | (simp only [Option.some.injEq] <;> omega)

theorem add_eq_spec {a b : Int} (ha : InInt a) (hb : InInt b) :
    checkedNonNegativeAdd a b = some (addSpec a b) := by
  unfold InInt at ha hb
  unfold checkedNonNegativeAdd addSpec wrap64
  repeat' split
  all_goals first | omega | (simp only [Option.some.injEq] <;> omega)

/-- The generated helpers never panic, for arbitrary integers (the division in the multiplication is
    only reached with a non-zero divisor). -/
theorem mul_isSome (a b : Int) : (checkedNonNegativeMultiply a b).isSome = true := by
  unfold checkedNonNegativeMultiply
  dsimp only
  repeat' split
  all_goals first | rfl | (exfalso; omega)

theorem add_isSome (a b : Int) : (checkedNonNegativeAdd a b).isSome = true := by
  unfold checkedNonNegativeAdd
  repeat' split
  all_goals first | rfl | (exfalso; omega)

end ApiFu.C14
