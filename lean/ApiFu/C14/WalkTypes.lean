/-
  C14 — the vocabulary of the *generated* cost walk (GeneratedWalk.lean, written by tools/c14facts from
  the current source of validate_cost.go on every check). Hand-written, fixed; core Lean only.

  How the translator represents what the Go closure touches:
    * `cost` (`var cost int`)                         → `GSt.cost : Int`
    * `multipliers` / `ctxs` (slices used only as stacks: `xs[len(xs)-1]`, `xs[:len(xs)-1]`,
      `append(xs, v)` — any other use is refused)     → `List`, **head = last slice element**; the two
      index/slice expressions panic on an empty slice, which is an explicit `.error (.panic …)` branch
    * `fragments` (`map[string]struct{}` used as a set: `_, ok := m[k]`, `m[k] = struct{}{}`,
      `delete(m, k)`)                                 → `List String` through `GoSet`
    * `ret` (`[]*Error`, only appended to and measured with `len`) → `List GErr`
    * `context.Context`                               → the cost-context type `κ` of the model
    * the `ast.Node` handed to the callback           → `Option (NodeView κ)` (`none` = the `nil` that
      `ast.Inspect` passes after a node's children)
    * `typeInfo.FieldDefinitions[selection]`, `CoerceArgumentValues(…)`, `def.Cost` → the three
      observations in `FieldView` (the parameters of the model, C05 / typeInfo)
-/
import ApiFu.C14.Model

namespace ApiFu.C14

/-- An element of `ret`: `newSecondaryError(node, msg)` or `newError(node, format, args…)`. -/
structure GErr where
  secondary : Bool
  msg : String
  args : List Int
  deriving Repr, DecidableEq

def GErr.newSecondaryError (msg : String) : GErr := { secondary := true, msg := msg, args := [] }
def GErr.newError (format : String) (args : List Int) : GErr := { secondary := false, msg := format, args := args }

/-- The variables the `ast.Inspect` callback of `ValidateCost` captures and assigns. -/
structure GSt (κ : Type) where
  cost : Int
  multipliers : List Int
  ctxs : List κ
  fragments : List String
  ret : List GErr

/-- What the rule can learn about an `*ast.Field`. -/
structure FieldView (κ : Type) where
  /-- `_, ok := typeInfo.FieldDefinitions[selection]` -/
  hasDef : Bool
  /-- `_, err := CoerceArgumentValues(selection, def.Arguments, selection.Arguments, coercedVariableValues)`; `err != nil` -/
  argErr : Bool
  /-- `def.Cost` (`none` = nil) with the coerced arguments already substituted: a function of the
      `Context` of the `FieldCostContext` only. -/
  costFn : Option (κ → FieldCost κ)
  /-- `selection.Name.Name` -/
  name : String

/-- What the rule reads of an `*ast.FragmentSpread`. -/
structure SpreadView where
  /-- `selection.FragmentName.Name` -/
  fragmentName : String

/-- The dynamic type of the node as the type switch sees it. -/
inductive NodeView (κ : Type) where
  | field (selection : FieldView κ)
  | spread (selection : SpreadView)
  | other

/-- A Go `map[string]struct{}` used as a set, as a duplicate-free list. -/
def GoSet.mem (k : String) (m : List String) : Bool := m.contains k
def GoSet.insert (k : String) (m : List String) : List String := if m.contains k then m else k :: m
def GoSet.delete (k : String) (m : List String) : List String := m.filter (fun x => !(x == k))

/-- An element of `doc.Definitions` as the two loops of the rule see it (type assertions to
    `*ast.OperationDefinition` / `*ast.FragmentDefinition`; a fragment always has a name). -/
inductive DefView (κ : Type) where
  | operation (o : Op κ)
  | fragment (name : String) (d : Node κ)

/-- The definitions of a document: the model keeps operations and fragments apart; each of the two
    loops looks at one kind only, so their relative order is immaterial. -/
def defsOf {κ : Type} (doc : Doc κ) : List (DefView κ) :=
  doc.ops.map .operation ++ doc.frags.map (fun p => .fragment p.1 p.2)

/-- A Go `map[string]*T` that is only assigned to (`m[k] = v`) and looked up (`v, ok := m[k]`). -/
def GoMap.empty {α : Type} : String → Option α := fun _ => none
def GoMap.set {α : Type} (k : String) (v : α) (m : String → Option α) : String → Option α :=
  fun x => if x = k then some v else m x

/-- What the model's `CostSrc` says about a field, as the observations the Go code makes. -/
def fieldView {κ : Type} : CostSrc κ → FieldView κ
  | .typename => { hasDef := false, argErr := false, costFn := none, name := "__typename" }
  | .unknown => { hasDef := false, argErr := false, costFn := none, name := "" }
  | .argError => { hasDef := true, argErr := true, costFn := none, name := "" }
  | .default => { hasDef := true, argErr := false, costFn := none, name := "" }
  | .fn f => { hasDef := true, argErr := false, costFn := some f, name := "" }

end ApiFu.C14
