/-
  C14 — executable model of `validator.ValidateCost` (graphql/validator/validate_cost.go:42-165)
  as it is written (with repo-patches/C14/01 applied: the arithmetic is *generated* from the
  current source, see Generated.lean).

  What is abstract (a parameter of the model, supplied by the harness / quantified in the theorems):
    * the document is a tree of `Node`s in the shape `ast.Inspect` walks it: `field` (ast.Field),
      `spread` (ast.FragmentSpread) and `other` (every other node kind: OperationDefinition,
      SelectionSet, InlineFragment, Name, Argument, Directive, values … — they all take the default
      branch of the type switch). Children are in `ast.Inspect` order.
    * what `typeInfo.FieldDefinitions[selection]`, `CoerceArgumentValues` and `def.Cost` give for a
      field is its `CostSrc`: no definition (`__typename` or another name), an argument-coercion
      error, no cost function (→ the rule's `defaultCost`), or a cost function. Argument values are
      already substituted, so a cost function is a function of the cost *context* only; the context
      is an arbitrary type `κ` (Go: `context.Context`).
    * `CoerceVariableValues` succeeded or not (`varsOk`).
  What is modelled literally: operation choice (lines 46-57), the fragment table with later
  definitions overwriting earlier ones (59-64), the `multipliers` / `ctxs` stacks pushed and popped
  in step with `ast.Inspect` including the index-out-of-range panic of an empty stack (76-90,
  135-136, 83-87), the field branch (96-118), the spread branch with the by-name guard (119-129),
  the abort once `ret` is non-empty (131-133), and the limit test / `actual` (145-161).
  One simplification: once `ret` is non-empty the real walk still visits the remaining siblings
  (their results are discarded: `actual` is not written and only `ret` is returned); the model stops
  at the first error. Core Lean only.
-/
import ApiFu.C14.Generated

namespace ApiFu.C14

/-- `schema.FieldCost` (field_definition.go:23-36). `ctx = none` is a nil `Context`. -/
structure FieldCost (κ : Type) where
  ctx : Option κ
  resolver : Int
  multiplier : Int

/-- What the rule learns about a field selection (validate_cost.go:96-118). -/
inductive CostSrc (κ : Type) where
  /-- no definition and the name is `__typename`: nothing is charged (line 116). -/
  | typename
  /-- no definition, any other name: secondary error "unknown field type" (line 117). -/
  | unknown
  /-- `CoerceArgumentValues` failed: secondary error (line 98). -/
  | argError
  /-- `def.Cost == nil`: the rule's `defaultCost` (line 104). -/
  | default
  /-- `def.Cost(costContext)` with the coerced arguments substituted (line 106). -/
  | fn (f : κ → FieldCost κ)

/-- A document node as `ast.Inspect` sees it. -/
inductive Node (κ : Type) where
  | field (src : CostSrc κ) (children : List (Node κ))
  | spread (name : String) (children : List (Node κ))
  | other (children : List (Node κ))

/-- Why a walk stopped early. -/
inductive Abort where
  /-- `ret` became non-empty (a secondary error). -/
  | secondary (msg : String)
  /-- a Go run-time panic (index out of range on an empty stack, integer divide by zero). -/
  | panic (what : String)
  /-- artefact of the model's fuel (proved unreachable: Props.walk_never_out_of_fuel). -/
  | outOfFuel
  deriving Repr, DecidableEq

/-- The mutable state of the walk: `cost`, `multipliers`, `ctxs` (stacks head = last slice element). -/
structure St (κ : Type) where
  cost : Int
  mults : List Int
  ctxs : List κ

/-- A generated arithmetic helper's result; `none` is a Go panic. -/
def liftArith (o : Option Int) : Except Abort Int :=
  match o with
  | some v => .ok v
  | none => .error (.panic "integer divide by zero")

def mul (a b : Int) : Except Abort Int := liftArith (Generated.checkedNonNegativeMultiply a b)
def add (a b : Int) : Except Abort Int := liftArith (Generated.checkedNonNegativeAdd a b)

/-- Lines 100-114: charge the field and compute what its sub-selections inherit. -/
def charge {κ : Type} (fc : FieldCost κ) (st : St κ) (m : Int) (c : κ) : Except Abort (St κ × Int × κ) :=
  mul m fc.resolver >>= fun prod =>
  add st.cost prod >>= fun cost =>
  (if fc.multiplier > 1 then mul m fc.multiplier else .ok m) >>= fun newM =>
  .ok ({ st with cost := cost }, newM, match fc.ctx with | some c' => c' | none => c)

/-- Lines 135-136. -/
def push {κ : Type} (st : St κ) (m : Int) (c : κ) : St κ :=
  { st with mults := m :: st.mults, ctxs := c :: st.ctxs }

/-- Lines 83-87 (`f(nil)` after the children): slicing an empty slice to `[:len-1]` panics. -/
def pop {κ : Type} (st : St κ) : Except Abort (St κ) :=
  match st.mults, st.ctxs with
  | _ :: ms, _ :: cs => .ok { st with mults := ms, ctxs := cs }
  | _, _ => .error (.panic "slice bounds out of range")

mutual
/-- One call of the `ast.Inspect` callback on `node` followed by its children and `f(nil)`.
    `onSpread` is what line 119-128 does with a fragment name (guard, lookup, nested walk). -/
def visit {κ : Type} (onSpread : String → St κ → Except Abort (St κ)) (dflt : FieldCost κ) :
    Node κ → St κ → Except Abort (St κ)
  | .field src children, st =>
    match st.mults, st.ctxs with
    | m :: _, c :: _ =>
      (match src with
        | .typename => .ok (st, m, c)
        | .unknown => .error (.secondary "unknown field type")
        | .argError => .error (.secondary "argument coercion")
        | .default => charge dflt st m c
        | .fn f => charge (f c) st m c) >>= fun r =>
      visitList onSpread dflt children (push r.1 r.2.1 r.2.2) >>= pop
    | _, _ => .error (.panic "index out of range")
  | .spread name children, st =>
    match st.mults, st.ctxs with
    | m :: _, c :: _ =>
      onSpread name st >>= fun st1 =>
      visitList onSpread dflt children (push st1 m c) >>= pop
    | _, _ => .error (.panic "index out of range")
  | .other children, st =>
    match st.mults, st.ctxs with
    | m :: _, c :: _ => visitList onSpread dflt children (push st m c) >>= pop
    | _, _ => .error (.panic "index out of range")
def visitList {κ : Type} (onSpread : String → St κ → Except Abort (St κ)) (dflt : FieldCost κ) :
    List (Node κ) → St κ → Except Abort (St κ)
  | [], st => .ok st
  | n :: ns, st => visit onSpread dflt n st >>= visitList onSpread dflt ns
end

/-- `fragmentsByName` (lines 59-64): a map filled in document order, so the *last* definition of a
    name wins. -/
def findFrag {κ : Type} : List (String × Node κ) → String → Option (Node κ)
  | [], _ => none
  | (n, d) :: rest, name =>
    match findFrag rest name with
    | some d' => some d'
    | none => if n = name then some d else none

/-- Lines 119-128. `visiting` is the `fragments` set: a name is inserted before the nested
    `visitNode(def)` and deleted after it, and it was not a member before (the guard), so the set
    seen by any node is exactly the names of the spreads being expanded around it. `recur` is the
    nested `visitNode` (absent when the model's fuel is exhausted). -/
def onSpreadWith {κ : Type} (frags : List (String × Node κ)) (visiting : List String)
    (recur : Option (List String → Node κ → St κ → Except Abort (St κ)))
    (name : String) (st : St κ) : Except Abort (St κ) :=
  if name ∈ visiting then .error (.secondary "fragment cycle detected")
  else match findFrag frags name with
    | none => .error (.secondary "undefined fragment")
    | some d =>
      match recur with
      | none => .error .outOfFuel
      | some r => r (name :: visiting) d st

/-- `visitNode` (lines 80-139). The Go recursion terminates because every nested expansion adds a
    new name to `fragments`; the model makes that explicit with `fuel` = number of fragment
    definitions (Props.walk_never_out_of_fuel: it never runs out). -/
def walk {κ : Type} (frags : List (String × Node κ)) (dflt : FieldCost κ) :
    Nat → List String → Node κ → St κ → Except Abort (St κ)
  | 0 => fun visiting node st => visit (onSpreadWith frags visiting none) dflt node st
  | fuel + 1 => fun visiting node st =>
      visit (onSpreadWith frags visiting (some (walk frags dflt fuel))) dflt node st

/-- An operation definition: its name (if any) and its node. -/
structure Op (κ : Type) where
  name : Option String
  node : Node κ

structure Doc (κ : Type) where
  ops : List (Op κ)
  frags : List (String × Node κ)

/-- Lines 46-57: the loop over the operation definitions; `op` is the loop's variable. A second
    match resets it to nil and leaves the loop. -/
def chooseOp {κ : Type} (opName : String) : List (Op κ) → Option (Op κ) → Option (Op κ)
  | [], op => op
  | d :: rest, op =>
    if opName = "" ∨ d.name = some opName then
      match op with
      | some _ => none
      | none => chooseOp opName rest (some d)
    else chooseOp opName rest op

/-- `executor.GetOperation` (graphql/executor/executor.go): the operation that is *executed* for a
    requested name — transliterated: a second match is the error "Multiple matching operations.", no
    match is "No matching operations."; `ret` is the loop's variable. -/
def executorGetOperation {κ : Type} (opName : String) : List (Op κ) → Option (Op κ) → Except String (Op κ)
  | [], none => .error "No matching operations."
  | [], some o => .ok o
  | d :: rest, ret =>
    if opName = "" ∨ d.name = some opName then
      match ret with
      | some _ => .error "Multiple matching operations."
      | none => executorGetOperation opName rest (some d)
    else executorGetOperation opName rest ret

inductive Verdict where
  | accepted
  /-- "operation cost is too high to calculate" -/
  | tooHigh
  /-- "operation cost of %v exceeds allowed cost of %v" -/
  | exceeds (cost max : Int)
  /-- only secondary errors were returned -/
  | secondary (msg : String)
  | panicked (what : String)
  | outOfFuel
  deriving Repr, DecidableEq

structure Result where
  verdict : Verdict
  /-- the value written to `*actual` (`none`: not written). -/
  actual : Option Int
  deriving Repr, DecidableEq

/-- The final `cost` of the rule: 0 without an operation, else the walk from `[1]`, `[Background]`. -/
def finalCost {κ : Type} (ctx0 : κ) (opName : String) (varsOk : Bool) (dflt : FieldCost κ)
    (doc : Doc κ) : Except Abort Int :=
  match chooseOp opName doc.ops none with
  | none => .ok 0
  | some o =>
    if varsOk then
      walk doc.frags dflt doc.frags.length [] o.node { cost := 0, mults := [1], ctxs := [ctx0] }
        >>= fun st => .ok st.cost
    else .error (.secondary "variable coercion")

/-- Lines 145-161. -/
def report (max : Int) (cost : Int) : Result :=
  { actual := some (if cost < 0 then Generated.maxInt else cost)
    verdict :=
      if max ≥ 0 then
        if cost < 0 then .tooHigh
        else if cost > max then .exceeds cost max
        else .accepted
      else .accepted }

/-- The whole rule. -/
def validateCost {κ : Type} (ctx0 : κ) (opName : String) (varsOk : Bool) (max : Int)
    (dflt : FieldCost κ) (doc : Doc κ) : Result :=
  match finalCost ctx0 opName varsOk dflt doc with
  | .ok cost => report max cost
  | .error (.secondary m) => { verdict := .secondary m, actual := none }
  | .error (.panic w) => { verdict := .panicked w, actual := none }
  | .error .outOfFuel => { verdict := .outOfFuel, actual := none }

/-! ### Connections with their default costs (pagination.go:226-235, 264-274, 434-442) -/

/-- What `ctx.Arguments[name]` holds for an `Int` argument of a connection: the key is absent (the
    argument was omitted, or given by a variable without a value, and has no default), present with
    a nil value (explicit `null` literal or a null-valued variable), or present with an int. -/
inductive ArgVal where
  | absent
  | null
  | int (n : Int)
  deriving Repr, DecidableEq

/-- Go's `v, ok := ctx.Arguments[name].(int)`: only an int passes the assertion — a missing key and a
    nil value both give `ok = false`. -/
def ArgVal.asInt : ArgVal → Option Int
  | .int n => some n
  | _ => none

/-- `defaultConnectionCost` (pagination.go:226-235), literally:
    `maxCount, _ := Arguments["first"].(int); if last, ok := Arguments["last"].(int); ok { maxCount = last }`. -/
def connMaxCount (first last : ArgVal) : Int :=
  match last.asInt with
  | some l => l
  | none =>
    match first.asInt with
    | some f => f
    | none => 0

/-- The cost context as far as the cost functions in play can see it: the value under the
    application's own key and the value under pagination.go's `maxEdgeCountContextKey`.
    `context.WithValue(parent, key, v)` replaces one and **keeps the other**. -/
abbrev Ctx := Int × Int

/-- `defaultConnectionCost`: resolver cost 1; the context handed down is the context the connection
    field *received* with the max edge count added (`context.WithValue(ctx.Context, …)`): whatever an
    ancestor's cost function put there stays visible below the connection. -/
def connectionCost (first last : ArgVal) : Ctx → FieldCost Ctx :=
  fun k => { ctx := some (k.1, connMaxCount first last), resolver := 1, multiplier := 0 }

/-- The `edges` field (pagination.go:434-442): resolver cost 0, multiplier = the context's max edge count. -/
def edgesCost : Ctx → FieldCost Ctx :=
  fun k => { ctx := none, resolver := 0, multiplier := k.2 }

/-- The connection resolver's own reading of the arguments (pagination.go `ret.Resolve`, first lines):
    the number of edges it may return (`limit - 1`), or `none` when it answers with an error (negative
    count, both given as ints, neither given as an int) and returns no connection at all. A nil
    `first` / `last` fails the `.(int)` assertion there exactly as a missing one does. -/
def resolverEdgeLimit (first last : ArgVal) : Option Int :=
  match first.asInt with
  | some f => if f < 0 then none else match last.asInt with | some _ => none | none => some f
  | none =>
    match last.asInt with
    | some l => if l < 0 then none else some l
    | none => none

/-- Whether `ParseAndValidate` returns no error for this rule. -/
def Result.accepted (r : Result) : Bool := r.verdict == .accepted

end ApiFu.C14
