/-
  C14 — the property theorems stated about the **generated** cost walk.

  `GeneratedWalk.opLoop` / `fragLoop` (the two loops over the document's definitions: operation choice with
  its `break`, the fragment table), `GeneratedWalk.callback` (the `ast.Inspect` callback of `ValidateCost`: stack reads, the field / spread
  / other decision tree, the per-field combination of resolver cost, multiplier, context and default
  cost with its saturating arithmetic, push and pop) and `GeneratedWalk.finish` (the limit comparison
  and the write to `*actual`) are translated by tools/c14facts from the current
  graphql/validator/validate_cost.go on every check, as is the body of the rule itself (`GeneratedWalk.rule`:
  the declarations, the two loops, the `CoerceVariableValues` guard, the start condition of the walk, the
  call of the final block); `gvalidateCost` (WalkGlue.lean) instantiates `visitNode` with the fixed frame of
  `ast.Inspect` around the generated callback. `generated_walk_eq_model` shows that this is the hand-written model, so
  every theorem of Props.lean is a theorem about the generated definitions; the main ones are restated
  here. A change of the Go source changes GeneratedWalk.lean, and these are the proofs that are
  re-checked.
-/
import ApiFu.C14.WalkEq
import ApiFu.C14.Props

namespace ApiFu.C14
open GeneratedWalk

/-- **generated_walk_eq_model** — the rule assembled from the generated callback and the generated
    final block computes, for every context type, document tree, cost functions (any integers),
    operation name, outcome of variable coercion, limit and default cost, exactly the `Result` of the
    hand-written model `validateCost` (which the harness compares with the real rule on every run). -/
theorem generated_walk_eq_model {κ : Type} (ctx0 : κ) (opName : String) (varsOk : Bool) (max : Int)
    (dflt : FieldCost κ) (doc : Doc κ) :
    gvalidateCost ctx0 opName varsOk max dflt doc = validateCost ctx0 opName varsOk max dflt doc :=
  gvalidateCost_eq ctx0 opName varsOk max dflt doc

/-- **generated_operation_choice_eq** — the operation-choice loop translated from the source (`for _, def
    := range doc.Definitions`: type assertion, `operationName == "" || (def.Name != nil && def.Name.Name ==
    operationName)`, a second match resets `op` to nil and **breaks**) is the model's `chooseOp` — which
    `charged_operation_is_executed_operation` proves equal to the executor's `GetOperation`. -/
theorem generated_operation_choice_eq {κ : Type} (opName : String) (doc : Doc κ) :
    opLoop opName (defsOf doc) none = chooseOp opName doc.ops none :=
  opLoop_doc_eq opName doc

/-- **generated_fragment_table_eq** — the fragment-table loop translated from the source builds exactly
    the lookup the model uses: of several definitions with one name the last one wins. -/
theorem generated_fragment_table_eq {κ : Type} (doc : Doc κ) :
    fragLoop (defsOf doc) GoMap.empty = findFrag doc.frags :=
  fragLoop_eq doc

/-- **generated_rule_without_operation** — the body of the rule as translated from the source: when the
    requested name chooses no operation (none matches, or — with `break` — more than one) nothing is
    coerced and nothing is walked, whatever the request's variables are; the final block sees cost 0. -/
theorem generated_rule_without_operation {κ : Type} (bg : κ) (opName : String) (max : Int) (an vc : Bool)
    (defs : List (DefView κ))
    (V : Bool → (String → Option (Node κ)) → Node κ → GSt κ → Except Abort (GSt κ))
    (h : opLoop opName defs none = none) :
    rule bg opName max an vc defs V = .ok (finish max an 0 []) := by
  unfold rule
  simp [h]

/-- **generated_rule_rejects_bad_variables** — with an operation chosen and variables that
    `CoerceVariableValues` rejects, the translated rule never starts the walk (no cost function runs),
    returns exactly the secondary error and leaves `*actual` unwritten. -/
theorem generated_rule_rejects_bad_variables {κ : Type} (bg : κ) (opName : String) (max : Int) (an : Bool)
    (defs : List (DefView κ))
    (V : Bool → (String → Option (Node κ)) → Node κ → GSt κ → Except Abort (GSt κ)) (o : Op κ)
    (h : opLoop opName defs none = some o) :
    rule bg opName max an false defs V = .ok ([GErr.newSecondaryError "variable coercion"], none) := by
  unfold rule
  simp [h, GErr.newSecondaryError, finish_after_error]

/-- **generated_field_step** — what the generated callback does on a field selection, in the model's
    terms: with `m`, `c` on top of the stacks it charges `charge` (`cost ⊕ m ⊗ resolver`, the new
    multiplier `m ⊗ Multiplier` only if `Multiplier > 1`, the new context only if non-nil; default cost
    when the field has no cost function; `__typename` free; no definition / argument error → a
    secondary error and the walk stops), pushes the new multiplier and context for the children
    (`rest`) and pops them in the `nil` call (`leave`); on an empty stack it panics. -/
theorem generated_field_step {κ : Type} (dflt : FieldCost κ) (fb : String → Option (Node κ))
    (V : Node κ → GSt κ → Except Abort (GSt κ)) (v : List String) (src : CostSrc κ) (st : St κ)
    (rest : GSt κ → Except Abort (GSt κ)) (leave : GSt κ → Except Abort (GSt κ × Bool)) :
    afterEnter leave (callback dflt true fb V (some (.field (fieldView src))) (emb v st)) rest =
      match st.mults, st.ctxs with
      | m :: _, c :: _ =>
        (match src with
          | .typename => .ok (st, m, c)
          | .unknown => .error (.secondary "unknown field type")
          | .argError => .error (.secondary "argument coercion")
          | .default => charge dflt st m c
          | .fn f => charge (f c) st m c) >>= fun r =>
        rest (emb v (push r.1 r.2.1 r.2.2)) >>= fun s2 => leave s2 >>= fun r => .ok r.1
      | _, _ => .error (.panic "index out of range") :=
  enter_field dflt fb V v src st rest leave

/-- **generated_spread_step** — the generated spread branch is the model's `onSpreadWith`: a name in the
    `fragments` set is the secondary error "fragment cycle detected", an unknown name "undefined
    fragment", otherwise the name is inserted, the definition walked with the *same* stacks (so the
    multiplier and context of the spread's position apply inside the fragment), and the name deleted
    again — the set seen afterwards is the set seen before. -/
theorem generated_spread_step {κ : Type} (dflt : FieldCost κ) (frags : List (String × Node κ))
    (V : Node κ → GSt κ → Except Abort (GSt κ))
    (recur : Option (List String → Node κ → St κ → Except Abort (St κ))) (hV : VAgrees V recur)
    (v : List String) (name : String) (st : St κ)
    (rest : GSt κ → Except Abort (GSt κ)) (leave : GSt κ → Except Abort (GSt κ × Bool)) :
    afterEnter leave
        (callback dflt true (findFrag frags) V (some (.spread { fragmentName := name })) (emb v st)) rest =
      match st.mults, st.ctxs with
      | m :: _, c :: _ =>
        onSpreadWith frags v recur name st >>= fun st1 =>
        rest (emb v (push st1 m c)) >>= fun s2 => leave s2 >>= fun r => .ok r.1
      | _, _ => .error (.panic "index out of range") :=
  enter_spread dflt frags V recur hV v name st rest leave

/-- **generated_other_step** — every other node kind (operation definition, selection set, *inline
    fragment*, name, argument, directive, value) re-pushes the current multiplier and context unchanged:
    an inline fragment, with or without type condition, neither charges nor changes what its
    selections inherit. -/
theorem generated_other_step {κ : Type} (dflt : FieldCost κ) (b : Bool) (fb : String → Option (Node κ))
    (V : Node κ → GSt κ → Except Abort (GSt κ)) (v : List String) (st : St κ) :
    callback dflt b fb V (some .other) (emb v st) =
      match st.mults, st.ctxs with
      | m :: _, c :: _ => .ok (emb v (push st m c), true)
      | _, _ => .error (.panic "index out of range") :=
  cb_other dflt b fb V v st

/-- **generated_finish_spec** — the generated final block, for every limit, cost and `actual` pointer:
    when `ret` is empty, `*actual` is written iff the pointer is non-nil, with `maxInt` for the overflow
    marker (any negative cost) and the cost otherwise — *before* and independently of the limit test;
    the request is rejected iff `max ≥ 0` and (the cost is the marker, or `cost > max`): `max = -1` and
    every other negative `max` mean "no limit"; a cost equal to the limit is accepted. -/
theorem generated_finish_spec (max cost : Int) (actualNonNil : Bool) :
    finish max actualNonNil cost [] =
      (if max ≥ 0 then
          if cost < 0 then [GErr.newError "operation cost is too high to calculate" []]
          else if cost > max then [GErr.newError "operation cost of %v exceeds allowed cost of %v" [cost, max]]
          else []
        else [],
       if actualNonNil then some (if cost < 0 then 9223372036854775807 else cost) else none) :=
  finish_spec max cost actualNonNil

/-- **generated_finish_after_error** — with a non-empty `ret` (secondary errors of the walk or of
    variable coercion) the final block writes nothing to `*actual` and adds no error. -/
theorem generated_finish_after_error (max cost : Int) (actualNonNil : Bool) (e : GErr) (es : List GErr) :
    finish max actualNonNil cost (e :: es) = (e :: es, none) :=
  finish_after_error max cost actualNonNil e es

/-- **generated_initial_values** — `cost` starts at 0, the multiplier stack at `[1]`, the context stack
    at `[context.Background()]`, the `fragments` set empty (read from the declarations in the source). -/
theorem generated_initial_values {κ : Type} (bg : κ) :
    initCost = 0 ∧ initMultipliers = [1] ∧ initCtxs bg = [bg] ∧ initFragments = [] :=
  ⟨rfl, rfl, rfl, rfl⟩

/-- **gen_cost_eq_sat_ref** — `cost_eq_sat_ref` about the generated rule: for every validated request
    the value written to `*actual` is exactly `min(refCost, maxInt)`. -/
theorem gen_cost_eq_sat_ref {κ : Type} (ctx0 : κ) (opName : String) (max : Int) (dflt : FieldCost κ)
    (doc : Doc κ) (hdoc : doc.OK) (hd : dflt.OK) (R : Nat)
    (href : Spec.refCost ctx0 opName dflt doc = some R) :
    (gvalidateCost ctx0 opName true max dflt doc).actual = some (min (R : Int) 9223372036854775807) := by
  rw [gvalidateCost_eq]; exact cost_eq_sat_ref ctx0 opName max dflt doc hdoc hd R href

/-- **gen_accept_iff** — `accept_iff` about the generated rule: under a limit `max ∈ {−1} ∪ [0, maxInt]`
    it accepts exactly when `max = −1` or the reference cost (unbounded ℕ) is within the limit. -/
theorem gen_accept_iff {κ : Type} (ctx0 : κ) (opName : String) (max : Int) (hmax : -1 ≤ max)
    (hmax' : max ≤ 9223372036854775807)
    (dflt : FieldCost κ) (doc : Doc κ) (hdoc : doc.OK) (hd : dflt.OK) (R : Nat)
    (href : Spec.refCost ctx0 opName dflt doc = some R) :
    (gvalidateCost ctx0 opName true max dflt doc).accepted = true ↔ (max = -1 ∨ (R : Int) ≤ max) := by
  rw [gvalidateCost_eq]; exact accept_iff ctx0 opName max hmax hmax' dflt doc hdoc hd R href

/-- **gen_overflow_rejected** — a reference cost beyond maxInt is rejected by the generated rule under
    every limit `max ≥ 0` and reported as maxInt. -/
theorem gen_overflow_rejected {κ : Type} (ctx0 : κ) (opName : String) (max : Int) (hmax : 0 ≤ max)
    (dflt : FieldCost κ) (doc : Doc κ) (hdoc : doc.OK) (hd : dflt.OK) (R : Nat)
    (href : Spec.refCost ctx0 opName dflt doc = some R) (hbig : (9223372036854775807 : Int) < R) :
    gvalidateCost ctx0 opName true max dflt doc =
      { verdict := .tooHigh, actual := some 9223372036854775807 } := by
  rw [gvalidateCost_eq]; exact overflow_rejected ctx0 opName max hmax dflt doc hdoc hd R href hbig

/-- **gen_never_undercount** — what the generated rule reports is at least `min(refCost, maxInt)`. -/
theorem gen_never_undercount {κ : Type} (ctx0 : κ) (opName : String) (max : Int) (dflt : FieldCost κ)
    (doc : Doc κ) (hdoc : doc.OK) (hd : dflt.OK) (R : Nat)
    (href : Spec.refCost ctx0 opName dflt doc = some R) (a : Int)
    (ha : (gvalidateCost ctx0 opName true max dflt doc).actual = some a) :
    min (R : Int) 9223372036854775807 ≤ a := by
  rw [gvalidateCost_eq] at ha; exact never_undercount ctx0 opName max dflt doc hdoc hd R href a ha

/-- **gen_never_panics** — for every document and arbitrary integers from the cost functions the
    generated rule does not panic: the generated stack reads and slices are never reached with an
    empty stack, the generated arithmetic never divides by zero — and it never runs out of fuel. -/
theorem gen_never_panics {κ : Type} (ctx0 : κ) (opName : String) (varsOk : Bool) (max : Int)
    (dflt : FieldCost κ) (doc : Doc κ) (w : String) :
    (gvalidateCost ctx0 opName varsOk max dflt doc).verdict ≠ .panicked w ∧
    (gvalidateCost ctx0 opName varsOk max dflt doc).verdict ≠ .outOfFuel := by
  rw [gvalidateCost_eq]
  exact ⟨never_panics ctx0 opName varsOk max dflt doc w, walk_never_out_of_fuel ctx0 opName varsOk max dflt doc⟩

/-- **gen_validated_cost_exact** — the property for validated requests, about the generated rule. -/
theorem gen_validated_cost_exact {κ : Type} (ctx0 : κ) (opName : String) (max : Int) (hmax : -1 ≤ max)
    (hmax' : max ≤ 9223372036854775807) (dflt : FieldCost κ) (doc : Doc κ) (order : List String)
    (hv : doc.Valid order) (hdoc : doc.OK) (hd : dflt.OK) :
    ∃ R : Nat, Spec.refCost ctx0 opName dflt doc = some R ∧
      (gvalidateCost ctx0 opName true max dflt doc).actual = some (min (R : Int) 9223372036854775807) ∧
      ((gvalidateCost ctx0 opName true max dflt doc).accepted = true ↔ (max = -1 ∨ (R : Int) ≤ max)) := by
  rw [gvalidateCost_eq]; exact validated_cost_exact ctx0 opName max hmax hmax' dflt doc order hv hdoc hd

-- non-vacuity: the generated rule run by the kernel on the documents of Props.lean
example : gvalidateCost (0 : Int) "" true 132 { ctx := none, resolver := 1, multiplier := 0 } exDoc =
    { verdict := .exceeds 133 132, actual := some 133 } := by decide +kernel
example : gvalidateCost (0 : Int) "" true 133 { ctx := none, resolver := 1, multiplier := 0 } exDoc =
    { verdict := .accepted, actual := some 133 } := by decide +kernel
example : gvalidateCost (0 : Int) "" true 9223372036854775807 { ctx := none, resolver := 1, multiplier := 0 }
    overflowDoc = { verdict := .tooHigh, actual := some 9223372036854775807 } := by decide +kernel
example : finish (-1) true (-1) [] = ([], some 9223372036854775807) := by decide
example : finish 5 false 6 [] = ([GErr.newError "operation cost of %v exceeds allowed cost of %v" [6, 5]], none) := by
  decide

end ApiFu.C14
