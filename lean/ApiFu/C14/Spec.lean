/-
  C14 — reference semantics of the operation cost, written from the property statement and
  independent of the implementation's mechanics: no stacks, no overflow marker, no error plumbing.

    refCost = Σ over every field selection reached by expanding fragments from the chosen operation
              of  (resolver cost of the field) × Π (multipliers declared by its ancestor fields)

  in unbounded naturals. The multiplier of a field is "1 if not set" (field_definition.go:31-35):
  any value ≤ 1 counts as 1. Cost contexts are handed from a field to its descendants (through
  fragments); `__typename` has no resolver and costs nothing. `none` means the document is outside
  the property's domain: it is not a validated document (a spread of an undefined fragment, a
  fragment that is reached again while it is being expanded, a field without a definition / with
  un-coercible arguments). Core Lean only.
-/
import ApiFu.C14.Model

namespace ApiFu.C14.Spec
open ApiFu.C14

/-- "Defaults to 1 if not set". -/
def effMul (m : Int) : Nat := if m > 1 then m.toNat else 1

mutual
/-- Cost of the sub-tree at `node` under the product `M` of the ancestors' multipliers and the
    cost context `c` handed down by the nearest ancestor that set one. `expand` gives the cost of
    the fragment spread by a name at this position. -/
def refNode {κ : Type} (expand : String → Nat → κ → Option Nat) (dflt : FieldCost κ) (M : Nat) (c : κ) :
    Node κ → Option Nat
  | .field src children =>
    match src with
    | .typename => refList expand dflt M c children
    | .unknown => none
    | .argError => none
    | .default =>
      (refList expand dflt (M * effMul dflt.multiplier) (dflt.ctx.getD c) children).map
        (fun below => M * dflt.resolver.toNat + below)
    | .fn f =>
      (refList expand dflt (M * effMul (f c).multiplier) ((f c).ctx.getD c) children).map
        (fun below => M * (f c).resolver.toNat + below)
  | .spread name children =>
    match expand name M c, refList expand dflt M c children with
    | some a, some b => some (a + b)
    | _, _ => none
  | .other children => refList expand dflt M c children
def refList {κ : Type} (expand : String → Nat → κ → Option Nat) (dflt : FieldCost κ) (M : Nat) (c : κ) :
    List (Node κ) → Option Nat
  | [] => some 0
  | n :: ns =>
    match refNode expand dflt M c n, refList expand dflt M c ns with
    | some a, some b => some (a + b)
    | _, _ => none
end

/-- Fragment expansion: the fragment must be defined and must not be one of those being expanded
    around this position (`path`) — validated documents satisfy both (Props.ranked_ref_isSome). -/
def expandWith {κ : Type} (frags : List (String × Node κ)) (path : List String)
    (recur : Option (List String → Nat → κ → Node κ → Option Nat)) (name : String) (M : Nat) (c : κ) :
    Option Nat :=
  if name ∈ path then none
  else match findFrag frags name, recur with
    | some d, some r => r (name :: path) M c d
    | _, _ => none

/-- `depth` bounds the nesting of fragment expansions (a document with `n` fragment definitions
    cannot nest more than `n` distinct ones). -/
def ref {κ : Type} (frags : List (String × Node κ)) (dflt : FieldCost κ) :
    Nat → List String → Nat → κ → Node κ → Option Nat
  | 0 => fun path M c node => refNode (expandWith frags path none) dflt M c node
  | depth + 1 => fun path M c node =>
      refNode (expandWith frags path (some (ref frags dflt depth))) dflt M c node

/-- The chosen operation: the only one that matches the requested name (every operation matches the
    empty name). -/
def chosen {κ : Type} (opName : String) (ops : List (Op κ)) : Option (Op κ) :=
  match ops.filter (fun d => opName == "" || d.name == some opName) with
  | [o] => some o
  | _ => none

/-- The reference cost of a request: 0 when no operation is chosen (nothing will be executed). -/
def refCost {κ : Type} (ctx0 : κ) (opName : String) (dflt : FieldCost κ) (doc : Doc κ) : Option Nat :=
  match chosen opName doc.ops with
  | none => some 0
  | some o => ref doc.frags dflt doc.frags.length [] 1 ctx0 o.node

end ApiFu.C14.Spec
