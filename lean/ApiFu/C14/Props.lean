/-
  C14 — property theorems.

  Arithmetic: about `Generated.checkedNonNegativeMultiply / checkedNonNegativeAdd`, the literal
  translation of the *current* source (regenerated on every check).
  Cost walk: about `validateCost` (Model.lean), for every cost-context type `κ`, every document tree,
  every family of cost functions with resolver costs in [0, maxInt] and Go-int multipliers
  (`Doc.OK`, `FieldCost.OK`), every operation name, default cost and limit.
  `Spec.refCost` is the reference: Σ resolver × Π ancestor multipliers over the fragment-expanded
  chosen operation, in unbounded ℕ; `none` = not a validated document.
-/
import ApiFu.C14.Lemmas

namespace ApiFu.C14
open Generated

/-! ## Arithmetic (validate_cost.go:15-37) -/

/-- **checkedMul_spec** — on non-negative Go ints the helper returns the exact product when it is
    representable and the overflow marker −1 otherwise: the `c/b != a` test is sound (no wrapped
    product is ever returned) and complete (no representable product is flagged). It never panics
    (`some`): the division is only reached with `b ≥ 2`. -/
theorem checkedMul_spec (a b : Int) (ha : 0 ≤ a) (hb : 0 ≤ b) (ha' : a ≤ 9223372036854775807)
    (hb' : b ≤ 9223372036854775807) :
    checkedNonNegativeMultiply a b = some (if a * b ≤ 9223372036854775807 then a * b else -1) := by
  rw [mul_eq_spec ⟨by omega, ha'⟩ ⟨by omega, hb'⟩]
  unfold mulSpec
  have hneg : ¬ (a < 0 ∨ b < 0) := by omega
  by_cases h0 : a = 0 ∨ b = 0
  · rcases h0 with h | h <;> simp [h]
  · simp [h0, hneg]

/-- **checkedMul_negative** — a negative argument (the overflow marker of an earlier step) gives the
    marker again, unless the other argument is zero: zero times anything is zero (this is the
    behaviour after repo-patches/C14/01; before it `mul (-1) 0 = -1`, finding F-14a). -/
theorem checkedMul_negative (a b : Int) (ha : InInt a) (hb : InInt b) (hneg : a < 0 ∨ b < 0) :
    checkedNonNegativeMultiply a b = some (if a = 0 ∨ b = 0 then 0 else -1) := by
  rw [mul_eq_spec ha hb]
  unfold mulSpec
  by_cases h0 : a = 0 ∨ b = 0 <;> simp [h0, hneg]

/-- **checkedAdd_spec** — the exact sum when representable, else −1; a negative argument gives −1. -/
theorem checkedAdd_spec (a b : Int) (ha : InInt a) (hb : InInt b) :
    checkedNonNegativeAdd a b =
      some (if a < 0 ∨ b < 0 then -1 else if a + b ≤ 9223372036854775807 then a + b else -1) :=
  add_eq_spec ha hb

/-- **sat_hom** — the −1-sticky arithmetic on Go ints is the image of the arithmetic of ℕ under
    saturation `rep : ℕ → Int` (`rep x = x` if `x ≤ maxInt`, else −1): it is a homomorphism for both
    operations, so a computation of sums and products never "forgets" an overflow and never reports
    one that did not happen (in particular `∞ × 0 = 0`). -/
theorem sat_hom (x y : Nat) :
    checkedNonNegativeMultiply (rep x) (rep y) = some (rep (x * y)) ∧
    checkedNonNegativeAdd (rep x) (rep y) = some (rep (x + y)) := by
  constructor
  · rw [mul_eq_spec (rep_inInt x) (rep_inInt y), mulSpec_rep]
  · rw [add_eq_spec (rep_inInt x) (rep_inInt y), addSpec_rep]

-- non-vacuity / sanity of the arithmetic statements at the boundary
example : checkedNonNegativeMultiply 3037000499 3037000499 = some 9223372030926249001 := by decide
example : checkedNonNegativeMultiply 3037000500 3037000500 = some (-1) := by decide
example : checkedNonNegativeMultiply 4294967296 4294967297 = some (-1) := by decide  -- wraps to 2^32
example : checkedNonNegativeMultiply (-1) 0 = some 0 := by decide
example : checkedNonNegativeAdd 9223372036854775806 1 = some 9223372036854775807 := by decide
example : checkedNonNegativeAdd 9223372036854775807 1 = some (-1) := by decide
example : rep (2 ^ 63) = -1 ∧ rep (2 ^ 63 - 1) = 9223372036854775807 := by decide

/-! ## The cost walk -/

/-- The property's domain for a document: every cost function returns a resolver cost in
    `[0, maxInt]` and a Go-int multiplier, whatever context it is given. -/
def Doc.OK {κ : Type} (doc : Doc κ) : Prop := (∀ o ∈ doc.ops, o.node.OK) ∧ FragsOK doc.frags

theorem chosen_mem {κ : Type} {opName : String} {ops : List (Op κ)} {o : Op κ}
    (h : Spec.chosen opName ops = some o) : o ∈ ops := by
  unfold Spec.chosen at h
  split at h
  · rename_i o' hf
    simp only [Option.some.injEq] at h
    subst h
    have : o' ∈ ops.filter (fun d => opName == "" || d.name == some opName) := by rw [hf]; simp
    exact (List.mem_filter.mp this).1
  · cases h

theorem rep_zero : rep 0 = 0 := by decide
theorem rep_one : rep 1 = 1 := by decide

/-- The rule's final `cost` variable is the saturated reference cost; a document outside the
    reference's domain stops the walk with a (non-panic) error. -/
theorem finalCost_eq {κ : Type} (ctx0 : κ) (opName : String) (dflt : FieldCost κ) (doc : Doc κ)
    (hdoc : doc.OK) (hd : dflt.OK) :
    match Spec.refCost ctx0 opName dflt doc with
    | some R => finalCost ctx0 opName true dflt doc = .ok (rep R)
    | none => ∃ e, finalCost ctx0 opName true dflt doc = .error e ∧ e.NotPanic := by
  unfold finalCost Spec.refCost
  rw [chooseOp_eq_chosen]
  cases hc : Spec.chosen opName doc.ops with
  | none => simp only; exact congrArg _ rep_zero.symm
  | some o =>
    simp only [if_true]
    have hok : o.node.OK := hdoc.1 o (chosen_mem hc)
    have h := walk_tracks doc.frags hdoc.2 dflt hd doc.frags.length [] o.node hok 0 1 [] ctx0 []
    rw [rep_zero, rep_one] at h
    unfold Tracks at h
    cases hr : Spec.ref doc.frags dflt doc.frags.length [] 1 ctx0 o.node with
    | some R =>
      rw [hr] at h
      simp only at h ⊢
      rw [h]
      simp [bind, Except.bind]
    | none =>
      rw [hr] at h
      obtain ⟨e, he, hp⟩ := h
      exact ⟨e, by rw [he]; rfl, hp⟩

theorem rep_neg_iff (R : Nat) : rep R < 0 ↔ (9223372036854775807 : Int) < R := by
  unfold rep
  have : (0 : Int) ≤ R := Int.natCast_nonneg R
  split <;> omega

/-- **cost_eq_sat_ref** — for every validated request (the reference cost is defined) the value
    written to `*actual` is exactly `min(refCost, maxInt)`: the cost is exact whenever it is
    representable and saturates at maxInt otherwise. -/
theorem cost_eq_sat_ref {κ : Type} (ctx0 : κ) (opName : String) (max : Int) (dflt : FieldCost κ)
    (doc : Doc κ) (hdoc : doc.OK) (hd : dflt.OK) (R : Nat)
    (href : Spec.refCost ctx0 opName dflt doc = some R) :
    (validateCost ctx0 opName true max dflt doc).actual = some (min (R : Int) 9223372036854775807) := by
  have h := finalCost_eq ctx0 opName dflt doc hdoc hd
  rw [href] at h
  simp only at h
  unfold validateCost
  rw [h]
  simp only [report, maxInt]
  have hi := rep_neg_iff R
  unfold rep at *
  have : (0 : Int) ≤ R := Int.natCast_nonneg R
  congr 1
  split <;> split at * <;> omega

/-- **accept_iff** — with a limit `max ∈ {−1} ∪ [0, maxInt]` the rule accepts exactly when no limit
    is set or the reference cost (in ℕ, unbounded) does not exceed it. In particular a cost beyond
    maxInt is rejected under every limit `max ≥ 0`: it can never wrap to something small. -/
theorem accept_iff {κ : Type} (ctx0 : κ) (opName : String) (max : Int) (hmax : -1 ≤ max)
    (hmax' : max ≤ 9223372036854775807)
    (dflt : FieldCost κ) (doc : Doc κ) (hdoc : doc.OK) (hd : dflt.OK) (R : Nat)
    (href : Spec.refCost ctx0 opName dflt doc = some R) :
    (validateCost ctx0 opName true max dflt doc).accepted = true ↔ (max = -1 ∨ (R : Int) ≤ max) := by
  have h := finalCost_eq ctx0 opName dflt doc hdoc hd
  rw [href] at h
  simp only at h
  unfold validateCost Result.accepted
  rw [h]
  simp only [report]
  have hi := rep_neg_iff R
  have hr : (0 : Int) ≤ R := Int.natCast_nonneg R
  by_cases hm : max ≥ 0
  · simp only [hm, if_true]
    by_cases hneg : rep R < 0
    · simp only [hneg, if_true]
      have := hi.mp hneg
      constructor
      · intro h'; cases h'
      · intro h'; omega
    · simp only [hneg, if_false]
      have hle : (R : Int) ≤ 9223372036854775807 := by
        have : ¬ (9223372036854775807 : Int) < R := fun h' => hneg (hi.mpr h')
        omega
      rw [rep_of_le hle]
      by_cases hgt : (R : Int) > max
      · simp only [hgt, if_true]
        constructor
        · intro h'; cases h'
        · intro h'; omega
      · simp only [hgt, if_false]
        constructor
        · intro _; right; omega
        · intro _; rfl
  · simp only [hm, if_false]
    constructor
    · intro _; left; omega
    · intro _; rfl

/-- **overflow_rejected** — a reference cost beyond maxInt is reported as maxInt and rejected with
    "too high to calculate" under every limit `max ≥ 0`, whatever the limit is: it never wraps to a
    smaller number. -/
theorem overflow_rejected {κ : Type} (ctx0 : κ) (opName : String) (max : Int) (hmax : 0 ≤ max)
    (dflt : FieldCost κ) (doc : Doc κ) (hdoc : doc.OK) (hd : dflt.OK) (R : Nat)
    (href : Spec.refCost ctx0 opName dflt doc = some R) (hbig : (9223372036854775807 : Int) < R) :
    validateCost ctx0 opName true max dflt doc =
      { verdict := .tooHigh, actual := some 9223372036854775807 } := by
  have h := finalCost_eq ctx0 opName dflt doc hdoc hd
  rw [href] at h
  simp only at h
  unfold validateCost
  rw [h]
  have hneg : rep R < 0 := (rep_neg_iff R).mpr hbig
  have hm : max ≥ 0 := hmax
  simp only [report, hneg, hm, if_true, maxInt]

/-- **never_undercount** — whatever is reported as the operation's cost is at least
    `min(refCost, maxInt)`: the rule never undercounts (corollary of `cost_eq_sat_ref`; rate limits
    that charge `actual` are safe). -/
theorem never_undercount {κ : Type} (ctx0 : κ) (opName : String) (max : Int) (dflt : FieldCost κ)
    (doc : Doc κ) (hdoc : doc.OK) (hd : dflt.OK) (R : Nat)
    (href : Spec.refCost ctx0 opName dflt doc = some R) (a : Int)
    (ha : (validateCost ctx0 opName true max dflt doc).actual = some a) :
    min (R : Int) 9223372036854775807 ≤ a := by
  rw [cost_eq_sat_ref ctx0 opName max dflt doc hdoc hd R href] at ha
  simp only [Option.some.injEq] at ha
  omega

/-- **accepted_cost_le_max** — an accepted request's true (unbounded) cost is within the limit. -/
theorem accepted_cost_le_max {κ : Type} (ctx0 : κ) (opName : String) (max : Int) (hmax : 0 ≤ max)
    (hmax' : max ≤ 9223372036854775807)
    (dflt : FieldCost κ) (doc : Doc κ) (hdoc : doc.OK) (hd : dflt.OK) (R : Nat)
    (href : Spec.refCost ctx0 opName dflt doc = some R)
    (hacc : (validateCost ctx0 opName true max dflt doc).accepted = true) : (R : Int) ≤ max := by
  rcases (accept_iff ctx0 opName max (by omega) hmax' dflt doc hdoc hd R href).mp hacc with h | h
  · omega
  · exact h

/-- **invalid_rejected_no_panic** — a request outside the reference's domain (undefined or cyclic
    fragment spread, field without definition, un-coercible arguments) is rejected without writing
    `actual`, and — like every request in the property's domain — never makes the rule panic
    (no empty-stack index, no division by zero). -/
theorem invalid_rejected_no_panic {κ : Type} (ctx0 : κ) (opName : String) (max : Int)
    (dflt : FieldCost κ) (doc : Doc κ) (hdoc : doc.OK) (hd : dflt.OK) :
    (∀ w, (validateCost ctx0 opName true max dflt doc).verdict ≠ .panicked w) ∧
    (Spec.refCost ctx0 opName dflt doc = none →
      (validateCost ctx0 opName true max dflt doc).actual = none ∧
      (validateCost ctx0 opName true max dflt doc).accepted = false) := by
  have h := finalCost_eq ctx0 opName dflt doc hdoc hd
  cases href : Spec.refCost ctx0 opName dflt doc with
  | some R =>
    rw [href] at h
    simp only at h
    refine ⟨?_, fun h' => by cases h'⟩
    intro w
    unfold validateCost
    rw [h]
    simp only [report]
    repeat' split
    all_goals (intro hc; cases hc)
  | none =>
    rw [href] at h
    obtain ⟨e, he, hp⟩ := h
    unfold validateCost Result.accepted
    rw [he]
    cases e with
    | secondary m =>
      refine ⟨?_, fun _ => ⟨rfl, rfl⟩⟩
      intro w hc; cases hc
    | panic w => exact absurd rfl (hp w)
    | outOfFuel =>
      refine ⟨?_, fun _ => ⟨rfl, rfl⟩⟩
      intro w hc; cases hc

/-- Variables that cannot be coerced (`CoerceVariableValues` fails, lines 66-73) reject the request
    with a secondary error whenever an operation was chosen. -/
theorem bad_variables_rejected {κ : Type} (ctx0 : κ) (opName : String) (max : Int)
    (dflt : FieldCost κ) (doc : Doc κ) (o : Op κ) (ho : Spec.chosen opName doc.ops = some o) :
    validateCost ctx0 opName false max dflt doc =
      { verdict := .secondary "variable coercion", actual := none } := by
  unfold validateCost finalCost
  rw [chooseOp_eq_chosen, ho]
  rfl

end ApiFu.C14
