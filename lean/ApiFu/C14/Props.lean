/-
  C14 — property theorems.

  Arithmetic: about `Generated.checkedNonNegativeMultiply / checkedNonNegativeAdd`, the literal
  translation of the *current* source (regenerated on every check).
  Cost walk: about `validateCost` (Model.lean), for every cost-context type `κ`, every document tree,
  every family of cost functions with resolver costs in [0, maxInt] and Go-int multipliers
  (`Doc.OK`, `FieldCost.OK`), every operation name, default cost and limit.
  `Spec.refCost` is the reference: Σ resolver × Π ancestor multipliers over the fragment-expanded
  chosen operation, in unbounded ℕ; `none` = not a validated document.
-/
import ApiFu.C14.Lemmas

namespace ApiFu.C14
open Generated

/-! ## Arithmetic (validate_cost.go:15-37) -/

/-- **checkedMul_spec** — on non-negative Go ints the helper returns the exact product when it is
    representable and the overflow marker −1 otherwise: the `c/b != a` test is sound (no wrapped
    product is ever returned) and complete (no representable product is flagged). It never panics
    (`some`): the division is only reached with `b ≥ 2`. -/
theorem checkedMul_spec (a b : Int) (ha : 0 ≤ a) (hb : 0 ≤ b) (ha' : a ≤ 9223372036854775807)
    (hb' : b ≤ 9223372036854775807) :
    checkedNonNegativeMultiply a b = some (if a * b ≤ 9223372036854775807 then a * b else -1) := by
  rw [mul_eq_spec ⟨by omega, ha'⟩ ⟨by omega, hb'⟩]
  unfold mulSpec
  have hneg : ¬ (a < 0 ∨ b < 0) := by omega
  by_cases h0 : a = 0 ∨ b = 0
  · rcases h0 with h | h <;> simp [h]
  · simp [h0, hneg]

/-- **checkedMul_negative** — a negative argument (the overflow marker of an earlier step) gives the
    marker again, unless the other argument is zero: zero times anything is zero (this is the
    behaviour after repo-patches/C14/01; before it `mul (-1) 0 = -1`, finding F-14a). -/
theorem checkedMul_negative (a b : Int) (ha : InInt a) (hb : InInt b) (hneg : a < 0 ∨ b < 0) :
    checkedNonNegativeMultiply a b = some (if a = 0 ∨ b = 0 then 0 else -1) := by
  rw [mul_eq_spec ha hb]
  unfold mulSpec
  by_cases h0 : a = 0 ∨ b = 0 <;> simp [h0, hneg]

/-- **checkedAdd_spec** — the exact sum when representable, else −1; a negative argument gives −1. -/
theorem checkedAdd_spec (a b : Int) (ha : InInt a) (hb : InInt b) :
    checkedNonNegativeAdd a b =
      some (if a < 0 ∨ b < 0 then -1 else if a + b ≤ 9223372036854775807 then a + b else -1) :=
  add_eq_spec ha hb

/-- **sat_hom** — the −1-sticky arithmetic on Go ints is the image of the arithmetic of ℕ under
    saturation `rep : ℕ → Int` (`rep x = x` if `x ≤ maxInt`, else −1): it is a homomorphism for both
    operations, so a computation of sums and products never "forgets" an overflow and never reports
    one that did not happen (in particular `∞ × 0 = 0`). -/
theorem sat_hom (x y : Nat) :
    checkedNonNegativeMultiply (rep x) (rep y) = some (rep (x * y)) ∧
    checkedNonNegativeAdd (rep x) (rep y) = some (rep (x + y)) := by
  constructor
  · rw [mul_eq_spec (rep_inInt x) (rep_inInt y), mulSpec_rep]
  · rw [add_eq_spec (rep_inInt x) (rep_inInt y), addSpec_rep]

/-- **arith_never_panics** — for arbitrary integers the two helpers return a value (`some`): the only
    division is guarded, so the rule cannot die of an integer divide by zero. -/
theorem arith_never_panics (a b : Int) :
    (checkedNonNegativeMultiply a b).isSome = true ∧ (checkedNonNegativeAdd a b).isSome = true :=
  ⟨mul_isSome a b, add_isSome a b⟩

-- non-vacuity / sanity of the arithmetic statements at the boundary
example : checkedNonNegativeMultiply 3037000499 3037000499 = some 9223372030926249001 := by decide
example : checkedNonNegativeMultiply 3037000500 3037000500 = some (-1) := by decide
example : checkedNonNegativeMultiply 4294967296 4294967297 = some (-1) := by decide  -- wraps to 2^32
example : checkedNonNegativeMultiply (-1) 0 = some 0 := by decide
example : checkedNonNegativeAdd 9223372036854775806 1 = some 9223372036854775807 := by decide
example : checkedNonNegativeAdd 9223372036854775807 1 = some (-1) := by decide
example : rep (2 ^ 63) = -1 ∧ rep (2 ^ 63 - 1) = 9223372036854775807 := by decide

/-! ## The cost walk -/

/-- **cost_eq_sat_ref** — for every validated request (the reference cost is defined) the value
    written to `*actual` is exactly `min(refCost, maxInt)`: the cost is exact whenever it is
    representable and saturates at maxInt otherwise. -/
theorem cost_eq_sat_ref {κ : Type} (ctx0 : κ) (opName : String) (max : Int) (dflt : FieldCost κ)
    (doc : Doc κ) (hdoc : doc.OK) (hd : dflt.OK) (R : Nat)
    (href : Spec.refCost ctx0 opName dflt doc = some R) :
    (validateCost ctx0 opName true max dflt doc).actual = some (min (R : Int) 9223372036854775807) := by
  have h := finalCost_eq ctx0 opName dflt doc hdoc hd
  rw [href] at h
  simp only at h
  unfold validateCost
  rw [h]
  simp only [report, maxInt]
  have hi := rep_neg_iff R
  unfold rep at *
  have : (0 : Int) ≤ R := Int.natCast_nonneg R
  congr 1
  split <;> split at * <;> omega

/-- **accept_iff** — with a limit `max ∈ {−1} ∪ [0, maxInt]` the rule accepts exactly when no limit
    is set or the reference cost (in ℕ, unbounded) does not exceed it. In particular a cost beyond
    maxInt is rejected under every limit `max ≥ 0`: it can never wrap to something small. -/
theorem accept_iff {κ : Type} (ctx0 : κ) (opName : String) (max : Int) (hmax : -1 ≤ max)
    (hmax' : max ≤ 9223372036854775807)
    (dflt : FieldCost κ) (doc : Doc κ) (hdoc : doc.OK) (hd : dflt.OK) (R : Nat)
    (href : Spec.refCost ctx0 opName dflt doc = some R) :
    (validateCost ctx0 opName true max dflt doc).accepted = true ↔ (max = -1 ∨ (R : Int) ≤ max) := by
  have h := finalCost_eq ctx0 opName dflt doc hdoc hd
  rw [href] at h
  simp only at h
  unfold validateCost Result.accepted
  rw [h]
  simp only [report]
  have hi := rep_neg_iff R
  have hr : (0 : Int) ≤ R := Int.natCast_nonneg R
  by_cases hm : max ≥ 0
  · simp only [hm, if_true]
    by_cases hneg : rep R < 0
    · simp only [hneg, if_true]
      have := hi.mp hneg
      constructor
      · intro h'; cases h'
      · intro h'; omega
    · simp only [hneg, if_false]
      have hle : (R : Int) ≤ 9223372036854775807 := by
        have : ¬ (9223372036854775807 : Int) < R := fun h' => hneg (hi.mpr h')
        omega
      rw [rep_of_le hle]
      by_cases hgt : (R : Int) > max
      · simp only [hgt, if_true]
        constructor
        · intro h'; cases h'
        · intro h'; omega
      · simp only [hgt, if_false]
        constructor
        · intro _; right; omega
        · intro _; rfl
  · simp only [hm, if_false]
    constructor
    · intro _; left; omega
    · intro _; rfl

/-- **overflow_rejected** — a reference cost beyond maxInt is reported as maxInt and rejected with
    "too high to calculate" under every limit `max ≥ 0`, whatever the limit is: it never wraps to a
    smaller number. -/
theorem overflow_rejected {κ : Type} (ctx0 : κ) (opName : String) (max : Int) (hmax : 0 ≤ max)
    (dflt : FieldCost κ) (doc : Doc κ) (hdoc : doc.OK) (hd : dflt.OK) (R : Nat)
    (href : Spec.refCost ctx0 opName dflt doc = some R) (hbig : (9223372036854775807 : Int) < R) :
    validateCost ctx0 opName true max dflt doc =
      { verdict := .tooHigh, actual := some 9223372036854775807 } := by
  have h := finalCost_eq ctx0 opName dflt doc hdoc hd
  rw [href] at h
  simp only at h
  unfold validateCost
  rw [h]
  have hneg : rep R < 0 := (rep_neg_iff R).mpr hbig
  have hm : max ≥ 0 := hmax
  simp only [report, hneg, hm, if_true, maxInt]

/-- **never_undercount** — whatever is reported as the operation's cost is at least
    `min(refCost, maxInt)`: the rule never undercounts (corollary of `cost_eq_sat_ref`; rate limits
    that charge `actual` are safe). -/
theorem never_undercount {κ : Type} (ctx0 : κ) (opName : String) (max : Int) (dflt : FieldCost κ)
    (doc : Doc κ) (hdoc : doc.OK) (hd : dflt.OK) (R : Nat)
    (href : Spec.refCost ctx0 opName dflt doc = some R) (a : Int)
    (ha : (validateCost ctx0 opName true max dflt doc).actual = some a) :
    min (R : Int) 9223372036854775807 ≤ a := by
  rw [cost_eq_sat_ref ctx0 opName max dflt doc hdoc hd R href] at ha
  simp only [Option.some.injEq] at ha
  omega

/-- **accepted_cost_le_max** — an accepted request's true (unbounded) cost is within the limit. -/
theorem accepted_cost_le_max {κ : Type} (ctx0 : κ) (opName : String) (max : Int) (hmax : 0 ≤ max)
    (hmax' : max ≤ 9223372036854775807)
    (dflt : FieldCost κ) (doc : Doc κ) (hdoc : doc.OK) (hd : dflt.OK) (R : Nat)
    (href : Spec.refCost ctx0 opName dflt doc = some R)
    (hacc : (validateCost ctx0 opName true max dflt doc).accepted = true) : (R : Int) ≤ max := by
  rcases (accept_iff ctx0 opName max (by omega) hmax' dflt doc hdoc hd R href).mp hacc with h | h
  · omega
  · exact h

/-- **invalid_rejected** — a request outside the reference's domain (undefined or cyclic fragment
    spread, field without definition, un-coercible arguments) is rejected (with secondary errors
    only) and `actual` is not written. -/
theorem invalid_rejected {κ : Type} (ctx0 : κ) (opName : String) (max : Int)
    (dflt : FieldCost κ) (doc : Doc κ) (hdoc : doc.OK) (hd : dflt.OK)
    (href : Spec.refCost ctx0 opName dflt doc = none) :
    (validateCost ctx0 opName true max dflt doc).actual = none ∧
    (validateCost ctx0 opName true max dflt doc).accepted = false := by
  have h := finalCost_eq ctx0 opName dflt doc hdoc hd
  rw [href] at h
  obtain ⟨e, he, hp⟩ := h
  unfold validateCost Result.accepted
  rw [he]
  cases e with
  | secondary m => exact ⟨rfl, rfl⟩
  | panic w => exact absurd rfl (hp w)
  | outOfFuel => exact ⟨rfl, rfl⟩

/-- Variables that cannot be coerced (`CoerceVariableValues` fails, lines 66-73) reject the request
    with a secondary error whenever an operation was chosen. -/
theorem bad_variables_rejected {κ : Type} (ctx0 : κ) (opName : String) (max : Int)
    (dflt : FieldCost κ) (doc : Doc κ) (o : Op κ) (ho : Spec.chosen opName doc.ops = some o) :
    validateCost ctx0 opName false max dflt doc =
      { verdict := .secondary "variable coercion", actual := none } := by
  unfold validateCost finalCost
  rw [chooseOp_eq_chosen, ho]
  rfl

/-- **charged_operation_is_executed_operation** — the operation the cost rule charges (lines 46-57)
    is exactly the operation `executor.GetOperation` executes for the same document and name; when the
    executor reports an error (no or several matches) the rule charges nothing, and nothing runs. A
    lenient executor (one that runs a document's only operation under a non-matching name) would
    execute what was charged 0. -/
theorem charged_operation_is_executed_operation {κ : Type} (opName : String) (ops : List (Op κ))
    (acc : Option (Op κ)) :
    chooseOp opName ops acc = (match executorGetOperation opName ops acc with
                               | .ok o => some o
                               | .error _ => none) := by
  induction ops generalizing acc with
  | nil => cases acc <;> rfl
  | cons d rest ih =>
    by_cases hm : opName = "" ∨ d.name = some opName
    · cases acc with
      | none => simp only [chooseOp, executorGetOperation, hm, if_true]; exact ih (some d)
      | some a => simp only [chooseOp, executorGetOperation, hm, if_true]
    · simp only [chooseOp, executorGetOperation, hm, if_false]; exact ih acc

/-- **walk_never_out_of_fuel** — for *every* document (no hypothesis at all) the model's fuel
    (number of fragment definitions) is never exhausted: the by-name guard makes every nested
    expansion add a new defined name, and there are only that many (pigeonhole). So the fuel is not
    an assumption of the theorems above, and the Go recursion `visitNode` terminates. -/
theorem walk_never_out_of_fuel {κ : Type} (ctx0 : κ) (opName : String) (varsOk : Bool) (max : Int)
    (dflt : FieldCost κ) (doc : Doc κ) :
    (validateCost ctx0 opName varsOk max dflt doc).verdict ≠ .outOfFuel := by
  have hfc : NoOOF (finalCost ctx0 opName varsOk dflt doc) := by
    unfold finalCost
    split
    · intro h; cases h
    · split
      · refine NoOOF.bind (walk_noOOF doc.frags dflt doc.frags.length [] List.nodup_nil
          (by intro x hx; cases hx) (by simp) _ _) fun st => ?_
        intro h; cases h
      · intro h; cases h
  unfold validateCost
  split
  · simp only [report]
    repeat' split
    all_goals (intro hc; cases hc)
  · intro hc; cases hc
  · intro hc; cases hc
  · rename_i h; exact absurd h hfc

/-- **never_panics** — for *every* document, cost functions returning arbitrary integers (also
    negative ones), every operation name, default and limit, the rule does not panic: the
    `multipliers` / `ctxs` stacks are never indexed or sliced while empty (they are pushed and popped
    in step with `ast.Inspect`) and the arithmetic never divides by zero. -/
theorem never_panics {κ : Type} (ctx0 : κ) (opName : String) (varsOk : Bool) (max : Int)
    (dflt : FieldCost κ) (doc : Doc κ) (w : String) :
    (validateCost ctx0 opName varsOk max dflt doc).verdict ≠ .panicked w := by
  have hfc : ∀ w, finalCost ctx0 opName varsOk dflt doc ≠ .error (.panic w) := by
    intro w
    unfold finalCost
    split
    · intro h; cases h
    · split
      · rename_i o _ _
        have hs := walk_safe doc.frags dflt doc.frags.length [] o.node
          { cost := 0, mults := [1], ctxs := [ctx0] } 1 [] ctx0 [] rfl rfl
        rcases hs with ⟨st', he, _, _⟩ | ⟨e, he, hp⟩
        · rw [he]; intro h; cases h
        · rw [he]; intro h
          simp only [bind, Except.bind, Except.error.injEq] at h
          exact hp w h
      · intro h; cases h
  unfold validateCost
  split
  · simp only [report]
    repeat' split
    all_goals (intro hc; cases hc)
  · intro hc; cases hc
  · rename_i w' h
    exact absurd h (hfc w')
  · intro hc; cases hc

/-- **walk_restores_stacks** — whenever the walk of any node of any document returns normally, both
    stacks are exactly what they were before the node: every push (lines 135-136) is matched by the
    pop of `f(nil)` (lines 83-87), also around nested fragment expansions. -/
theorem walk_restores_stacks {κ : Type} (frags : List (String × Node κ)) (dflt : FieldCost κ)
    (fuel : Nat) (path : List String) (node : Node κ) (st st' : St κ) (m : Int) (ms : List Int)
    (c : κ) (cs : List κ) (h1 : st.mults = m :: ms) (h2 : st.ctxs = c :: cs)
    (h : walk frags dflt fuel path node st = .ok st') :
    st'.mults = st.mults ∧ st'.ctxs = st.ctxs := by
  rcases walk_safe frags dflt fuel path node st m ms c cs h1 h2 with ⟨st'', he, e1, e2⟩ | ⟨e, he, _⟩
  · rw [h] at he
    simp only [Except.ok.injEq] at he
    subst he
    rw [h1, h2]; exact ⟨e1, e2⟩
  · rw [h] at he; cases he

/-- What validation guarantees about a document (the part the cost rule relies on): every field has
    a definition and coercible arguments, every spread names a defined fragment, and the fragments
    admit a topological order (spreads are acyclic). -/
structure Doc.Valid {κ : Type} (doc : Doc κ) (order : List String) : Prop where
  frags : FragsValid doc.frags order
  ops : ∀ o ∈ doc.ops, o.node.Clean ∧ ∀ g ∈ spreadNames o.node, g ∈ order

/-- **validated_in_domain** — every validated document has a reference cost: the by-name cycle
    guard never fires on it, no spread is undefined, the expansion depth never exceeds the number of
    fragment definitions. The hypotheses `refCost … = some R` of the theorems above are therefore
    satisfied by every validated request. -/
theorem validated_in_domain {κ : Type} (ctx0 : κ) (opName : String) (dflt : FieldCost κ)
    (doc : Doc κ) (order : List String) (hv : doc.Valid order) :
    (Spec.refCost ctx0 opName dflt doc).isSome := by
  unfold Spec.refCost
  cases hc : Spec.chosen opName doc.ops with
  | none => rfl
  | some o =>
    simp only
    obtain ⟨hclean, hsp⟩ := hv.ops o (chosen_mem hc)
    refine ref_isSome_of_valid doc.frags order hv.frags dflt doc.frags.length [] o.node hclean ?_ 1 ctx0
    intro g hg
    have hgo := hsp g hg
    refine ⟨hgo, ?_, fun p hp => by cases hp⟩
    have h1 : order.idxOf g < order.length := List.idxOf_lt_length_of_mem hgo
    have h2 : order ⊆ fragNames doc.frags := by
      intro x hx
      obtain ⟨d, hfd, _⟩ := hv.frags.defined x hx
      exact List.mem_map_of_mem (f := (·.1)) (findFrag_mem hfd)
    have h3 := List.Nodup.length_le_of_subset hv.frags.nodup h2
    simp only [fragNames, List.length_map] at h3
    omega

/-- **validated_cost_exact** — the property for validated requests in one statement: there is a
    reference cost `R` (Σ resolver × Π ancestor multipliers over the expanded chosen operation), the
    reported cost is `min(R, maxInt)`, and under a limit `max ∈ {−1} ∪ [0, maxInt]` the request is
    accepted iff `max = −1 ∨ R ≤ max`. -/
theorem validated_cost_exact {κ : Type} (ctx0 : κ) (opName : String) (max : Int) (hmax : -1 ≤ max)
    (hmax' : max ≤ 9223372036854775807) (dflt : FieldCost κ) (doc : Doc κ) (order : List String)
    (hv : doc.Valid order) (hdoc : doc.OK) (hd : dflt.OK) :
    ∃ R : Nat, Spec.refCost ctx0 opName dflt doc = some R ∧
      (validateCost ctx0 opName true max dflt doc).actual = some (min (R : Int) 9223372036854775807) ∧
      ((validateCost ctx0 opName true max dflt doc).accepted = true ↔ (max = -1 ∨ (R : Int) ≤ max)) := by
  have h := validated_in_domain ctx0 opName dflt doc order hv
  cases href : Spec.refCost ctx0 opName dflt doc with
  | none => rw [href] at h; cases h
  | some R =>
    exact ⟨R, rfl, cost_eq_sat_ref ctx0 opName max dflt doc hdoc hd R href,
      accept_iff ctx0 opName max hmax hmax' dflt doc hdoc hd R href⟩

/-! ## Connections with their default costs (pagination.go:226-235, 264-274, 434-442)

  `ArgVal`, `connMaxCount`, `connectionCost`, `edgesCost`, `resolverEdgeLimit` are in Model.lean (the
  driver evaluates them: the harness only tells the model how `first` / `last` are spelled). -/

/-- **connection_charges_max_count** — for `conn(first: F, last: L) { edges { sels } }` with the
    default costs, the reference cost is `M` for the connection itself plus the cost of `sels` under
    the multiplier `M × effMul (connMaxCount F L)` (a count ≤ 1 counts as 1) — and `sels` are costed in
    the context `(c.1, connMaxCount F L)`: the value an *ancestor's* cost function handed down (`c.1`)
    is still what the descendants of the connection see. -/
theorem connection_charges_max_count (E : String → Nat → Ctx → Option Nat) (dflt : FieldCost Ctx)
    (M : Nat) (c : Ctx) (first last : ArgVal) (sels : List (Node Ctx)) :
    Spec.refNode E dflt M c
      (.field (.fn (connectionCost first last)) [.other [.field (.fn edgesCost) [.other sels]]]) =
    (Spec.refList E dflt (M * Spec.effMul (connMaxCount first last)) (c.1, connMaxCount first last) sels).map
      (fun below => M + below) := by
  have e0 : Spec.effMul 0 = 1 := by decide
  simp only [Spec.refNode, Spec.refList, connectionCost, edgesCost, e0, Option.getD, Nat.mul_one,
    Int.toNat_zero, Int.toNat_one, Nat.mul_zero, Nat.zero_add]
  generalize Spec.refList E dflt (M * Spec.effMul (connMaxCount first last)) (c.1, connMaxCount first last) sels = r
  cases r with
  | none => rfl
  | some b => simp [Option.map]

/-- **connection_keeps_ancestor_context** — the context a default-cost connection hands down differs
    from the one it received only in the max edge count. -/
theorem connection_keeps_ancestor_context (first last : ArgVal) (k : Ctx) :
    (connectionCost first last k).ctx = some (k.1, connMaxCount first last) := rfl

/-- **null_counts_as_absent** — an explicit `null` (literal or null-valued variable) for `first` or
    `last` is charged exactly like an omitted argument: the cost function and the resolver both read
    the arguments through the `.(int)` assertion. (A cost function keyed on the *presence* of `last`
    would charge `{first: 20, last: null}` a multiplier of 1 for 20 edges.) -/
theorem null_counts_as_absent (a : ArgVal) :
    connMaxCount a .null = connMaxCount a .absent ∧ connMaxCount .null a = connMaxCount .absent a ∧
    resolverEdgeLimit a .null = resolverEdgeLimit a .absent ∧
    resolverEdgeLimit .null a = resolverEdgeLimit .absent a := by
  cases a <;> simp [connMaxCount, resolverEdgeLimit, ArgVal.asInt]

/-- **resolver_limit_eq_charged** — whenever the connection resolver accepts its arguments, the
    number of edges it may return is exactly the max edge count the cost function put into the
    context, for every spelling of `first` and `last` (absent, null, int). -/
theorem resolver_limit_eq_charged (first last : ArgVal) (L : Int)
    (h : resolverEdgeLimit first last = some L) : L = connMaxCount first last ∧ 0 ≤ L := by
  cases first <;> cases last <;>
    simp only [resolverEdgeLimit, connMaxCount, ArgVal.asInt] at h ⊢ <;>
    (try cases h) <;> (split at h <;> simp_all <;> omega)

/-- **edges_le_multiplier** — the number of edges a connection resolves never exceeds the multiplier
    charged for them, for every spelling of `first` / `last`. The hypothesis is the connection's own
    guarantee (C09 `edges_le_first`): no edges when the resolver rejects its arguments, at most
    `resolverEdgeLimit` edges otherwise; the harness counts resolved edges of served connections
    against the charged multiplier for all 36 spellings. -/
theorem edges_le_multiplier (first last : ArgVal) (edges : Nat)
    (hC09 : match resolverEdgeLimit first last with
            | none => edges = 0
            | some L => (edges : Int) ≤ L) :
    edges ≤ Spec.effMul (connMaxCount first last) := by
  cases hl : resolverEdgeLimit first last with
  | none =>
    rw [hl] at hC09
    simp only at hC09
    subst hC09
    unfold Spec.effMul; split <;> omega
  | some L =>
    rw [hl] at hC09
    simp only at hC09
    obtain ⟨he, h0⟩ := resolver_limit_eq_charged first last L hl
    rw [← he]
    unfold Spec.effMul; split <;> omega

-- the seeded shape: first = 20, last = null → 20 edges may be resolved and 20 are charged
example : resolverEdgeLimit (.int 20) .null = some 20 ∧ connMaxCount (.int 20) .null = 20 := by decide

/-! ## Non-vacuity: concrete requests, evaluated by the kernel -/

/-- `{ root { ...F kids { ...F free } } }  fragment F on N { leaf(ctx) }` with root: cost 1, ×3,
    context 7; kids: cost 2, ×5; leaf: cost = context; free: cost 0. -/
def exDoc : Doc Int :=
  { ops := [{ name := none, node := .other [.other [
      .field (.fn fun _ => { ctx := some 7, resolver := 1, multiplier := 3 }) [.other [
        .spread "F" [],
        .field (.fn fun _ => { ctx := none, resolver := 2, multiplier := 5 }) [.other [
          .spread "F" [],
          .field (.fn fun _ => { ctx := none, resolver := 0, multiplier := 0 }) []]]]]]] }]
    frags := [("F", .other [.other [.field (.fn fun k => { ctx := none, resolver := k, multiplier := 0 }) []]])] }

-- 1 + 3·7 + 3·2 + 15·7 + 15·0 = 133
example : Spec.refCost (0 : Int) "" { ctx := none, resolver := 1, multiplier := 0 } exDoc = some 133 := by decide +kernel
example : validateCost (0 : Int) "" true 133 { ctx := none, resolver := 1, multiplier := 0 } exDoc =
    { verdict := .accepted, actual := some 133 } := by decide +kernel
example : validateCost (0 : Int) "" true 132 { ctx := none, resolver := 1, multiplier := 0 } exDoc =
    { verdict := .exceeds 133 132, actual := some 133 } := by decide +kernel

/-- `{ o: n(r:1,m:10) { a(2) }  o: n(r:1,m:10) { b(3) } }`: the same response key twice in one selection
    set. Both are field selections: 1 + 10·2 + 1 + 10·3 = 52. -/
def repeatedKeyDoc : Doc Int :=
  { ops := [{ name := none, node := .other [.other [
      .field (.fn fun _ => { ctx := none, resolver := 1, multiplier := 10 }) [.other [
        .field (.fn fun _ => { ctx := none, resolver := 2, multiplier := 0 }) []]],
      .field (.fn fun _ => { ctx := none, resolver := 1, multiplier := 10 }) [.other [
        .field (.fn fun _ => { ctx := none, resolver := 3, multiplier := 0 }) []]]]] }]
    frags := [] }

example : Spec.refCost (0 : Int) "" { ctx := none, resolver := 1, multiplier := 0 } repeatedKeyDoc = some 52 := by
  decide +kernel
example : validateCost (0 : Int) "" true 51 { ctx := none, resolver := 1, multiplier := 0 } repeatedKeyDoc =
    { verdict := .exceeds 52 51, actual := some 52 } := by decide +kernel

/-- F-14a's document: root ×2^40 (cost 1) { kids ×2^40 (cost 0) { free (cost 0) } } — true cost 1. -/
def f14aDoc : Doc Int :=
  { ops := [{ name := none, node := .other [.other [
      .field (.fn fun _ => { ctx := none, resolver := 1, multiplier := 1099511627776 }) [.other [
        .field (.fn fun _ => { ctx := none, resolver := 0, multiplier := 1099511627776 }) [.other [
          .field (.fn fun _ => { ctx := none, resolver := 0, multiplier := 0 }) []]]]]]] }]
    frags := [] }

example : validateCost (0 : Int) "" true 1 { ctx := none, resolver := 1, multiplier := 0 } f14aDoc =
    { verdict := .accepted, actual := some 1 } := by decide +kernel

/-- … and with a leaf of cost 1 instead, the cost 1 + 2^80 is beyond maxInt: rejected under every
    limit, reported as maxInt. -/
def overflowDoc : Doc Int :=
  { ops := [{ name := none, node := .other [.other [
      .field (.fn fun _ => { ctx := none, resolver := 1, multiplier := 1099511627776 }) [.other [
        .field (.fn fun _ => { ctx := none, resolver := 0, multiplier := 1099511627776 }) [.other [
          .field .default []]]]]]] }]
    frags := [] }

example : Spec.refCost (0 : Int) "" { ctx := none, resolver := 1, multiplier := 0 } overflowDoc =
    some (1 + 2 ^ 80) := by decide +kernel
example : validateCost (0 : Int) "" true 9223372036854775807 { ctx := none, resolver := 1, multiplier := 0 } overflowDoc =
    { verdict := .tooHigh, actual := some 9223372036854775807 } := by decide +kernel

/-! ## Finding F-14a (fixed): the witness against the code before repo-patches/C14/01 -/

/-- `checkedNonNegativeMultiply` as it was before the fix (hand copy of validate_cost.go:17-28 at
    the pinned commit; kept only as the negation witness — the model uses the generated, fixed one). -/
def mulBeforeFix (a b : Int) : Option Int :=
  if a < 0 ∨ b < 0 then some (-1)
  else if a = 0 ∨ b = 0 ∨ a = 1 ∨ b = 1 then some (wrap64 (a * b))
  else
    let c := wrap64 (a * b)
    if b = 0 then none else
    if goDiv c b ≠ a then some (-1) else some c

/-- Before the fix `sat_hom` was false: an overflowed multiplier product (2^80, represented by −1)
    times a resolver cost of 0 gave −1 instead of `rep (2^80 × 0) = 0` — the full-strength
    `cost_eq_sat_ref` did not hold of that code (F-14a). -/
example : mulBeforeFix (rep (2 ^ 80)) (rep 0) = some (-1) ∧ rep (2 ^ 80 * 0) = 0 := by decide

end ApiFu.C14
