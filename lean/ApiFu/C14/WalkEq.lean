/-
  C14 — the generated walk (GeneratedWalk.lean, re-translated from validate_cost.go on every check) is
  the hand-written model: `gvalidateCost = validateCost` for every context type, document, operation
  name, default cost and limit. Every theorem of Props.lean therefore holds of the generated
  definitions (PropsGen.lean). When the source changes, these proofs are what is re-checked; they are
  written so as to survive harmless rewrites of the Go code where that is cheap (case analysis on the
  values, then `simp`), and to fail otherwise. Core Lean only.
-/
import ApiFu.C14.WalkGlue

set_option linter.unusedSimpArgs false
set_option linter.unusedVariables false

namespace ApiFu.C14
open GeneratedWalk

def emb {κ : Type} (v : List String) (st : St κ) : GSt κ :=
  { cost := st.cost, multipliers := st.mults, ctxs := st.ctxs, fragments := v, ret := [] }

def mapEmb {κ : Type} (v : List String) (r : Except Abort (St κ)) : Except Abort (GSt κ) :=
  match r with
  | .ok st => .ok (emb v st)
  | .error e => .error e

theorem cb_leave {κ : Type} (dflt : FieldCost κ) (b : Bool) (fb : String → Option (Node κ))
    (V : Node κ → GSt κ → Except Abort (GSt κ)) (v : List String) (st : St κ) :
    (callback dflt b fb V none (emb v st) >>= fun r => .ok r.1) = mapEmb v (pop st) := by
  obtain ⟨cost, mults, ctxs⟩ := st
  cases mults <;> cases ctxs <;> simp [callback, emb, pop, mapEmb, bind, Except.bind]

theorem cb_other {κ : Type} (dflt : FieldCost κ) (b : Bool) (fb : String → Option (Node κ))
    (V : Node κ → GSt κ → Except Abort (GSt κ)) (v : List String) (st : St κ) :
    callback dflt b fb V (some .other) (emb v st) =
      match st.mults, st.ctxs with
      | m :: _, c :: _ => .ok (emb v (push st m c), true)
      | _, _ => .error (.panic "index out of range") := by
  obtain ⟨cost, mults, ctxs⟩ := st
  cases mults <;> cases ctxs <;> simp [callback, emb, push]

/-- Closes a leaf of the field-charge case analysis whatever the order in which the source combines
    resolver cost, multiplier and context: split on the three remaining observations, then compute. -/
local macro "charge_leaf" fc:term:max m:term:max : tactic =>
  `(tactic| (cases hc : ($fc).ctx <;> by_cases hm : ($fc).multiplier > 1 <;>
      cases h3 : Generated.checkedNonNegativeMultiply $m ($fc).multiplier <;>
      simp [afterEnter, bind, Except.bind, push, hc, hm, h3, *]))

theorem enter_field {κ : Type} (dflt : FieldCost κ) (fb : String → Option (Node κ))
    (V : Node κ → GSt κ → Except Abort (GSt κ)) (v : List String) (src : CostSrc κ) (st : St κ)
    (rest : GSt κ → Except Abort (GSt κ)) (leave : GSt κ → Except Abort (GSt κ × Bool)) :
    afterEnter leave
        (callback dflt true fb V (some (.field (fieldView src))) (emb v st)) rest =
      match st.mults, st.ctxs with
      | m :: _, c :: _ =>
        (match src with
          | .typename => .ok (st, m, c)
          | .unknown => .error (.secondary "unknown field type")
          | .argError => .error (.secondary "argument coercion")
          | .default => charge dflt st m c
          | .fn f => charge (f c) st m c) >>= fun r =>
        rest (emb v (push r.1 r.2.1 r.2.2)) >>= fun s2 =>
          leave s2 >>= fun r => .ok r.1
      | _, _ => .error (.panic "index out of range") := by
  obtain ⟨cost, mults, ctxs⟩ := st
  cases mults with
  | nil => simp [callback, emb, afterEnter]
  | cons m ms =>
    cases ctxs with
    | nil => simp [callback, emb, afterEnter]
    | cons c cs =>
      cases src with
      | typename => simp [callback, emb, afterEnter, fieldView, push, bind, Except.bind]
      | unknown => simp [callback, emb, afterEnter, fieldView, push, bind, Except.bind, stopped, GErr.newSecondaryError]
      | argError => simp [callback, emb, afterEnter, fieldView, push, bind, Except.bind, stopped, GErr.newSecondaryError]
      | default =>
        simp only [callback, emb, fieldView, charge, mul, add, liftArith]
        cases h1 : Generated.checkedNonNegativeMultiply m dflt.resolver with
        | none => charge_leaf dflt m
        | some t1 =>
          cases h2 : Generated.checkedNonNegativeAdd cost t1 with
          | none => charge_leaf dflt m
          | some t2 => charge_leaf dflt m
      | fn f =>
        simp only [callback, emb, fieldView, charge, mul, add, liftArith]
        cases h1 : Generated.checkedNonNegativeMultiply m (f c).resolver with
        | none => charge_leaf (f c) m
        | some t1 =>
          cases h2 : Generated.checkedNonNegativeAdd cost t1 with
          | none => charge_leaf (f c) m
          | some t2 => charge_leaf (f c) m

def VAgrees {κ : Type} (V : Node κ → GSt κ → Except Abort (GSt κ))
    (recur : Option (List String → Node κ → St κ → Except Abort (St κ))) : Prop :=
  ∀ (v' : List String) (d : Node κ) (st' : St κ),
    V d (emb v' st') = mapEmb v' (match recur with
                                  | none => .error .outOfFuel
                                  | some r => r v' d st')

theorem goset_delete_insert (name : String) (v : List String) (h : ¬ name ∈ v) :
    GoSet.delete name (name :: v) = v := by
  simp only [GoSet.delete, List.filter_cons, beq_self_eq_true, Bool.not_true]
  simp only [Bool.false_eq_true, if_false]
  apply List.filter_eq_self.mpr
  intro a ha
  have : a ≠ name := fun e => h (e ▸ ha)
  simp [this]

theorem enter_spread {κ : Type} (dflt : FieldCost κ) (frags : List (String × Node κ))
    (V : Node κ → GSt κ → Except Abort (GSt κ))
    (recur : Option (List String → Node κ → St κ → Except Abort (St κ))) (hV : VAgrees V recur)
    (v : List String) (name : String) (st : St κ)
    (rest : GSt κ → Except Abort (GSt κ)) (leave : GSt κ → Except Abort (GSt κ × Bool)) :
    afterEnter leave
        (callback dflt true (findFrag frags) V (some (.spread { fragmentName := name })) (emb v st)) rest =
      match st.mults, st.ctxs with
      | m :: _, c :: _ =>
        onSpreadWith frags v recur name st >>= fun st1 =>
        rest (emb v (push st1 m c)) >>= fun s2 => leave s2 >>= fun r => .ok r.1
      | _, _ => .error (.panic "index out of range") := by
  obtain ⟨cost, mults, ctxs⟩ := st
  cases mults with
  | nil => simp [callback, emb, afterEnter]
  | cons m ms =>
    cases ctxs with
    | nil => simp [callback, emb, afterEnter]
    | cons c cs =>
      by_cases hmem : name ∈ v
      · simp [callback, emb, afterEnter, onSpreadWith, hmem, GoSet.mem, stopped, GErr.newSecondaryError,
          bind, Except.bind]
      · cases hf : findFrag frags name with
        | none =>
          simp [callback, emb, afterEnter, onSpreadWith, hmem, GoSet.mem, stopped, GErr.newSecondaryError,
            bind, Except.bind, hf]
        | some d =>
          have hv := hV (name :: v) d { cost := cost, mults := m :: ms, ctxs := c :: cs }
          simp only [emb] at hv
          simp only [callback, emb, onSpreadWith, hmem, GoSet.mem, GoSet.insert, hf, List.contains_iff_mem,
            decide_false, Bool.false_eq_true, if_false, hv]
          cases recur with
          | none => simp [mapEmb, afterEnter, bind, Except.bind]
          | some r =>
            cases hr : r (name :: v) d { cost := cost, mults := m :: ms, ctxs := c :: cs } with
            | error e => simp [mapEmb, afterEnter, bind, Except.bind, hr]
            | ok st1 =>
              simp [mapEmb, afterEnter, bind, Except.bind, emb, push, goset_delete_insert name v hmem, hr]

theorem tail_eq {κ : Type} (dflt : FieldCost κ) (fb : String → Option (Node κ))
    (V : Node κ → GSt κ → Except Abort (GSt κ)) (W : String → St κ → Except Abort (St κ))
    (v : List String) (children : List (Node κ))
    (hrec : ∀ st, inspectList (callback dflt true fb V) children (emb v st) =
      mapEmb v (visitList W dflt children st))
    (x : Except Abort (St κ × Int × κ)) :
    (x >>= fun r => inspectList (callback dflt true fb V) children (emb v (push r.1 r.2.1 r.2.2)) >>= fun s2 =>
        callback dflt true fb V none s2 >>= fun r => .ok r.1) =
      mapEmb v (x >>= fun r => visitList W dflt children (push r.1 r.2.1 r.2.2) >>= pop) := by
  cases x with
  | error e => simp [mapEmb, bind, Except.bind]
  | ok r =>
    simp only [bind, Except.bind]
    rw [hrec]
    cases visitList W dflt children (push r.1 r.2.1 r.2.2) with
    | error e => simp [mapEmb]
    | ok st2 =>
      have := cb_leave dflt true fb V v st2
      simp only [bind, Except.bind] at this
      simp only [mapEmb, this]

mutual
theorem inspect_eq {κ : Type} (dflt : FieldCost κ) (frags : List (String × Node κ))
    (V : Node κ → GSt κ → Except Abort (GSt κ))
    (recur : Option (List String → Node κ → St κ → Except Abort (St κ))) (hV : VAgrees V recur)
    (v : List String) :
    ∀ (node : Node κ) (st : St κ),
      inspect (callback dflt true (findFrag frags) V) node (emb v st) =
        mapEmb v (visit (onSpreadWith frags v recur) dflt node st)
  | .field src children, st => by
    rw [inspect, enter_field]
    have hrec := inspectList_eq dflt frags V recur hV v children
    obtain ⟨cost, mults, ctxs⟩ := st
    cases mults with
    | nil => simp [visit, mapEmb]
    | cons m ms =>
      cases ctxs with
      | nil => simp [visit, mapEmb]
      | cons c cs =>
        cases src <;> simp only [visit] <;>
          exact tail_eq dflt (findFrag frags) V (onSpreadWith frags v recur) v children hrec _
  | .spread name children, st => by
    rw [inspect, enter_spread dflt frags V recur hV]
    have hrec := inspectList_eq dflt frags V recur hV v children
    obtain ⟨cost, mults, ctxs⟩ := st
    cases mults with
    | nil => simp [visit, mapEmb]
    | cons m ms =>
      cases ctxs with
      | nil => simp [visit, mapEmb]
      | cons c cs =>
        simp only [visit]
        cases onSpreadWith frags v recur name { cost := cost, mults := m :: ms, ctxs := c :: cs } with
        | error e => simp [mapEmb, bind, Except.bind]
        | ok st1 =>
          exact tail_eq dflt (findFrag frags) V (onSpreadWith frags v recur) v children hrec (.ok (st1, m, c))
  | .other children, st => by
    rw [inspect, cb_other]
    have hrec := inspectList_eq dflt frags V recur hV v children
    obtain ⟨cost, mults, ctxs⟩ := st
    cases mults with
    | nil => simp [visit, mapEmb, afterEnter]
    | cons m ms =>
      cases ctxs with
      | nil => simp [visit, mapEmb, afterEnter]
      | cons c cs =>
        simp only [visit, afterEnter]
        exact tail_eq dflt (findFrag frags) V (onSpreadWith frags v recur) v children hrec
          (.ok ({ cost := cost, mults := m :: ms, ctxs := c :: cs }, m, c))
theorem inspectList_eq {κ : Type} (dflt : FieldCost κ) (frags : List (String × Node κ))
    (V : Node κ → GSt κ → Except Abort (GSt κ))
    (recur : Option (List String → Node κ → St κ → Except Abort (St κ))) (hV : VAgrees V recur)
    (v : List String) :
    ∀ (nodes : List (Node κ)) (st : St κ),
      inspectList (callback dflt true (findFrag frags) V) nodes (emb v st) =
        mapEmb v (visitList (onSpreadWith frags v recur) dflt nodes st)
  | [], st => by simp [inspectList, visitList, mapEmb]
  | n :: ns, st => by
    simp only [inspectList, visitList, bind, Except.bind]
    rw [inspect_eq dflt frags V recur hV v n st]
    cases visit (onSpreadWith frags v recur) dflt n st with
    | error e => simp [mapEmb]
    | ok st1 =>
      simp only [mapEmb]
      exact inspectList_eq dflt frags V recur hV v ns st1
end

theorem gwalk_eq {κ : Type} (frags : List (String × Node κ)) (dflt : FieldCost κ) :
    ∀ (fuel : Nat) (v : List String) (node : Node κ) (st : St κ),
      gwalk true (findFrag frags) dflt fuel node (emb v st) = mapEmb v (walk frags dflt fuel v node st)
  | 0, v, node, st => by
    simp only [gwalk, walk]
    exact inspect_eq dflt frags _ none (fun v' d st' => by simp [mapEmb]) v node st
  | fuel + 1, v, node, st => by
    simp only [gwalk, walk]
    exact inspect_eq dflt frags _ (some (walk frags dflt fuel))
      (fun v' d st' => gwalk_eq frags dflt fuel v' d st') v node st

/-! ### The two loops over `doc.Definitions` -/

theorem opLoop_frags {κ : Type} (n : String) (fs : List (String × Node κ)) (acc : Option (Op κ)) :
    opLoop n (fs.map (fun p => DefView.fragment p.1 p.2)) acc = acc := by
  induction fs with
  | nil => simp [opLoop]
  | cons p rest ih => simp [opLoop, ih]

/-- The generated operation-choice loop is the model's `chooseOp` (for every value of the loop variable). -/
theorem opLoop_eq {κ : Type} (n : String) (fs : List (String × Node κ)) :
    ∀ (ops : List (Op κ)) (acc : Option (Op κ)),
      opLoop n (ops.map .operation ++ fs.map (fun p => DefView.fragment p.1 p.2)) acc = chooseOp n ops acc
  | [], acc => by simp [chooseOp, opLoop_frags]
  | d :: rest, acc => by
    have ih := opLoop_eq n fs rest
    have hiff : (d.name.isSome = true ∧ d.name = some n) ↔ d.name = some n :=
      ⟨fun h => h.2, fun h => ⟨by rw [h]; rfl, h⟩⟩
    by_cases hm : n = "" ∨ d.name = some n
    · have hm' : n = "" ∨ (d.name.isSome = true ∧ d.name = some n) := by
        rcases hm with h | h
        · exact Or.inl h
        · exact Or.inr (hiff.mpr h)
      cases acc with
      | none => simp [opLoop, chooseOp, hm, hm', ih]
      | some a => simp [opLoop, chooseOp, hm, hm']
    · have hm' : ¬ (n = "" ∨ (d.name.isSome = true ∧ d.name = some n)) := by
        intro h
        rcases h with h | h
        · exact hm (Or.inl h)
        · exact hm (Or.inr h.2)
      simp [opLoop, chooseOp, hm, hm', ih]

theorem fragLoop_ops {κ : Type} (ops : List (Op κ)) (rest : List (DefView κ)) (t : String → Option (Node κ)) :
    fragLoop (ops.map .operation ++ rest) t = fragLoop rest t := by
  induction ops with
  | nil => rfl
  | cons o os ih => simp [fragLoop, ih]

theorem fragLoop_frags {κ : Type} :
    ∀ (fs : List (String × Node κ)) (t : String → Option (Node κ)),
      fragLoop (fs.map (fun p => DefView.fragment p.1 p.2)) t =
        fun k => match findFrag fs k with
                 | some d => some d
                 | none => t k
  | [], t => by funext k; simp [fragLoop, findFrag]
  | (n, d) :: rest, t => by
    funext k
    simp only [List.map_cons, fragLoop, fragLoop_frags rest, findFrag]
    cases findFrag rest k with
    | some d' => rfl
    | none =>
      by_cases h : n = k
      · subst h; simp [GoMap.set]
      · have h' : ¬ k = n := fun e => h e.symm
        simp [GoMap.set, h, h']

/-- The generated fragment-table loop builds the model's `findFrag` (the last definition of a name wins). -/
theorem fragLoop_eq {κ : Type} (doc : Doc κ) :
    fragLoop (defsOf doc) GoMap.empty = findFrag doc.frags := by
  unfold defsOf
  rw [fragLoop_ops, fragLoop_frags]
  funext k
  cases findFrag doc.frags k <;> rfl

theorem opLoop_doc_eq {κ : Type} (opName : String) (doc : Doc κ) :
    opLoop opName (defsOf doc) none = chooseOp opName doc.ops none := by
  unfold defsOf; exact opLoop_eq opName doc.frags doc.ops none

/-- The generated final block, as a closed formula. The proof does not depend on how the source writes
    its integer comparisons, in which order it tests them, or whether it names them first: decide the
    three facts, split every `if` of the generated code, let `omega` discard the impossible branches. -/
theorem finish_spec (max cost : Int) (actualNonNil : Bool) :
    finish max actualNonNil cost [] =
      (if max ≥ 0 then
          if cost < 0 then [GErr.newError "operation cost is too high to calculate" []]
          else if cost > max then [GErr.newError "operation cost of %v exceeds allowed cost of %v" [cost, max]]
          else []
        else [],
       if actualNonNil then some (if cost < 0 then 9223372036854775807 else cost) else none) := by
  by_cases hm : max ≥ 0 <;> by_cases hc : cost < 0 <;> by_cases hx : cost > max <;>
  simp only [hm, hc, hx, if_true, if_false] <;>
  cases actualNonNil <;>
  simp only [finish, GErr.newError, List.length_nil, List.nil_append,
    Int.natCast_zero, if_true, decide_eq_true_eq, Bool.false_eq_true, if_false] <;>
  (repeat' split) <;> first | rfl | (exfalso; omega)

theorem finish_after_error (max cost : Int) (actualNonNil : Bool) (e : GErr) (es : List GErr) :
    finish max actualNonNil cost (e :: es) = (e :: es, none) := by
  have hlen : ((e :: es).length : Int) = (es.length : Int) + 1 := by simp
  have hpos : (0 : Int) ≤ (es.length : Int) := Int.natCast_nonneg _
  simp only [finish]
  generalize (e :: es).length = n at hlen ⊢
  (repeat' split) <;> first | rfl | (exfalso; omega)

theorem finish_eq (max cost : Int) : toResult (finish max true cost []) = report max cost := by
  rw [finish_spec]
  unfold report toResult
  by_cases hm : max ≥ 0 <;> by_cases hc : cost < 0 <;> by_cases hx : cost > max <;>
    simp [hm, hc, hx, GErr.newError, Generated.maxInt]

/-- **generated_eq_model** -/
theorem gvalidateCost_eq {κ : Type} (ctx0 : κ) (opName : String) (varsOk : Bool) (max : Int)
    (dflt : FieldCost κ) (doc : Doc κ) :
    gvalidateCost ctx0 opName varsOk max dflt doc = validateCost ctx0 opName varsOk max dflt doc := by
  unfold gvalidateCost validateCost finalCost rule
  simp only [opLoop_doc_eq, fragLoop_eq]
  cases hc : chooseOp opName doc.ops none with
  | none =>
    simp only [Option.isSome_none, Bool.false_eq_true, if_false, and_false]
    exact finish_eq max 0
  | some o =>
    cases varsOk with
    | false =>
      simp only [Option.isSome_some, if_true, Bool.not_false, List.nil_append, List.length_cons,
        List.length_nil]
      have hne : ¬ (((0 + 1 : Nat) : Int) = 0 ∧ True) := by omega
      simp only [hne, if_false, GErr.newSecondaryError, finish_after_error]
      rfl
    | true =>
      have h := gwalk_eq doc.frags dflt doc.frags.length [] o.node { cost := 0, mults := [1], ctxs := [ctx0] }
      simp only [emb] at h
      simp only [Option.isSome_some, if_true, Bool.not_true, Bool.false_eq_true, if_false, List.length_nil,
        Int.natCast_zero, and_self, h]
      cases walk doc.frags dflt doc.frags.length [] o.node { cost := 0, mults := [1], ctxs := [ctx0] } with
      | error e => cases e <;> simp [mapEmb, bind, Except.bind]
      | ok st => simp only [mapEmb, emb, bind, Except.bind]; exact finish_eq max st.cost

end ApiFu.C14
