/-
  C14 — the fragment of Go integer semantics that the generated arithmetic (Generated.lean) uses.
  Go's `int` is 64 bits on the platforms the check runs on (the translator asserts that the
  package constant `maxInt` evaluates to 2^63-1). Core Lean only.
-/
namespace ApiFu.C14

/-- Two's-complement wrap-around of an exact integer result to 64 bits: the unique value in
    [-2^63, 2^63) congruent to `x` modulo 2^64. Go's `+ - *` on `int` compute exactly this. -/
def wrap64 (x : Int) : Int := (x + 9223372036854775808) % 18446744073709551616 - 9223372036854775808

/-- Go's `x / y` on `int` for `y ≠ 0`: truncated division (rounds toward zero); the single
    overflowing case `minInt / -1` wraps. The translator guards every use with an explicit
    `if y = 0 then none` (Go panics), so the value at `y = 0` is never used. -/
def goDiv (x y : Int) : Int := wrap64 (Int.tdiv x y)

/-- Go's `x % y` on `int` for `y ≠ 0`: remainder of truncated division (sign of the dividend). -/
def goMod (x y : Int) : Int := wrap64 (Int.tmod x y)

end ApiFu.C14
