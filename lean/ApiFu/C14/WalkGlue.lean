/-
  C14 — the hand-written frame around the generated callback (GeneratedWalk.lean): what is *not* taken
  from validate_cost.go but from the meaning of the things it calls.

    * `inspect` — `ast.Inspect(node, f)`: `if f(node) { for each child c: Inspect(c, f); f(nil) }`
      (go/ast-style walker of graphql/ast; children in the order of the model's `Node`).
    * `stopped` — the one stated simplification of the model, kept here: when the callback returns
      `false` (it does so exactly when `ret` is non-empty) the real walk goes on with the node's
      siblings and discards everything but `ret`; the frame stops with the first entry of `ret`.
    * `gwalk` — `visitNode` (the recursion through `visitNode(def)` of the spread branch) with the same
      fuel as the model's `walk` (Props.walk_never_out_of_fuel: never exhausted).
    * `gvalidateCost` — the rule: the generated operation-choice loop (`opLoop`) and fragment-table loop
      (`fragLoop`) over the document's definitions, the generated initial values, the generated walk, the
      generated final block (`finish`), and the reading of `ret` as a verdict. Not generated here: the
      sequencing of these pieces (the translator checks the start condition of the walk syntactically)
      and `CoerceVariableValues` (`varsOk`).
  Everything else — the order of the stack reads, the field / spread / other decision tree, how
  resolver cost, multiplier, context multiplier, default cost are combined and where saturation is
  applied, the push after the node and the pop on `nil`, the limit comparison and the write to
  `*actual` — is `GeneratedWalk.callback` / `GeneratedWalk.finish`, regenerated on every check.
  Core Lean only.
-/
import ApiFu.C14.GeneratedWalk

namespace ApiFu.C14

abbrev Callback (κ : Type) := Option (NodeView κ) → GSt κ → Except Abort (GSt κ × Bool)

/-- The callback returned `false`: no children, no `f(nil)`. (Simplification: stop at the first error.) -/
def stopped {κ : Type} (s : GSt κ) : Except Abort (GSt κ) :=
  match s.ret with
  | e :: _ => .error (.secondary e.msg)
  | [] => .ok s

/-- What `ast.Inspect` does with the callback's answer `r` for a node whose children are walked by
    `rest`; `leave` is the callback applied to `nil`. -/
def afterEnter {κ : Type} (leave : GSt κ → Except Abort (GSt κ × Bool)) (r : Except Abort (GSt κ × Bool))
    (rest : GSt κ → Except Abort (GSt κ)) : Except Abort (GSt κ) :=
  match r with
  | .error e => .error e
  | .ok (s1, true) => rest s1 >>= fun s2 => leave s2 >>= fun r => .ok r.1
  | .ok (s1, false) => stopped s1

mutual
/-- `ast.Inspect(node, cb)`. -/
def inspect {κ : Type} (cb : Callback κ) : Node κ → GSt κ → Except Abort (GSt κ)
  | .field src children, s =>
    afterEnter (cb none) (cb (some (.field (fieldView src))) s) (fun s1 => inspectList cb children s1)
  | .spread name children, s =>
    afterEnter (cb none) (cb (some (.spread { fragmentName := name })) s) (fun s1 => inspectList cb children s1)
  | .other children, s =>
    afterEnter (cb none) (cb (some .other) s) (fun s1 => inspectList cb children s1)
def inspectList {κ : Type} (cb : Callback κ) : List (Node κ) → GSt κ → Except Abort (GSt κ)
  | [], s => .ok s
  | n :: ns, s => inspect cb n s >>= inspectList cb ns
end

/-- `visitNode`, by fuel (see `walk`). -/
def gwalk {κ : Type} (coerced : Bool) (table : String → Option (Node κ)) (dflt : FieldCost κ) :
    Nat → Node κ → GSt κ → Except Abort (GSt κ)
  | 0 => inspect (GeneratedWalk.callback dflt coerced table (fun _ _ => .error .outOfFuel))
  | fuel + 1 => inspect (GeneratedWalk.callback dflt coerced table (gwalk coerced table dflt fuel))

/-- `ret` and `*actual` as a `Result`. -/
def toResult (r : List GErr × Option Int) : Result :=
  match r.1 with
  | [] => { verdict := .accepted, actual := r.2 }
  | e :: _ =>
    if e.secondary then { verdict := .secondary e.msg, actual := r.2 }
    else if e.msg = "operation cost is too high to calculate" then { verdict := .tooHigh, actual := r.2 }
    else match e.args with
      | [c, m] => { verdict := .exceeds c m, actual := r.2 }
      | _ => { verdict := .secondary e.msg, actual := r.2 }

/-- The whole rule: the generated body of the rule (`GeneratedWalk.rule`: the declarations, the two
    loops, the `CoerceVariableValues` guard, the start condition of the walk, the final block) with
    `visitNode` = the generated walk by fuel and `actual` non-nil, read as a `Result`. -/
def gvalidateCost {κ : Type} (ctx0 : κ) (opName : String) (varsOk : Bool) (max : Int)
    (dflt : FieldCost κ) (doc : Doc κ) : Result :=
  match GeneratedWalk.rule ctx0 opName max true varsOk (defsOf doc)
      (fun coerced table => gwalk coerced table dflt doc.frags.length) with
  | .ok r => toResult r
  | .error (.secondary m) => { verdict := .secondary m, actual := none }
  | .error (.panic w) => { verdict := .panicked w, actual := none }
  | .error .outOfFuel => { verdict := .outOfFuel, actual := none }

end ApiFu.C14
