/-
  C14 — a concrete model of how a cost function receives a coerced `Int` argument: the instantiation of
  the model's argument-resolution parameter for the `first` / `last` arguments of connections
  (and every other nullable or non-null `Int` argument), from the request as it is written:

      query Q($v: Int = 7, …) { conn(first: $v, last: null) { … } }      + the request's variables

  Transliterated (for the scalar `Int`):
    * `validator.CoerceVariableValues` (graphql/validator/coerce.go:8-36) = `coerceVariable` /
      `coerceVariables` — per variable definition: value absent and a default → the coerced default;
      absent and non-null → error; present → `schema.CoerceVariableValue` (nil for a non-null type is an
      error, an integer must fit 32 bits); **an explicit null is null, the default does not apply**;
      a variable left out and without default gets *no* entry.
    * `validator.CoerceArgumentValues` (coerce.go:38-85) = `coerceArgument` — per argument definition:
      `hasValue` = the argument is written, and, when written as a variable, the variable has an entry;
      no value and a default → the default; no value and non-null → error; a variable → its entry's
      value (nil for a non-null argument is an error); a literal → `schema.CoerceLiteral` (null for a
      non-null type is an error; `IntType.LiteralCoercion`: 32 bits); otherwise **no entry**.
  The result is what `FieldCostContext.Arguments[name]` holds: `ArgVal` = no key | nil | int — exactly
  what the model's `connMaxCount` / `resolverEdgeLimit` read through Go's `.(int)` assertion.
  Core Lean only (the driver evaluates it: the harness sends the raw spelling).
-/
import ApiFu.C14.Model

namespace ApiFu.C14

/-- An `Int`-typed literal: `null` or an integer (a default value, or an argument written literally). -/
inductive Lit where
  | null
  | int (n : Int)
  deriving Repr, DecidableEq

/-- `$name: Int` / `Int!` with an optional default. -/
structure VarDecl where
  name : String
  nonNull : Bool
  dflt : Option Lit
  deriving Repr, DecidableEq

/-- How an argument is written in the field selection. -/
inductive Spelling where
  | absent
  | lit (l : Lit)
  | var (name : String)
  deriving Repr, DecidableEq

/-- `IntType` coercions accept integers of 32 bits only. -/
def inInt32 (n : Int) : Bool := decide (-2147483648 ≤ n) && decide (n ≤ 2147483647)

/-- `schema.CoerceLiteral(lit, Int | Int!)`. -/
def coerceLit (nonNull : Bool) : Lit → Except String ArgVal
  | .null => if nonNull then .error "cannot coerce null to non-null type" else .ok .null
  | .int n => if inInt32 n then .ok (.int n) else .error "cannot coerce to Int"

/-- One iteration of the loop of `CoerceVariableValues` (coerce.go:16-33). `given` is the entry of the
    request's variables map (`absent` = no key, `null` = JSON null, `int` = a JSON integer). The result
    is the entry written to `coercedValues` (`absent` = none is written). -/
def coerceVariable (d : VarDecl) (given : ArgVal) : Except String ArgVal :=
  match given, d.dflt with
  | .absent, some l =>
    match coerceLit d.nonNull l with
    | .ok v => .ok v
    | .error _ => .error "Invalid default value"
  | .absent, none => if d.nonNull then .error "The variable is required." else .ok .absent
  | .null, _ => if d.nonNull then .error "Invalid value: a value is required" else .ok .null
  | .int n, _ => if inInt32 n then .ok (.int n) else .error "Invalid value"

/-- `CoerceVariableValues`: the entries in the order of the variable definitions. -/
def coerceVariables (given : String → ArgVal) : List VarDecl → Except String (List (String × ArgVal))
  | [] => .ok []
  | d :: ds =>
    match coerceVariable d (given d.name) with
    | .error e => .error e
    | .ok v =>
      match coerceVariables given ds with
      | .error e => .error e
      | .ok rest => .ok ((d.name, v) :: rest)

/-- `coercedValues[name]` after the loop: the entry written last (an `absent` entry was never written). -/
def lookupVar : List (String × ArgVal) → String → ArgVal
  | [], _ => .absent
  | (n, v) :: rest, name =>
    match lookupVar rest name with
    | .absent => if n = name then v else .absent
    | r => r

/-- One iteration of the loop of `CoerceArgumentValues` (coerce.go:46-81) for an `Int` argument with
    nullability `nonNull` and default `dflt`; `vars` is the coerced variables map. -/
def coerceArgument (nonNull : Bool) (dflt : Option Lit) (vars : String → ArgVal) : Spelling → Except String ArgVal
  | sp =>
    let hasValue : Bool :=
      match sp with
      | .absent => false
      | .lit _ => true
      | .var v => match vars v with | .absent => false | _ => true
    if !hasValue && dflt.isSome then
      match dflt with
      | some (.int n) => .ok (.int n)
      | _ => .ok .null                       -- `schema.Null` → nil
    else if nonNull && !hasValue then .error "The argument is required."
    else if hasValue then
      match sp with
      | .var v =>
        match vars v with
        | .int n => .ok (.int n)
        | _ => if nonNull then .error "The argument cannot be null." else .ok .null
      | .lit l =>
        match coerceLit nonNull l with
        | .ok a => .ok a
        | .error _ => .error "Invalid argument value"
      | .absent => .ok .absent               -- unreachable: hasValue is false
    else .ok .absent

/-- The request as far as `first` / `last` of one connection selection are concerned. -/
structure ConnRequest where
  decls : List VarDecl
  given : String → ArgVal
  first : Spelling
  last : Spelling

/-- What the cost function and the resolver of `conn(first: …, last: …)` receive in
    `Arguments["first"]`, `Arguments["last"]` (nullable `Int`, no default — pagination.go), or the
    coercion error that makes the rule report a secondary error. -/
def ConnRequest.args (r : ConnRequest) : Except String (ArgVal × ArgVal) :=
  match coerceVariables r.given r.decls with
  | .error e => .error e
  | .ok m =>
    match coerceArgument false none (lookupVar m) r.first, coerceArgument false none (lookupVar m) r.last with
    | .ok f, .ok l => .ok (f, l)
    | .error e, _ => .error e
    | _, .error e => .error e

end ApiFu.C14
