/-
  C20 — lemmas about the naming functions (`fieldName`, `equalFold`, `isExported`, `natDigits`).
-/
import ApiFu.C20.Model

namespace ApiFu.C20

/-- The envelope's "response key begins with a letter". -/
def startsWithLetter (n : Name) : Bool :=
  match n with
  | c :: _ => (65 ≤ c && c ≤ 90) || (97 ≤ c && c ≤ 122)
  | [] => false

theorem toLower_toUpper (c : Nat) : toLower (toUpper c) = toLower c := by
  unfold toLower toUpper
  split <;> split <;> (try split) <;> omega

theorem fieldName_of_letter {n : Name} (h : startsWithLetter n = true) : fieldName n = title n := by
  cases n with
  | nil => simp [startsWithLetter] at h
  | cons c cs =>
    unfold fieldName
    split
    · rename_i rest heq
      injection heq with h1 h2
      subst h1
      simp [startsWithLetter] at h
    · rfl

theorem isExported_fieldName {n : Name} (h : startsWithLetter n = true) : isExported (fieldName n) = true := by
  rw [fieldName_of_letter h]
  cases n with
  | nil => simp [startsWithLetter] at h
  | cons c cs =>
    simp only [startsWithLetter, Bool.or_eq_true, Bool.and_eq_true, decide_eq_true_eq] at h
    simp only [title, isExported, toUpper, Bool.and_eq_true, decide_eq_true_eq]
    split <;> omega

theorem lowerAll_fieldName {n : Name} (h : startsWithLetter n = true) : lowerAll (fieldName n) = lowerAll n := by
  rw [fieldName_of_letter h]
  cases n with
  | nil => rfl
  | cons c cs => simp [title, lowerAll, toLower_toUpper]

theorem equalFold_fieldName {n : Name} (h : startsWithLetter n = true) : equalFold (fieldName n) n = true := by
  simp [equalFold, lowerAll_fieldName h]

/-- `Typename__` -/
def n_Typename__ : Name := [84, 121, 112, 101, 110, 97, 109, 101, 95, 95]

theorem fieldName_typename : fieldName n_typename = n_Typename__ := by decide
theorem isExported_Typename__ : isExported n_Typename__ = true := by decide
theorem equalFold_Typename__ : equalFold n_Typename__ n_typename = false := by decide
theorem startsWithLetter_typename : startsWithLetter n_typename = false := by decide

/-- A response key the envelope admits: it begins with a letter, or it is the unaliased `__typename`. -/
def keyOK (k : Name) : Bool := startsWithLetter k || k == n_typename

theorem isExported_fieldName_of_keyOK {k : Name} (h : keyOK k = true) : isExported (fieldName k) = true := by
  simp only [keyOK, Bool.or_eq_true, beq_iff_eq] at h
  rcases h with h | h
  · exact isExported_fieldName h
  · subst h; decide

/-- The JSON name under which encoding/json fills the field generated for a response key. -/
theorem jsonNameOf_toGoField {e : FieldEntry} (hd : e.dash = false) (hk : keyOK e.key = true) :
    ∃ jn, jsonNameOf (toGoField e) = some jn ∧ lowerAll jn = lowerAll e.key := by
  have hex : isExported (fieldName e.key) = true := isExported_fieldName_of_keyOK hk
  simp only [keyOK, Bool.or_eq_true, beq_iff_eq] at hk
  rcases hk with hk | hk
  · refine ⟨fieldName e.key, ?_, lowerAll_fieldName hk⟩
    simp [jsonNameOf, toGoField, GoField.name, GoField.tag, hd, hex, equalFold_fieldName hk]
  · refine ⟨e.key, ?_, rfl⟩
    have h2 : equalFold (fieldName e.key) e.key = false := by rw [hk]; decide
    simp [jsonNameOf, toGoField, GoField.name, GoField.tag, hd, hex, h2]

theorem jsonNameOf_toGoField_dash {e : FieldEntry} (hd : e.dash = true) : jsonNameOf (toGoField e) = none := by
  simp [jsonNameOf, toGoField, GoField.name, GoField.tag, hd]

theorem toGoField_name (e : FieldEntry) : (toGoField e).name = fieldName e.key := rfl
theorem toGoField_ty (e : FieldEntry) : (toGoField e).ty = e.ty := rfl

theorem toGoField_tag_dash {e : FieldEntry} (hd : e.dash = true) : (toGoField e).tag = .dash := by
  simp [toGoField, GoField.tag, hd]

end ApiFu.C20
