/-
  C20 — lemmas about the `decode` model: monotone in its fuel, hence a fuel-free relation `Decodes`
  with one introduction rule per shape of generated type.
-/
import ApiFu.C20.Spec

namespace ApiFu.C20

/-- Pointwise relation of two lists (core Lean has no `Forall2`). -/
inductive Forall2 {α β : Type} (R : α → β → Prop) : List α → List β → Prop where
  | nil : Forall2 R [] []
  | cons {a b as bs} : R a b → Forall2 R as bs → Forall2 R (a :: as) (b :: bs)

/-! ### mapOpt -/

theorem mapOpt_mono {α β : Type} {f g : α → Option β} (h : ∀ x y, f x = some y → g x = some y) :
    ∀ (xs : List α) (ys : List β), mapOpt f xs = some ys → mapOpt g xs = some ys := by
  intro xs
  induction xs with
  | nil => intro ys h'; simpa [mapOpt] using h'
  | cons x xs ih =>
    intro ys h'
    unfold mapOpt at h' ⊢
    cases hx : f x with
    | none => simp [hx] at h'
    | some y =>
      cases hxs : mapOpt f xs with
      | none => simp [hx, hxs] at h'
      | some ys' =>
        simp [hx, hxs] at h'
        simp [h x y hx, ih ys' hxs, h']

theorem mapOpt_eq_some_of_forall₂ {α β : Type} {f : α → Option β} :
    ∀ {xs : List α} {ys : List β}, Forall2 (fun x y => f x = some y) xs ys → mapOpt f xs = some ys := by
  intro xs ys h
  induction h with
  | nil => rfl
  | cons hx _ ih => simp [mapOpt, hx, ih]

theorem forall₂_of_mapOpt_eq_some {α β : Type} {f : α → Option β} :
    ∀ {xs : List α} {ys : List β}, mapOpt f xs = some ys → Forall2 (fun x y => f x = some y) xs ys := by
  intro xs
  induction xs with
  | nil => intro ys h; simp [mapOpt] at h; subst h; exact .nil
  | cons x xs ih =>
    intro ys h
    unfold mapOpt at h
    cases hx : f x with
    | none => simp [hx] at h
    | some y =>
      cases hxs : mapOpt f xs with
      | none => simp [hx, hxs] at h
      | some ys' =>
        simp [hx, hxs] at h
        subst h
        exact .cons hx (ih hxs)

/-! ### Monotonicity in the decoder argument -/

theorem decodeFieldWith_mono {dec dec' : GoTy → Json → Option GoVal} (zero : GoTy → GoVal)
    (h : ∀ t j v, dec t j = some v → dec' t j = some v) (all : List GoField) (kvs : List JMember)
    (f : GoField) (vf : GoValField) :
    decodeFieldWith dec zero all kvs f = some vf → decodeFieldWith dec' zero all kvs f = some vf := by
  unfold decodeFieldWith
  cases lastFor all f.name kvs with
  | none => exact id
  | some j =>
    simp only
    cases hd : dec f.ty j with
    | none => simp
    | some v => simp [h _ _ _ hd]

theorem decodeStructWith_mono {dec dec' : GoTy → Json → Option GoVal} (zero : GoTy → GoVal)
    (h : ∀ t j v, dec t j = some v → dec' t j = some v) (fs : List GoField) (j : Json) (vs : List GoValField) :
    decodeStructWith dec zero fs j = some vs → decodeStructWith dec' zero fs j = some vs := by
  unfold decodeStructWith
  split
  · exact id
  · cases j with
    | obj kvs => exact mapOpt_mono (decodeFieldWith_mono zero h fs kvs) fs vs
    | _ => exact id

theorem applyActionsWith_mono {dec dec' : GoTy → Json → Option GoVal}
    (h : ∀ t j v, dec t j = some v → dec' t j = some v) (fs : List GoField) (b : Json)
    (base : List GoValField) (acts : List Action) (vs : List GoValField) :
    applyActionsWith dec fs b base acts = some vs → applyActionsWith dec' fs b base acts = some vs := by
  unfold applyActionsWith
  split
  · exact id
  · apply mapOpt_mono
    intro bf y
    split
    · cases fieldTy fs bf.name with
      | none => exact id
      | some t =>
        simp only
        cases hd : dec t b with
        | none => simp
        | some v => simp [h _ _ _ hd]
    · exact id

/-! ### Monotonicity in the fuel -/

theorem decode_mono (env : List Decl) :
    ∀ (fuel : Nat) (ty : GoTy) (j : Json) (v : GoVal),
      decode env fuel ty j = some v → decode env (fuel + 1) ty j = some v := by
  intro fuel
  induction fuel with
  | zero => intro ty j v h; simp [decode] at h
  | succ n ih =>
    intro ty j v h
    have ih' : ∀ t j v, decode env n t j = some v → decode env (n + 1) t j = some v := ih
    unfold decode at h ⊢
    cases ty with
    | ptr t =>
      simp only at h ⊢
      split at h
      · rename_i hn; simp only [hn]; exact h
      · rename_i hn
        simp only [hn]
        cases hd : decode env n t j with
        | none => simp [hd] at h
        | some w => simp [hd] at h; simp [ih' _ _ _ hd, h]
    | slice t =>
      simp only at h ⊢
      cases j with
      | arr xs =>
        simp only at h ⊢
        cases hm : mapOpt (decode env n t) xs with
        | none => simp [hm] at h
        | some ws =>
          simp [hm] at h
          simp [mapOpt_mono (ih' t) xs ws hm, h]
      | _ => exact h
    | struct fs =>
      simp only at h ⊢
      cases hs : decodeStructWith (decode env n) (zeroWith (underOf env) zeroFuel) fs j with
      | none => simp [hs] at h
      | some ws =>
        simp [hs] at h
        simp [decodeStructWith_mono _ ih' fs j ws hs, h]
    | named nm =>
      simp only at h ⊢
      cases hl : lookupDecl env nm with
      | none => simp [hl] at h
      | some d =>
        cases d with
        | enum a b => simp only [hl] at h ⊢; exact h
        | typedef a t c => simp only [hl] at h ⊢; exact ih' _ _ _ h
        | sel a fs acts =>
          simp only [hl] at h ⊢
          cases hs : decodeStructWith (decode env n) (zeroWith (underOf env) zeroFuel) fs j with
          | none => simp [hs] at h
          | some base =>
            simp only [hs] at h
            simp only [decodeStructWith_mono _ ih' fs j base hs]
            cases ha : applyActionsWith (decode env n) fs j base acts with
            | none => simp [ha] at h
            | some ws =>
              simp [ha] at h
              simp [applyActionsWith_mono ih' fs j base acts ws ha, h]
    | bool => exact h
    | int => exact h
    | float64 => exact h
    | string => exact h
    | any => exact h

theorem decode_mono_le (env : List Decl) {f f' : Nat} (hle : f ≤ f') {ty : GoTy} {j : Json} {v : GoVal}
    (h : decode env f ty j = some v) : decode env f' ty j = some v := by
  induction hle with
  | refl => exact h
  | step _ ih => exact decode_mono env _ _ _ _ ih

/-- The fuel-free decoding relation: with enough fuel, `json.Unmarshal(j, &x)` for `x : ty` yields `v`. -/
def Decodes (env : List Decl) (ty : GoTy) (j : Json) (v : GoVal) : Prop :=
  ∃ fuel, decode env fuel ty j = some v

theorem Decodes.functional {env : List Decl} {ty : GoTy} {j : Json} {v w : GoVal}
    (h₁ : Decodes env ty j v) (h₂ : Decodes env ty j w) : v = w := by
  obtain ⟨f₁, h₁⟩ := h₁
  obtain ⟨f₂, h₂⟩ := h₂
  have a := decode_mono_le env (Nat.le_max_left f₁ f₂) h₁
  have b := decode_mono_le env (Nat.le_max_right f₁ f₂) h₂
  rw [a] at b
  exact Option.some.inj b

/-! ### One fuel for finitely many decodings -/

theorem Forall2.imp {α β : Type} {R Q : α → β → Prop} (h : ∀ a b, R a b → Q a b) :
    ∀ {xs : List α} {ys : List β}, Forall2 R xs ys → Forall2 Q xs ys := by
  intro xs ys hr
  induction hr with
  | nil => exact .nil
  | cons hab _ ih => exact .cons (h _ _ hab) ih


theorem forall2_common_fuel {env : List Decl} {α : Type} (ty : α → GoTy) (js : α → Json) :
    ∀ {xs : List α} {ws : List GoVal},
      Forall2 (fun x w => Decodes env (ty x) (js x) w) xs ws →
      ∃ f, Forall2 (fun x w => decode env f (ty x) (js x) = some w) xs ws := by
  intro xs ws h
  induction h with
  | nil => exact ⟨0, .nil⟩
  | @cons a b as bs hab _ ih =>
    obtain ⟨f₁, h₁⟩ := hab
    obtain ⟨f₂, h₂⟩ := ih
    exact ⟨max f₁ f₂, .cons (decode_mono_le env (Nat.le_max_left _ _) h₁)
      (Forall2.imp (fun _ _ hx => decode_mono_le env (Nat.le_max_right _ _) hx) h₂)⟩

/-! ### Introduction rules of `Decodes` -/

theorem Decodes.ptr_null (env : List Decl) (t : GoTy) : Decodes env (.ptr t) .null .nil :=
  ⟨1, by simp [decode, Json.isNull]⟩

theorem Decodes.ptr {env : List Decl} {t : GoTy} {j : Json} {v : GoVal}
    (h : Decodes env t j v) (hn : j.isNull = false) : Decodes env (.ptr t) j (.ptr v) := by
  obtain ⟨f, h⟩ := h
  exact ⟨f + 1, by simp [decode, hn, h]⟩

theorem Decodes.slice_null (env : List Decl) (t : GoTy) : Decodes env (.slice t) .null .nil :=
  ⟨1, by simp [decode]⟩

theorem Decodes.slice {env : List Decl} {t : GoTy} {xs : List Json} {ws : List GoVal}
    (h : Forall2 (fun x w => Decodes env t x w) xs ws) : Decodes env (.slice t) (.arr xs) (.slice ws) := by
  obtain ⟨f, hf⟩ := forall2_common_fuel (fun _ => t) (fun x => x) h
  exact ⟨f + 1, by simp [decode, mapOpt_eq_some_of_forall₂ hf]⟩

theorem Decodes.bool (env : List Decl) (b : Bool) : Decodes env .bool (.bool b) (.bool b) := ⟨1, by simp [decode]⟩
theorem Decodes.int (env : List Decl) (t : Name) : Decodes env .int (.num true t) (.int t) := ⟨1, by simp [decode]⟩
theorem Decodes.float (env : List Decl) (i : Bool) (t : Name) : Decodes env .float64 (.num i t) (.float t) :=
  ⟨1, by simp [decode]⟩
theorem Decodes.string (env : List Decl) (s : Name) : Decodes env .string (.str s) (.str s) := ⟨1, by simp [decode]⟩

theorem Decodes.enum {env : List Decl} {n a : Name} {cs : List (Name × Name)}
    (hl : lookupDecl env n = some (.enum a cs)) (s : Name) : Decodes env (.named n) (.str s) (.str s) :=
  ⟨1, by simp [decode, hl]⟩

theorem Decodes.typedef {env : List Decl} {n a : Name} {t : GoTy} {c : Bool} {j : Json} {v : GoVal}
    (hl : lookupDecl env n = some (.typedef a t c)) (h : Decodes env t j v) : Decodes env (.named n) j v := by
  obtain ⟨f, h⟩ := h
  exact ⟨f + 1, by simp [decode, hl, h]⟩

/-- What one struct field receives from the members of an object. -/
def FieldDecodes (env : List Decl) (all : List GoField) (kvs : List JMember) (f : GoField) (vf : GoValField) : Prop :=
  match lastFor all f.name kvs with
  | none => vf = .mk f.name f.tag (zeroWith (underOf env) zeroFuel f.ty)
  | some j => ∃ v, Decodes env f.ty j v ∧ vf = .mk f.name f.tag v

theorem structFields_common_fuel {env : List Decl} {all : List GoField} {kvs : List JMember} :
    ∀ {fs : List GoField} {vfs : List GoValField},
      Forall2 (FieldDecodes env all kvs) fs vfs →
      ∃ n, Forall2 (fun f vf => decodeFieldWith (decode env n) (zeroWith (underOf env) zeroFuel) all kvs f = some vf) fs vfs := by
  intro fs vfs h
  induction h with
  | nil => exact ⟨0, .nil⟩
  | @cons f vf fs' vfs' hf _ ih =>
    obtain ⟨n₂, h₂⟩ := ih
    have mono : ∀ {n n' : Nat}, n ≤ n' → ∀ g w,
        decodeFieldWith (decode env n) (zeroWith (underOf env) zeroFuel) all kvs g = some w →
        decodeFieldWith (decode env n') (zeroWith (underOf env) zeroFuel) all kvs g = some w :=
      fun hle g w => decodeFieldWith_mono _ (fun _ _ _ hd => decode_mono_le env hle hd) all kvs g w
    have h₁ : ∃ n₁, decodeFieldWith (decode env n₁) (zeroWith (underOf env) zeroFuel) all kvs f = some vf := by
      unfold FieldDecodes at hf
      unfold decodeFieldWith
      cases hl : lastFor all f.name kvs with
      | none => simp [hl] at hf; exact ⟨0, by simp [hf]⟩
      | some j =>
        simp [hl] at hf
        obtain ⟨v, ⟨n, hd⟩, rfl⟩ := hf
        exact ⟨n, by simp [hd]⟩
    obtain ⟨n₁, h₁⟩ := h₁
    exact ⟨max n₁ n₂, .cons (mono (Nat.le_max_left _ _) _ _ h₁) (Forall2.imp (mono (Nat.le_max_right _ _)) h₂)⟩

theorem Decodes.struct {env : List Decl} {fs : List GoField} {kvs : List JMember} {vfs : List GoValField}
    (hdup : hasDupNames fs = false) (h : Forall2 (FieldDecodes env fs kvs) fs vfs) :
    Decodes env (.struct fs) (.obj kvs) (.struct vfs) := by
  obtain ⟨n, hn⟩ := structFields_common_fuel h
  exact ⟨n + 1, by simp [decode, decodeStructWith, hdup, mapOpt_eq_some_of_forall₂ hn]⟩

/-- What the generated `UnmarshalJSON` leaves in one field after the statements following `*s = base`. -/
def ActionDecodes (env : List Decl) (fs : List GoField) (b : Json) (base : List GoValField) (acts : List Action)
    (bf w : GoValField) : Prop :=
  if acts.any (fun a => a.field == bf.name && actionFires base a) then
    ∃ t v, fieldTy fs bf.name = some t ∧ Decodes env t b v ∧ w = .mk bf.name bf.tag v
  else w = bf

theorem actions_common_fuel {env : List Decl} {fs : List GoField} {b : Json} {base : List GoValField}
    {acts : List Action} :
    ∀ {bs ws : List GoValField}, Forall2 (ActionDecodes env fs b base acts) bs ws →
      ∃ n, Forall2 (fun (bf : GoValField) w =>
        (if acts.any (fun a => a.field == bf.name && actionFires base a) then
          match fieldTy fs bf.name with
          | some t => (decode env n t b).map (GoValField.mk bf.name bf.tag)
          | none => none
         else some bf) = some w) bs ws := by
  intro bs ws h
  induction h with
  | nil => exact ⟨0, .nil⟩
  | @cons bf w bs' ws' hf _ ih =>
    obtain ⟨n₂, h₂⟩ := ih
    have mono : ∀ {n n' : Nat}, n ≤ n' → ∀ (g : GoValField) (u : GoValField),
        (if acts.any (fun a => a.field == g.name && actionFires base a) then
          match fieldTy fs g.name with
          | some t => (decode env n t b).map (GoValField.mk g.name g.tag)
          | none => none
         else some g) = some u →
        (if acts.any (fun a => a.field == g.name && actionFires base a) then
          match fieldTy fs g.name with
          | some t => (decode env n' t b).map (GoValField.mk g.name g.tag)
          | none => none
         else some g) = some u := by
      intro n n' hle g u
      split
      · cases fieldTy fs g.name with
        | none => exact id
        | some t =>
          simp only
          cases hd : decode env n t b with
          | none => simp
          | some v => simp [decode_mono_le env hle hd]
      · exact id
    have h₁ : ∃ n₁, (if acts.any (fun a => a.field == bf.name && actionFires base a) then
          match fieldTy fs bf.name with
          | some t => (decode env n₁ t b).map (GoValField.mk bf.name bf.tag)
          | none => none
         else some bf) = some w := by
      unfold ActionDecodes at hf
      split at hf
      · rename_i hc
        obtain ⟨t, v, ht, ⟨n, hd⟩, rfl⟩ := hf
        exact ⟨n, by simp [hc, ht, hd]⟩
      · rename_i hc
        exact ⟨0, by simp [hc, hf]⟩
    obtain ⟨n₁, h₁⟩ := h₁
    exact ⟨max n₁ n₂, .cons (mono (Nat.le_max_left _ _) _ _ h₁) (Forall2.imp (mono (Nat.le_max_right _ _)) h₂)⟩

/-- The generated `UnmarshalJSON` of a `sel…` type (main.go:180-228). -/
theorem Decodes.sel {env : List Decl} {n a : Name} {fs : List GoField} {acts : List Action} {j : Json}
    {base ws : List GoValField}
    (hl : lookupDecl env n = some (.sel a fs acts))
    (hbase : Decodes env (.struct fs) j (.struct base))
    (hcomp : acts.all (actionCompiles fs) = true)
    (hacts : Forall2 (ActionDecodes env fs j base acts) base ws) :
    Decodes env (.named n) j (.struct ws) := by
  obtain ⟨n₁, h₁⟩ := hbase
  obtain ⟨n₂, h₂⟩ := actions_common_fuel hacts
  cases n₁ with
  | zero => simp [decode] at h₁
  | succ m =>
    have hb : decodeStructWith (decode env m) (zeroWith (underOf env) zeroFuel) fs j = some base := by
      simp [decode] at h₁
      exact h₁
    have hb' := decodeStructWith_mono (zeroWith (underOf env) zeroFuel)
      (fun _ _ _ hd => decode_mono_le env (Nat.le_max_left m n₂) hd) fs j base hb
    have ha : applyActionsWith (decode env (max m n₂)) fs j base acts = some ws := by
      unfold applyActionsWith
      simp only [hcomp]
      apply mapOpt_eq_some_of_forall₂
      refine Forall2.imp ?_ h₂
      intro bf w hw
      split at hw
      · rename_i hc
        simp only [hc]
        cases ht : fieldTy fs bf.name with
        | none => simp [ht] at hw
        | some t =>
          simp only [ht] at hw ⊢
          cases hd : decode env n₂ t j with
          | none => simp [hd] at hw
          | some v =>
            simp [hd] at hw
            simp [decode_mono_le env (Nat.le_max_right m n₂) hd, hw]
      · rename_i hc
        simp only [hc]
        exact hw
    exact ⟨max m n₂ + 1, by simp [decode, hl, hb', ha]⟩

end ApiFu.C20
