/-
  C20 — static well-formedness of the generated declarations (the model-level "compiles"):
  referenced identifiers are declared, struct fields are exported and distinct, every statement of a
  generated `UnmarshalJSON` mentions declared fields and switches on a string field.
-/
import ApiFu.C20.LemLevel4
import ApiFu.C20.LemNames

namespace ApiFu.C20

mutual
/-- A type expression is well-formed with respect to the declared identifiers `names`. -/
def tyOK (names : List Name) : GoTy → Bool
  | .named n => names.contains n
  | .ptr t => tyOK names t
  | .slice t => tyOK names t
  | .struct fs => fieldsOK names fs && nodupB (fs.map GoField.name)
  | _ => true
def fieldsOK (names : List Name) : List GoField → Bool
  | [] => true
  | .mk n t _ :: rest => isExported n && tyOK names t && fieldsOK names rest
end

/-- One declaration is well-formed. -/
def declOK (names : List Name) : Decl → Bool
  | .enum _ cs => nodupB (cs.map fun c => c.1)
  | .sel _ fs acts => fieldsOK names fs && nodupB (fs.map GoField.name) && acts.all (actionCompiles fs)
  | .typedef _ ty _ => tyOK names ty

/-- The model-level "the output compiles". -/
def declsWF (decls : List Decl) : Bool :=
  nodupB (decls.map Decl.name) && decls.all (declOK (decls.map Decl.name))

theorem fieldsOK_iff {names : List Name} : ∀ {fs : List GoField},
    fieldsOK names fs = true ↔ ∀ f ∈ fs, isExported f.name = true ∧ tyOK names f.ty = true := by
  intro fs
  induction fs with
  | nil => simp [fieldsOK]
  | cons f rest ih =>
    cases f with
    | mk n t tag =>
      simp only [fieldsOK, Bool.and_eq_true, ih, List.mem_cons, forall_eq_or_imp, GoField.name, GoField.ty]

theorem tyOK_wrapSlices (names : List Name) (t : GoTy) : ∀ d, tyOK names (wrapSlices d t) = tyOK names t := by
  intro d
  induction d with
  | zero => rfl
  | succ d ih => simp [wrapSlices, tyOK, ih]

theorem tyOK_ptrUnless (names : List Name) (nn : Bool) (t : GoTy) : tyOK names (ptrUnless nn t) = tyOK names t := by
  cases nn <;> simp [ptrUnless, tyOK]

theorem tyOK_scalarTy (names : List Name) {nm : Name} (h : isLeafKind (.scalar nm) = true) :
    tyOK names (scalarTy nm) = true := by
  simp only [isLeafKind, Bool.or_eq_true, beq_iff_eq] at h
  have e1 : scalarTy n_Boolean = .bool := by rfl
  have e2 : scalarTy n_Int = .int := by rfl
  have e3 : scalarTy n_Float = .float64 := by rfl
  have e4 : scalarTy n_String = .string := by rfl
  have e5 : scalarTy n_ID = .string := by rfl
  rcases h with (((h | h) | h) | h) | h <;> subst h <;> simp [e1, e2, e3, e4, e5, tyOK]

/-- The struct generated for a selection set: exported, distinct field names. -/
theorem level_struct_ok {S : Schema} {ft : List (Name × Name)} {env : List Decl}
    {frag : Name → Name → List JMember → Option (List LeafAt)} {td : TypeDef}
    {sels : List Sel} {es : List FieldEntry} {names : List Name}
    (hmem : Forall2 (MemberGood S env frag (holderTable td.name sels) td) sels es) (hok : setOK S ft td sels = true)
    (hes : ∀ e ∈ es, isExported (fieldName e.key) = true ∧ tyOK names e.ty = true) :
    fieldsOK names (sortFields (es.map toGoField)) = true ∧
    nodupB ((sortFields (es.map toGoField)).map GoField.name) = true := by
  simp only [setOK, Bool.and_eq_true] at hok
  constructor
  · apply fieldsOK_iff.mpr
    intro g hg
    obtain ⟨e, he, rfl⟩ := mem_fs_iff.mp hg
    exact hes e he
  · apply (nodupB_iff _).mpr
    exact ((sortFields_perm _).map GoField.name).nodup_iff.mpr (goFields_names_nodup hmem hok.2)

/-- Every statement of the generated `UnmarshalJSON` compiles. -/
theorem level_actions_compile {S : Schema} {ft : List (Name × Name)} {env : List Decl}
    {frag : Name → Name → List JMember → Option (List LeafAt)} {td : TypeDef}
    {sels : List Sel} {es : List FieldEntry} {conds : Conds}
    (hmem : Forall2 (MemberGood S env frag (holderTable td.name sels) td) sels es)
    (hconds : ∀ c f, Conds.has conds c f ↔ ∃ s ∈ sels, FragPair ft (holderTable td.name sels) td s c f)
    (hok : setOK S ft td sels = true)
    (htn : td.isObject = false → (∃ s ∈ sels, isFieldSel s = false) → (typenameFieldOf sels).isSome = true) :
    (actionsOf S td ((typenameFieldOf sels).getD []) conds).all
      (actionCompiles (sortFields (es.map toGoField))) = true := by
  have hok' := hok
  simp only [setOK, Bool.and_eq_true] at hok'
  obtain ⟨hmok, hnd⟩ := hok'
  have hname := fs_nameInj hmem hnd
  have chain : ∀ s ∈ sels, ∃ e ∈ es, MemberGood S env frag (holderTable td.name sels) td s e ∧ toGoField e ∈ sortFields (es.map toGoField) := by
    intro s hs
    obtain ⟨e, he, hg⟩ := Forall2.mem_left hmem s hs
    exact ⟨e, he, hg, mem_fs_iff.mpr ⟨e, he, rfl⟩⟩
  apply List.all_eq_true.mpr
  intro a ha
  obtain ⟨c, f, hhas, rfl⟩ := mem_actionsOf.mp ha
  obtain ⟨s, hs, hp⟩ := (hconds c f).mp hhas
  obtain ⟨e, _, hg, hgm⟩ := chain s hs
  have hfty : fieldTy (sortFields (es.map toGoField)) (fieldName f) = some e.ty := by
    have := fieldTy_of_mem hname hgm
    rw [toGoField_name, hg.1, ← (fragPair_key hp).1] at this
    exact this
  unfold actionFor
  cases hk : isKnown S td c with
  | true => simp [actionCompiles, hfty]
  | false =>
    have hsel := membersOK_mem hmok s hs
    have hnobj : td.isObject = false := by
      cases ho : td.isObject with
      | false => rfl
      | true =>
        exfalso
        cases s with
        | field a n ss => cases hp
        | inline c' ss =>
          simp only [selOK, Bool.and_eq_true, ho, Bool.not_true, Bool.false_or] at hsel
          have := hsel.1.2
          rw [← hp.1, hk] at this
          cases this
        | spread g =>
          simp only [selOK, Bool.and_eq_true, ho, Bool.not_true, Bool.false_or] at hsel
          have := hsel.1.2
          rw [← hp.1, hk] at this
          cases this
    have hsome := htn hnobj ⟨s, hs, (fragPair_key hp).2⟩
    obtain ⟨tn, htn'⟩ := Option.isSome_iff_exists.mp hsome
    obtain ⟨alias, subs, hm, rfl⟩ := typenameFieldOf_some htn'
    obtain ⟨e', _, hg', hgm'⟩ := chain _ hm
    have hty : fieldTy (sortFields (es.map toGoField)) (fieldName (alias.getD n_typename)) = some .string := by
      have := fieldTy_of_mem hname hgm'
      rw [toGoField_name, hg'.1] at this
      have hs' : e'.ty = .string := by simpa using hg'.2.2
      simp only [memberKey] at this
      rw [this, toGoField_ty, hs']
    simp [actionCompiles, hfty, htn', hty]

/-- The values of each enum are pairwise distinct (they are the keys of a Go map). -/
def enumValuesOK (S : Schema) : Bool :=
  S.types.all fun
    | .enum _ vs => nodupB vs
    | _ => true

/-- All declarations of a generator state are well-formed w.r.t. the final identifiers. -/
def StOK (names : List Name) (st : St) : Prop := ∀ d ∈ st.decls, declOK names d = true

/-- The typedef of every fragment of the document is declared. -/
def FragNames (ft : List (Name × Name)) (names : List Name) : Prop :=
  ∀ f, ft.any (fun p => p.1 == f) = true → (f ++ n_Fragment) ∈ names

/-! ### Distinctness of the declared identifiers -/

/-- The naming assumptions: neither an enum name nor a typedef name (`<Op>Data`, `<F>Fragment`; the
    list `tds`) begins with `sel` or coincides with one of the other kind. -/
structure NamesHyp (S : Schema) (tds : List Name) : Prop where
  enumNoSel : ∀ nm vs, TypeDef.enum nm vs ∈ S.types → startsWithSel (goTypeName nm) = false
  tdNoSel : ∀ n ∈ tds, startsWithSel n = false
  enumNotTd : ∀ nm vs, TypeDef.enum nm vs ∈ S.types → goTypeName nm ∉ tds
  /-- escaping (fix 08) does not identify two enum types (`int` and `int_`) -/
  enumEscInj : ∀ nm vs nm' vs', TypeDef.enum nm vs ∈ S.types → TypeDef.enum nm' vs' ∈ S.types →
    goTypeName nm = goTypeName nm' → nm = nm'

/-- What a declaration's name looks like, given the state that emitted it. -/
def NameShape (S : Schema) (tds : List Name) (st : St) : Decl → Prop
  | .sel n _ _ => ∃ td k, td ∈ S.types ∧ isComposite td = true ∧ n = n_sel ++ td.name ++ [95] ++ natDigits k ∧ k < st.count
  | .enum n _ => ∃ nm vs, n = goTypeName nm ∧ nm ∈ st.enums ∧ TypeDef.enum nm vs ∈ S.types
  | .typedef n _ _ => n ∈ tds

/-- The declared names are distinct and have the expected shapes. -/
def NameInv (S : Schema) (tds : List Name) (st : St) : Prop :=
  (st.decls.map Decl.name).Nodup ∧ ∀ d ∈ st.decls, NameShape S tds st d

theorem nameInv_add_sel {S : Schema} {tds : List Name} (hN : NamesHyp S tds) {st : St} (h : NameInv S tds st)
    {td : TypeDef} (htd : td ∈ S.types) (hc : isComposite td = true) (fs : List GoField) (acts : List Action) :
    NameInv S tds { st with decls := st.decls ++ [.sel (n_sel ++ td.name ++ [95] ++ natDigits st.count) fs acts],
                            count := st.count + 1 } := by
  obtain ⟨hnd, hsh⟩ := h
  constructor
  · simp only [List.map_append, List.map_cons, List.map_nil, Decl.name]
    apply List.nodup_append.mpr
    refine ⟨hnd, by simp, ?_⟩
    intro a ha b hb
    simp only [List.mem_singleton] at hb
    subst hb
    obtain ⟨d, hd, rfl⟩ := List.mem_map.mp ha
    intro heq
    have := hsh d hd
    cases d with
    | sel n fs' acts' =>
      obtain ⟨td', k, htd', hc', hn, hk⟩ := this
      simp only [Decl.name] at heq
      rw [hn] at heq
      have := sel_name_inj heq
      omega
    | enum n cs =>
      obtain ⟨nm', vs, hn', _, hvs⟩ := this
      simp only [Decl.name] at heq
      have h1 := hN.enumNoSel nm' vs hvs
      rw [← hn', heq, List.append_assoc, List.append_assoc, startsWithSel_sel] at h1
      cases h1
    | typedef n t f =>
      simp only [Decl.name] at heq
      have h1 := hN.tdNoSel n this
      rw [heq, List.append_assoc, List.append_assoc, startsWithSel_sel] at h1
      cases h1
  · intro d hd
    simp only [List.mem_append, List.mem_singleton] at hd
    rcases hd with hd | rfl
    · have := hsh d hd
      cases d with
      | sel n fs' acts' =>
        obtain ⟨td', k, h1, h2, h3, h4⟩ := this
        exact ⟨td', k, h1, h2, h3, Nat.lt_succ_of_lt h4⟩
      | enum n cs => exact this
      | typedef n t f => exact this
    · exact ⟨td, st.count, htd, hc, rfl, Nat.lt_succ_self _⟩

theorem nameInv_add_enum {S : Schema} {tds : List Name} (hN : NamesHyp S tds) {st : St} (h : NameInv S tds st)
    {nm : Name} {vs : List Name} (hvs : TypeDef.enum nm vs ∈ S.types) (hnew : nm ∉ st.enums) (cs : List (Name × Name)) :
    NameInv S tds { st with decls := st.decls ++ [.enum (goTypeName nm) cs], enums := nm :: st.enums } := by
  obtain ⟨hnd, hsh⟩ := h
  constructor
  · simp only [List.map_append, List.map_cons, List.map_nil, Decl.name]
    apply List.nodup_append.mpr
    refine ⟨hnd, by simp, ?_⟩
    intro a ha b hb
    simp only [List.mem_singleton] at hb
    obtain ⟨d, hd, rfl⟩ := List.mem_map.mp ha
    intro heq
    rw [hb] at heq
    have := hsh d hd
    cases d with
    | sel n fs' acts' =>
      obtain ⟨td', k, _, _, hn, _⟩ := this
      simp only [Decl.name] at heq
      have h1 := hN.enumNoSel nm vs hvs
      rw [← heq, hn, List.append_assoc, List.append_assoc, startsWithSel_sel] at h1
      cases h1
    | enum n cs' =>
      obtain ⟨nm', vs', hn', hmem', hvs'⟩ := this
      simp only [Decl.name] at heq
      have := hN.enumEscInj nm' vs' nm vs hvs' hvs (by rw [← hn', heq])
      exact hnew (this ▸ hmem')
    | typedef n t f =>
      simp only [Decl.name] at heq
      exact hN.enumNotTd nm vs hvs (heq ▸ this)
  · intro d hd
    simp only [List.mem_append, List.mem_singleton] at hd
    rcases hd with hd | rfl
    · have := hsh d hd
      cases d with
      | sel n fs' acts' => exact this
      | enum n cs' =>
        obtain ⟨nm', vs', h1, h2, h3⟩ := this
        exact ⟨nm', vs', h1, List.mem_cons_of_mem _ h2, h3⟩
      | typedef n t f => exact this
    · exact ⟨nm, vs, rfl, List.mem_cons_self, hvs⟩

theorem nameInv_add_typedef {S : Schema} {tds : List Name} (hN : NamesHyp S tds) {st : St} (h : NameInv S tds st)
    {n : Name} (hn : n ∈ tds) (hfresh : ∀ d ∈ st.decls, ∀ m t f, d = Decl.typedef m t f → m ≠ n) (ty : GoTy) (fwd : Bool) :
    NameInv S tds { st with decls := st.decls ++ [.typedef n ty fwd] } := by
  obtain ⟨hnd, hsh⟩ := h
  constructor
  · simp only [List.map_append, List.map_cons, List.map_nil, Decl.name]
    apply List.nodup_append.mpr
    refine ⟨hnd, by simp, ?_⟩
    intro a ha b hb
    simp only [List.mem_singleton] at hb
    subst hb
    obtain ⟨d, hd, rfl⟩ := List.mem_map.mp ha
    intro heq
    have := hsh d hd
    cases d with
    | sel m fs' acts' =>
      obtain ⟨td', k, _, _, hm, _⟩ := this
      simp only [Decl.name] at heq
      have h1 := hN.tdNoSel _ hn
      rw [← heq, hm, List.append_assoc, List.append_assoc, startsWithSel_sel] at h1
      cases h1
    | enum m cs' =>
      obtain ⟨nm', vs, hm', _, hvs⟩ := this
      simp only [Decl.name] at heq
      exact hN.enumNotTd nm' vs hvs (by rw [← hm', heq]; exact hn)
    | typedef m t f =>
      simp only [Decl.name] at heq
      exact hfresh _ hd m t f rfl heq
  · intro d hd
    simp only [List.mem_append, List.mem_singleton] at hd
    rcases hd with hd | rfl
    · have := hsh d hd
      cases d with
      | sel m fs' acts' => exact this
      | enum m cs' => exact this
      | typedef m t f => exact this
    · exact hn

end ApiFu.C20
