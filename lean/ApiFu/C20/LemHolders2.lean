/-
  C20 — fix 06 makes the Go names of all members of a selection set distinct: if the fields' Go names
  are distinct and no fragment identity occurs twice, the names `holderTable` assigns to the holders
  differ from the fields' names and from each other (`holders_distinct`).
-/
import ApiFu.C20.LemCore
import ApiFu.C20.LemHolders

namespace ApiFu.C20

theorem length_title (n : Name) : (title n).length = n.length := by
  cases n <;> simp [title]

theorem length_fieldName (k : Name) : (fieldName k).length = k.length := by
  unfold fieldName
  split
  · simp [length_title]
  · exact length_title k

theorem le_maxLen {taken : List Name} {n : Name} (h : n ∈ taken) : n.length ≤ maxLen taken := by
  induction taken with
  | nil => cases h
  | cons m ms ih =>
    simp only [maxLen]
    rcases List.mem_cons.mp h with rfl | h
    · exact Nat.le_max_left _ _
    · exact Nat.le_trans (ih h) (Nat.le_max_right _ _)

theorem pickFree_free (taken : List Name) : ∀ (fuel : Nat) (k : Name), fuel + k.length > maxLen taken →
    fieldName (pickFree taken fuel k) ∉ taken := by
  intro fuel
  induction fuel with
  | zero =>
    intro k h hm
    have := le_maxLen hm
    simp only [pickFree, length_fieldName] at this
    omega
  | succ f ih =>
    intro k h
    unfold pickFree
    split
    · apply ih
      simp
      omega
    · rename_i hc
      simpa using hc

/-- The table's invariant relative to the Go names `T0` of the fields. -/
structure TblInv (T0 taken : List Name) (tbl : HolderTable) : Prop where
  sub : ∀ n ∈ T0, n ∈ taken
  keyTaken : ∀ e ∈ tbl, fieldName e.2.2 ∈ taken
  keyFresh : ∀ e ∈ tbl, fieldName e.2.2 ∉ T0
  keyInj : ∀ e1 ∈ tbl, ∀ e2 ∈ tbl, fieldName e1.2.2 = fieldName e2.2.2 → e1 = e2
  idUniq : ∀ e1 ∈ tbl, ∀ e2 ∈ tbl, e1.1 = e2.1 → e1.2.1 = e2.2.1 → e1 = e2

theorem find_none_imp {tbl : HolderTable} {sp : Bool} {n : Name} (h : tbl.find sp n = none) :
    ∀ e ∈ tbl, ¬ (e.1 = sp ∧ e.2.1 = n) := by
  intro e he hc
  unfold HolderTable.find at h
  cases hf : tbl.find? (fun e => e.1 == sp && e.2.1 == n) with
  | none =>
    have := List.find?_eq_none.mp hf e he
    simp [hc.1, hc.2] at this
  | some e' => simp [hf] at h

theorem find_of_mem {tbl : HolderTable} (hu : ∀ e1 ∈ tbl, ∀ e2 ∈ tbl, e1.1 = e2.1 → e1.2.1 = e2.2.1 → e1 = e2)
    {sp : Bool} {n k : Name} (h : (sp, n, k) ∈ tbl) : tbl.find sp n = some k := by
  cases hf : tbl.find sp n with
  | none => exact absurd ⟨rfl, rfl⟩ (find_none_imp hf _ h)
  | some k' =>
    have hm := HolderTable.find_mem hf
    have := hu _ hm _ h rfl rfl
    simp at this
    rw [this]

theorem tblInv_add {T0 taken : List Name} {tbl : HolderTable} (h : TblInv T0 taken tbl) (sp : Bool) (n : Name)
    (hnone : tbl.find sp n = none) :
    TblInv T0 (fieldName (pickFree taken (maxLen taken + 1) n) :: taken)
      (tbl ++ [(sp, n, pickFree taken (maxLen taken + 1) n)]) := by
  have hfree : fieldName (pickFree taken (maxLen taken + 1) n) ∉ taken := pickFree_free taken _ n (by omega)
  refine ⟨fun m hm => List.mem_cons_of_mem _ (h.sub m hm), ?_, ?_, ?_, ?_⟩
  · intro e he
    rcases List.mem_append.mp he with he | he
    · exact List.mem_cons_of_mem _ (h.keyTaken e he)
    · simp at he; subst he; exact List.mem_cons_self
  · intro e he
    rcases List.mem_append.mp he with he | he
    · exact h.keyFresh e he
    · simp at he; subst he
      exact fun hm => hfree (h.sub _ hm)
  · intro e1 he1 e2 he2 heq
    rcases List.mem_append.mp he1 with he1 | he1
    · rcases List.mem_append.mp he2 with he2 | he2
      · exact h.keyInj e1 he1 e2 he2 heq
      · simp at he2; subst he2
        exact absurd (heq ▸ h.keyTaken e1 he1) hfree
    · simp at he1; subst he1
      rcases List.mem_append.mp he2 with he2 | he2
      · exact absurd (heq ▸ h.keyTaken e2 he2) hfree
      · simp at he2; subst he2; rfl
  · intro e1 he1 e2 he2 h1 h2
    rcases List.mem_append.mp he1 with he1 | he1
    · rcases List.mem_append.mp he2 with he2 | he2
      · exact h.idUniq e1 he1 e2 he2 h1 h2
      · simp at he2; subst he2
        exact absurd ⟨h1, h2⟩ (find_none_imp hnone e1 he1)
    · simp at he1; subst he1
      rcases List.mem_append.mp he2 with he2 | he2
      · exact absurd ⟨h1.symm, h2.symm⟩ (find_none_imp hnone e2 he2)
      · simp at he2; subst he2; rfl

/-- Running the pre-pass keeps the invariant, keeps earlier entries, and gives every fragment member
    of the processed list an entry. -/
theorem holderTableAux_inv (td : TypeDef) (T0 : List Name) : ∀ (l : List Sel) (taken : List Name) (tbl : HolderTable),
    TblInv T0 taken tbl →
    ∃ taken', TblInv T0 taken' (holderTableAux td.name l taken tbl) ∧
      (∀ e ∈ tbl, e ∈ holderTableAux td.name l taken tbl) ∧
      (∀ c ss, Sel.inline c ss ∈ l → ∃ k, (false, c.getD td.name, k) ∈ holderTableAux td.name l taken tbl) ∧
      (∀ f, Sel.spread f ∈ l → ∃ k, (true, f, k) ∈ holderTableAux td.name l taken tbl) := by
  intro l
  induction l with
  | nil =>
    intro taken tbl h
    exact ⟨taken, by simpa [holderTableAux] using h, fun e he => by simpa [holderTableAux] using he,
      fun c ss hm => (nomatch hm), fun f hm => (nomatch hm)⟩
  | cons s rest ih =>
    intro taken tbl h
    cases s with
    | field a n ss =>
      obtain ⟨t', h1, h2, h3, h4⟩ := ih taken tbl h
      refine ⟨t', by simpa [holderTableAux] using h1, fun e he => by simpa [holderTableAux] using h2 e he, ?_, ?_⟩
      · intro c ss' hm
        rcases List.mem_cons.mp hm with hm | hm
        · cases hm
        · simpa [holderTableAux] using h3 c ss' hm
      · intro f hm
        rcases List.mem_cons.mp hm with hm | hm
        · cases hm
        · simpa [holderTableAux] using h4 f hm
    | inline c ss =>
      simp only [holderTableAux]
      cases hf : tbl.find false (c.getD td.name) with
      | some k =>
        simp only
        obtain ⟨t', h1, h2, h3, h4⟩ := ih taken tbl h
        refine ⟨t', h1, h2, ?_, ?_⟩
        · intro c' ss' hm
          rcases List.mem_cons.mp hm with hm | hm
          · injection hm with hc _
            subst hc
            exact ⟨k, h2 _ (HolderTable.find_mem hf)⟩
          · exact h3 c' ss' hm
        · intro f hm
          rcases List.mem_cons.mp hm with hm | hm
          · cases hm
          · exact h4 f hm
      | none =>
        simp only
        obtain ⟨t', h1, h2, h3, h4⟩ := ih _ _ (tblInv_add h false (c.getD td.name) hf)
        refine ⟨t', h1, fun e he => h2 e (List.mem_append_left _ he), ?_, ?_⟩
        · intro c' ss' hm
          rcases List.mem_cons.mp hm with hm | hm
          · injection hm with hc _
            rw [hc]
            exact ⟨_, h2 _ (List.mem_append_right _ (List.mem_singleton.mpr rfl))⟩
          · exact h3 c' ss' hm
        · intro f hm
          rcases List.mem_cons.mp hm with hm | hm
          · cases hm
          · exact h4 f hm
    | spread g =>
      simp only [holderTableAux]
      cases hf : tbl.find true g with
      | some k =>
        simp only
        obtain ⟨t', h1, h2, h3, h4⟩ := ih taken tbl h
        refine ⟨t', h1, h2, ?_, ?_⟩
        · intro c' ss' hm
          rcases List.mem_cons.mp hm with hm | hm
          · cases hm
          · exact h3 c' ss' hm
        · intro f hm
          rcases List.mem_cons.mp hm with hm | hm
          · injection hm with hg
            subst hg
            exact ⟨k, h2 _ (HolderTable.find_mem hf)⟩
          · exact h4 f hm
      | none =>
        simp only
        obtain ⟨t', h1, h2, h3, h4⟩ := ih _ _ (tblInv_add h true g hf)
        refine ⟨t', h1, fun e he => h2 e (List.mem_append_left _ he), ?_, ?_⟩
        · intro c' ss' hm
          rcases List.mem_cons.mp hm with hm | hm
          · cases hm
          · exact h3 c' ss' hm
        · intro f hm
          rcases List.mem_cons.mp hm with hm | hm
          · injection hm with hg
            rw [hg]
            exact ⟨_, h2 _ (List.mem_append_right _ (List.mem_singleton.mpr rfl))⟩
          · exact h4 f hm

theorem mem_takenOf {a : Option Name} {n : Name} {ss : List Sel} : ∀ {l : List Sel},
    Sel.field a n ss ∈ l → fieldName (a.getD n) ∈ takenOf l := by
  intro l
  induction l with
  | nil => intro h; cases h
  | cons s rest ih =>
    intro h
    rcases List.mem_cons.mp h with h' | h'
    · subst h'; simp [takenOf]
    · cases s with
      | field a' n' ss' => simp only [takenOf]; exact List.mem_cons_of_mem _ (ih h')
      | inline c ss' => simpa [takenOf] using ih h'
      | spread f => simpa [takenOf] using ih h'

/-- **holders_distinct** — after fix 06 the Go names of all members of a selection set are pairwise
    distinct as soon as the fields' Go names are and no fragment identity occurs twice. -/
theorem holders_distinct (td : TypeDef) (sels : List Sel)
    (hf : (takenOf sels).Nodup) (hid : (sels.filterMap (fragIdOf td)).Nodup) :
    (sels.map fun s => fieldName (memberKey (holderTable td.name sels) td s)).Nodup := by
  have h0 : TblInv (takenOf sels) (takenOf sels) [] :=
    ⟨fun n hn => hn, fun e he => (nomatch he), fun e he => (nomatch he), fun e he => (nomatch he), fun e he => (nomatch he)⟩
  obtain ⟨t', hinv, _, hin, hsp⟩ := holderTableAux_inv td (takenOf sels) sels (takenOf sels) [] h0
  have htbl : holderTableAux td.name sels (takenOf sels) [] = holderTable td.name sels := rfl
  rw [htbl] at hinv hin hsp
  -- induction over a suffix
  suffices h : ∀ l : List Sel, (∀ s ∈ l, s ∈ sels) → (takenOf l).Nodup → (l.filterMap (fragIdOf td)).Nodup →
      (l.map fun s => fieldName (memberKey (holderTable td.name sels) td s)).Nodup by
    exact h sels (fun s hs => hs) hf hid
  intro l
  induction l with
  | nil => intro _ _ _; exact List.nodup_nil
  | cons s rest ih =>
    intro hsub hfl hidl
    have hsub' : ∀ s' ∈ rest, s' ∈ sels := fun s' hs' => hsub s' (List.mem_cons_of_mem _ hs')
    simp only [List.map_cons, List.nodup_cons]
    cases s with
    | field a n ss =>
      simp only [takenOf, List.nodup_cons] at hfl
      have hidl' : (rest.filterMap (fragIdOf td)).Nodup := by simpa [List.filterMap_cons, fragIdOf] using hidl
      refine ⟨?_, ih hsub' hfl.2 hidl'⟩
      intro hmem
      obtain ⟨s', hs', heq⟩ := List.mem_map.mp hmem
      cases s' with
      | field a' n' ss' =>
        simp only [memberKey] at heq
        exact hfl.1 (heq ▸ mem_takenOf hs')
      | inline c ss' =>
        obtain ⟨k, hk⟩ := hin c ss' (hsub' _ hs')
        simp only [memberKey, find_of_mem hinv.idUniq hk, Option.getD_some] at heq
        exact hinv.keyFresh _ hk (heq ▸ mem_takenOf (hsub _ List.mem_cons_self))
      | spread g =>
        obtain ⟨k, hk⟩ := hsp g (hsub' _ hs')
        simp only [memberKey, find_of_mem hinv.idUniq hk, Option.getD_some] at heq
        exact hinv.keyFresh _ hk (heq ▸ mem_takenOf (hsub _ List.mem_cons_self))
    | inline c ss =>
      have hfl' : (takenOf rest).Nodup := by simpa [takenOf] using hfl
      simp only [List.filterMap_cons, fragIdOf, List.nodup_cons] at hidl
      refine ⟨?_, ih hsub' hfl' hidl.2⟩
      obtain ⟨k, hk⟩ := hin c ss (hsub _ List.mem_cons_self)
      intro hmem
      obtain ⟨s', hs', heq⟩ := List.mem_map.mp hmem
      simp only [memberKey, find_of_mem hinv.idUniq hk, Option.getD_some] at heq
      cases s' with
      | field a' n' ss' =>
        simp only [memberKey] at heq
        exact hinv.keyFresh _ hk (heq.symm ▸ mem_takenOf (hsub' _ hs'))
      | inline c' ss' =>
        obtain ⟨k', hk'⟩ := hin c' ss' (hsub' _ hs')
        simp only [memberKey, find_of_mem hinv.idUniq hk', Option.getD_some] at heq
        have := hinv.keyInj _ hk' _ hk heq
        simp at this
        exact hidl.1 (List.mem_filterMap.mpr ⟨_, hs', by simp [fragIdOf, this.1]⟩)
      | spread g =>
        obtain ⟨k', hk'⟩ := hsp g (hsub' _ hs')
        simp only [memberKey, find_of_mem hinv.idUniq hk', Option.getD_some] at heq
        have := hinv.keyInj _ hk' _ hk heq
        simp at this
    | spread g =>
      have hfl' : (takenOf rest).Nodup := by simpa [takenOf] using hfl
      simp only [List.filterMap_cons, fragIdOf, List.nodup_cons] at hidl
      refine ⟨?_, ih hsub' hfl' hidl.2⟩
      obtain ⟨k, hk⟩ := hsp g (hsub _ List.mem_cons_self)
      intro hmem
      obtain ⟨s', hs', heq⟩ := List.mem_map.mp hmem
      simp only [memberKey, find_of_mem hinv.idUniq hk, Option.getD_some] at heq
      cases s' with
      | field a' n' ss' =>
        simp only [memberKey] at heq
        exact hinv.keyFresh _ hk (heq.symm ▸ mem_takenOf (hsub' _ hs'))
      | inline c' ss' =>
        obtain ⟨k', hk'⟩ := hin c' ss' (hsub' _ hs')
        simp only [memberKey, find_of_mem hinv.idUniq hk', Option.getD_some] at heq
        have := hinv.keyInj _ hk' _ hk heq
        simp at this
      | spread g' =>
        obtain ⟨k', hk'⟩ := hsp g' (hsub' _ hs')
        simp only [memberKey, find_of_mem hinv.idUniq hk', Option.getD_some] at heq
        have := hinv.keyInj _ hk' _ hk heq
        simp at this
        exact hidl.1 (List.mem_filterMap.mpr ⟨_, hs', by simp [fragIdOf, this.1]⟩)

end ApiFu.C20
