/-
  C20 — property theorems about the *names* the generator emits (session 3).

  The generator's naming code (`goTypeName`, `fieldName`, the enum constants of fix 05, `"sel"+T+"_"+n`,
  `<Op>Data`, `<F>Fragment`, the holders of fix 06) is inside the theorems; the naming assumptions of
  `gen_wf` / `decode_preserves_leaves` (`NamesHyp`, a `Prop` structure, plus `Nodup` of the typedef
  names) are replaced by ONE decidable check `identsOK S (docNames docs)` on the schema's enums and the
  operation / fragment names of the run, and the conclusion is widened from "declared *type* names are
  distinct" to the whole Go package scope: types AND enum constants, none of them a Go keyword, a
  predeclared identifier, `json`, or a name the generated `UnmarshalJSON` shadows (`s`, `b`).

  Inputs that violate the check are real and inside the property's wording; the `example`s at the end
  show them in the model, the harness runs each against the real binary (findings F-20i/j/k, corpus
  `scope-*`).
-/
import ApiFu.C20.LemScope
import ApiFu.C20.Props

namespace ApiFu.C20

/-- **names_hyp_of_check** — the naming assumptions `NamesHyp` and the distinctness of the
    `<Op>Data`/`<F>Fragment` names follow from the decidable check `identsOK`. -/
theorem names_hyp_of_check (S : Schema) (tds : List Name) (h : identsOK S tds = true) :
    NamesHyp S tds ∧ tds.Nodup :=
  namesHyp_of_identsOK (identsOK_iff h)

/-- **gen_pkg_scope** — for every schema and every run over documents inside the envelope whose
    names pass the decidable check `identsOK`: ALL package-level identifiers of the output — the enum
    types, every enum constant, the `sel…` types, the `<Op>Data`/`<F>Fragment` types — are pairwise
    distinct, and none of them is a Go keyword, a predeclared identifier, the import name `json`, or one
    of the names `s`, `b` that the generated `UnmarshalJSON(b []byte)` with receiver `s` shadows.
    (`gen_wf` only speaks about the declared *type* names and the constants *within* one enum; the
    constants share the package scope with everything else — findings F-20i, F-20k.) -/
theorem gen_pkg_scope (S : Schema) (docs : List Doc) (out : Output)
    (hS : schemaOK S = true)
    (hgen : generate S docs = .ok out)
    (hdocs : ∀ d ∈ docs.map (normalizeDoc S), ∀ df ∈ d.defs, defOK S (fragTypesOf d.defs) df = true)
    (hI : identsOK S (docNames docs) = true) :
    pkgScopeWF out.decls = true := by
  have hI' := identsOK_iff hI
  obtain ⟨hN, hnd⟩ := namesHyp_of_identsOK hI'
  unfold generate generateMerged at hgen
  simp only at hgen
  split at hgen
  · rename_i herr
    injection hgen with hgen
    have hdecls : out.decls = (processDocs S (docs.map (normalizeDoc S)) {}).2.decls := by rw [← hgen]
    have herr' : (processDocs S (docs.map (normalizeDoc S)) {}).1 = [] := by simpa using herr
    have hinv0 : EnumInv ({} : St) := by intro n hn; cases hn
    have h0 : NameInv S [] ({} : St) := ⟨List.nodup_nil, fun d hd => (nomatch hd)⟩
    have hN' : NamesHyp S (docNames (docs.map (normalizeDoc S))) := by rw [docNames_normalize]; exact hN
    have hname := processDocs_names hS hN' (docs.map (normalizeDoc S)) {} []
      hdocs herr' hinv0 (by simp) (by simpa [docNames_normalize] using hnd) h0
    have henum := processDocs_enumOK S (docs.map (normalizeDoc S)) {} herr' (by intro d hd; cases hd)
    simp only [List.nil_append, docNames_normalize] at hname
    have howned : ∀ d ∈ out.decls, Owned S (docNames docs) d := by
      intro d hd
      rw [hdecls] at hd
      exact owned_of_invariants (hname.2 d hd) (henum d hd)
    simp only [pkgScopeWF, Bool.and_eq_true]
    refine ⟨(nodupB_iff _).mpr (pkgIdents_nodup hI' out.decls (by rw [hdecls]; exact hname.1) howned), ?_⟩
    exact List.all_eq_true.mpr (pkgIdents_free hI' (docNames_marked docs) howned)
  · cases hgen

/-- **gen_wf_checked** — `gen_wf` with every naming assumption replaced by the decidable check. -/
theorem gen_wf_checked (S : Schema) (docs : List Doc) (out : Output)
    (hS : schemaOK S = true) (hec : enumValuesOK S = true)
    (hgen : generate S docs = .ok out)
    (hdocs : ∀ d ∈ docs.map (normalizeDoc S), ∀ df ∈ d.defs, defOK S (fragTypesOf d.defs) df = true)
    (hI : identsOK S (docNames docs) = true) :
    declsWF out.decls = true ∧ pkgScopeWF out.decls = true :=
  have h := names_hyp_of_check S _ hI
  ⟨gen_wf S docs out hS hec hgen hdocs h.1 h.2, gen_pkg_scope S docs out hS hgen hdocs hI⟩

/-- **decode_preserves_leaves_checked** — `decode_preserves_leaves` with every naming assumption
    replaced by the decidable check. -/
theorem decode_preserves_leaves_checked (S : Schema) (docs : List Doc) (out : Output)
    (hS : schemaOK S = true)
    (hgen : generate S docs = .ok out)
    (hdocs : ∀ d ∈ docs.map (normalizeDoc S), ∀ df ∈ d.defs, defOK S (fragTypesOf d.defs) df = true)
    (hI : identsOK S (docNames docs) = true)
    (doc : Doc) (hdoc : doc ∈ docs) (kind : OpKind) (name : Name) (sels : List Sel)
    (hop : Def.op kind (some name) sels ∈ doc.defs)
    (root : Name) (hroot : rootOf S kind = some root)
    (fuel : Nat) (data : Json) (L : List LeafAt)
    (hL : opLeaves S (fragDefsOf doc.defs) fuel root sels data = some L)
    (hkeys : data.keysOK = true) :
    ∃ v, Decodes out.decls (.named (name ++ n_Data)) data v ∧ ∀ x ∈ L, x ∈ leavesV v :=
  have h := names_hyp_of_check S _ hI
  decode_preserves_leaves S docs out hS hgen hdocs h.1 h.2 doc hdoc kind name sels hop root hroot fuel data L hL hkeys

/-- **struct_field_names_distinct** — struct scope: within one selection set whose response keys
    begin with a letter (or are the unaliased `__typename`) and are distinct ignoring letter case, the Go
    names `fieldName` gives the fields are pairwise distinct — unless the unaliased `__typename` meets a key
    whose Go name is `Typename__` too (`typename__`; finding F-20j). So the envelope's conjunct
    "the Go names of the fields of a set are distinct" (`nodupB (takenOf sels)` in `keysNodup`) is
    not an assumption about the generator's naming any more: it follows from the property's own wording
    plus the explicit exclusion `typenameClash`. (The holders of fragments get free names by
    construction: `holders_distinct`.) -/
theorem struct_field_names_distinct (sels : List Sel)
    (hok : ∀ k ∈ selFieldKeys sels, keyOK k = true)
    (hfold : nodupB ((selFieldKeys sels).map lowerAll) = true)
    (hcl : typenameClash (selFieldKeys sels) = false) :
    nodupB (takenOf sels) = true := by
  rw [takenOf_eq_map]
  exact (nodupB_iff _).mpr (fieldNames_nodup _ hok ((nodupB_iff _).mp hfold) hcl)

/-- **field_names_exported_not_reserved** — every struct field the generator names after a response
    key of the envelope is exported (begins with an upper-case letter), hence is neither reserved nor
    shadowed. -/
theorem field_names_exported_not_reserved (k : Name) (hk : keyOK k = true) :
    isExported (fieldName k) = true ∧ identFree (fieldName k) = true := by
  have hx := isExported_fieldName_of_keyOK hk
  refine ⟨hx, ?_⟩
  have hlow : goReserved.all (fun r => !isExported r) = true := by decide
  simp only [identFree, Bool.and_eq_true, Bool.not_eq_true', bne_iff_ne, ne_eq]
  refine ⟨⟨?_, ?_⟩, ?_⟩
  · cases hc : goReserved.contains (fieldName k) with
    | false => rfl
    | true =>
      have := List.all_eq_true.mp hlow _ (by simpa using hc)
      simp [hx] at this
  · intro he; rw [he] at hx; revert hx; decide
  · intro he; rw [he] at hx; revert hx; decide

/-! ### Inputs that violate the check (all inside the property's wording; run against the real binary
    by the harness: corpus `scope-*`, findings F-20i / F-20j / F-20k) -/

namespace ScopeExamples

def Q : Name := [81]
def p : Name := [112]
def q : Name := [113]
def A : Name := [65]
def AB : Name := [65, 66]
def B_C : Name := [66, 95, 67]
def C : Name := [67]

/-- `enum A { B_C }`, `enum AB { C }`: both constants are `ABC`. -/
def S1 : Schema :=
  { types := [.object Q [(p, .named A), (q, .named AB)] [], .enum A [B_C], .enum AB [C]],
    query := Q, mutation := none, subscription := none }

def doc1 : Doc := { valid := true, defs := [.op .query (some Q) [.field none p [], .field none q []]] }

example : identsOK S1 (docNames [doc1]) = false := by decide
/-- The type names are distinct and every declaration is well-formed on its own (`declsWF`), yet
    the package scope has `ABC` twice: the output does not compile. -/
example : (match generate S1 [doc1] with
    | .ok out => declsWF out.decls && !pkgScopeWF out.decls
    | .error _ => false) = true := by decide

/-- `enum float { _64 }`: the constant is `float64` and shadows the type of every `Float` field. -/
def S2 : Schema :=
  { types := [.object Q [(p, .named [102, 108, 111, 97, 116])] [], .enum [102, 108, 111, 97, 116] [[95, 54, 52]]],
    query := Q, mutation := none, subscription := none }

example : (enumConsts (goTypeName [102, 108, 111, 97, 116]) [[95, 54, 52]]).map (fun c => c.1) =
    [[102, 108, 111, 97, 116, 54, 52]] := by decide
example : identsOK S2 (docNames [{ valid := true, defs := [.op .query (some Q) [.field none p []]] }]) = false := by decide

/-- `enum Q { DATA }` with `query Q`: the constant and the operation's type are both `QData`. -/
def S3 : Schema :=
  { types := [.object [82] [(p, .named Q)] [], .enum Q [[68, 65, 84, 65]]],
    query := [82], mutation := none, subscription := none }

example : identsOK S3 (docNames [{ valid := true, defs := [.op .query (some Q) [.field none p []]] }]) = false := by decide

/-- `enum b { X }`: inside `UnmarshalJSON(b []byte)` the name `b` is the parameter. -/
example : identsOK { types := [.object Q [(p, .named n_b)] [], .enum n_b [[88]]], query := Q, mutation := none, subscription := none }
    (docNames [doc1]) = false := by decide

/-- A schema and run that pass the check (non-vacuity of `gen_pkg_scope`). -/
example : identsOK Example.S (docNames [Example.doc]) = true := by decide
example : identsOK { types := [.object Q [(p, .named A)] [], .enum A [B_C, C, [98, 95, 99]]], query := Q, mutation := none, subscription := none }
    (docNames [doc1]) = true := by decide
example : (match generate Example.S [Example.doc] with
    | .ok out => pkgScopeWF out.decls
    | .error _ => false) = true := by decide

/-- Struct scope: `{ __typename typename__: x }` — both fields are called `Typename__` (F-20j). -/
def tnSels : List Sel := [.field none n_typename [], .field (some [116, 121, 112, 101, 110, 97, 109, 101, 95, 95]) [120] []]

example : (selFieldKeys tnSels).all keyOK = true ∧ nodupB ((selFieldKeys tnSels).map lowerAll) = true ∧
    typenameClash (selFieldKeys tnSels) = true ∧ nodupB (takenOf tnSels) = false := by decide

/-- …while `TYPENAME__` next to `__typename` is fine (Go names `TYPENAME__` and `Typename__`). -/
example : typenameClash [n_typename, [84, 89, 80, 69, 78, 65, 77, 69, 95, 95]] = false := by decide

end ScopeExamples

end ApiFu.C20
