/-
  C20 — executable model of `gql-client-gen` (cmd/gql-client-gen/main.go:35-305 + Generate, *after*
  the fixes repo-patches/C20/01..08) and of `encoding/json` decoding into the generated types.

  What is modelled, line by line:
    * `fieldName`                      main.go:35-41
    * `generateType`                   main.go:43-239  → `shape`/`wrapSlices` (the NonNull/List wrappers),
                                                          `genAt` (the switch on the named type),
                                                          `genSel`/`genSels` (the loop over the selections)
    * `generateTypeDef`                main.go:241-253 → `Decl.typedef … forward`
    * `processQuery`                   main.go:255-305 → `processDoc`
    * `Generate` (errors ⇒ no output)  main.go:345-386 → `generate`
  The Go code builds source text; the model builds the *abstract syntax* of that text (`GoTy`,
  `Decl`). The harness parses the real output with go/ast into the same abstract syntax and compares.

  Parameters (not modelled, see the design note): the verdict of `graphql.ParseAndValidate`
  (`Doc.valid`), the schema as rebuilt by `LoadSchema` from introspection JSON (the harness sends
  the schema it served; C10 is about the rebuild), gofmt, the Go type checker, strconv.

  Names are lists of code points (`List Nat`) so that the ASCII case rules are arithmetic.
  Core Lean only: this file is linked into the driver `c20model`.
-/
import ApiFu.C20.Reserved

namespace ApiFu.C20

abbrev Name := List Nat

/-! ### Text helpers: `strings.Title`, `strings.ToLower`, `strings.EqualFold`, `strings.Split`
    restricted to GraphQL names (`[_A-Za-z][_0-9A-Za-z]*`, all ASCII, no separator characters). -/

def toLower (c : Nat) : Nat := if 65 ≤ c ∧ c ≤ 90 then c + 32 else c
def toUpper (c : Nat) : Nat := if 97 ≤ c ∧ c ≤ 122 then c - 32 else c

/-- `strings.Title` on a string that contains no separator: only the first rune is mapped. -/
def title : Name → Name
  | [] => []
  | c :: cs => toUpper c :: cs

def lowerAll (n : Name) : Name := n.map toLower

/-- `strings.EqualFold` on ASCII. -/
def equalFold (a b : Name) : Bool := lowerAll a == lowerAll b

/-- main.go:35-41. `95` is `_`. -/
def fieldName (n : Name) : Name :=
  match n with
  | 95 :: 95 :: rest => title (rest ++ [95, 95])
  | _ => title n

/-- `strings.Split(s, sep)` for a one-character separator. -/
def splitOn (sep : Nat) : Name → List Name
  | [] => [[]]
  | c :: cs =>
    if c == sep then [] :: splitOn sep cs
    else match splitOn sep cs with
      | [] => [[c]]
      | p :: ps => (c :: p) :: ps

/-- `t.Name + join(map (Title ∘ ToLower) (Split k "_"))`. -/
def constName (enumName value : Name) : Name :=
  enumName ++ ((splitOn 95 value).map (fun p => title (lowerAll p))).flatten

def digitsAux : Nat → Nat → List Nat → List Nat
  | 0, _, acc => acc
  | fuel + 1, n, acc => if n < 10 then (48 + n) :: acc else digitsAux fuel (n / 10) ((48 + n % 10) :: acc)

/-- `strconv.Itoa` for a natural number. -/
def natDigits (n : Nat) : Name := digitsAux (n + 1) n []

/-- Lexicographic `<` on code points (Go's string `<` on ASCII). -/
def nameLt : Name → Name → Bool
  | [], [] => false
  | [], _ :: _ => true
  | _ :: _, [] => false
  | a :: as, b :: bs => if a < b then true else if b < a then false else nameLt as bs

/-- `goTypeName` (fix 08): the Go identifier of an enum type — its name, with `_` appended when it is
    a Go keyword, a predeclared identifier or `json`. -/
def goTypeName (n : Name) : Name := if goReserved.contains n then n ++ [95] else n

def insertName (n : Name) : List Name → List Name
  | [] => [n]
  | m :: ms => if nameLt n m then n :: m :: ms else m :: insertName n ms

/-- `sort.Strings`. -/
def sortNames : List Name → List Name
  | [] => []
  | n :: ns => insertName n (sortNames ns)

/-- The constants of an enum (after fix 05), values in sorted order: the camel-cased name, or — when
    that identifier is already used by the type or an earlier constant — `Name_<value>`. -/
def enumConstsAux (enumName : Name) : List Name → List Name → List (Name × Name)
  | [], _ => []
  | v :: vs, used =>
    let c := constName enumName v
    let c' := if used.contains c then enumName ++ [95] ++ v else c
    (c', v) :: enumConstsAux enumName vs (c' :: used)

def enumConsts (enumName : Name) (values : List Name) : List (Name × Name) :=
  enumConstsAux enumName (sortNames values) [enumName]

-- literals ("sel", "Data", "Fragment", "__typename", the built-in scalar names)
def n_sel : Name := [115, 101, 108]
def n_Data : Name := [68, 97, 116, 97]
def n_Fragment : Name := [70, 114, 97, 103, 109, 101, 110, 116]
def n_typename : Name := [95, 95, 116, 121, 112, 101, 110, 97, 109, 101]
def n_Boolean : Name := [66, 111, 111, 108, 101, 97, 110]
def n_Int : Name := [73, 110, 116]
def n_Float : Name := [70, 108, 111, 97, 116]
def n_String : Name := [83, 116, 114, 105, 110, 103]
def n_ID : Name := [73, 68]

/-! ### Schema and documents -/

inductive TypeRef where
  | named (n : Name)
  | list (t : TypeRef)
  | nonNull (t : TypeRef)
  deriving Repr, DecidableEq, Inhabited

inductive TypeDef where
  | scalar (name : Name)
  | enum (name : Name) (values : List Name)
  | object (name : Name) (fields : List (Name × TypeRef)) (ifaces : List Name)
  | iface (name : Name) (fields : List (Name × TypeRef))
  | union (name : Name) (members : List Name)
  | input (name : Name)
  deriving Repr, DecidableEq, Inhabited

def TypeDef.name : TypeDef → Name
  | .scalar n | .enum n _ | .object n _ _ | .iface n _ | .union n _ | .input n => n

def TypeDef.isObject : TypeDef → Bool
  | .object _ _ _ => true
  | _ => false

structure Schema where
  types : List TypeDef
  query : Name
  mutation : Option Name
  subscription : Option Name
  deriving Repr, Inhabited

/-- `schema.NamedTypes()[n]`. -/
def Schema.lookup (S : Schema) (n : Name) : Option TypeDef := S.types.find? (fun t => t.name == n)

/-- `schema.InterfaceImplementations(i)` (as names; the Go order is arbitrary — compared as a set). -/
def Schema.implementations (S : Schema) (i : Name) : List Name :=
  S.types.filterMap fun
    | .object n _ is => if is.contains i then some n else none
    | _ => none

inductive Sel where
  | field (alias : Option Name) (name : Name) (sels : List Sel)
  | spread (name : Name)
  | inline (cond : Option Name) (sels : List Sel)
  deriving Repr, Inhabited

inductive OpKind where
  | query | mutation | subscription
  deriving Repr, DecidableEq, Inhabited

inductive Def where
  | op (kind : OpKind) (name : Option Name) (sels : List Sel)
  | frag (name : Name) (cond : Name) (sels : List Sel)
  deriving Repr, Inhabited

/-- One `gql(...)` call. `valid` is the verdict of `graphql.ParseAndValidate` (a parameter). -/
structure Doc where
  valid : Bool
  defs : List Def
  deriving Repr, Inhabited

/-! ### Abstract Go syntax of the output -/

inductive Tag where
  | none               -- no tag: encoding/json uses the Go field name
  | dash               -- `json:"-"`
  | key (k : Name)     -- `json:"k"`
  deriving Repr, DecidableEq, Inhabited

mutual
inductive GoTy where
  | bool | int | float64 | string
  | any                                  -- `interface{}` (the fall-through of main.go:48)
  | named (n : Name)
  | ptr (t : GoTy)
  | slice (t : GoTy)
  | struct (fs : List GoField)
  deriving Repr, Inhabited
inductive GoField where
  | mk (name : Name) (ty : GoTy) (tag : Tag)
  deriving Repr
end

def GoField.name : GoField → Name | .mk n _ _ => n
def GoField.ty : GoField → GoTy | .mk _ t _ => t
def GoField.tag : GoField → Tag | .mk _ _ t => t

instance : Inhabited GoField := ⟨.mk [] .any .none⟩

/-- One statement of a generated `UnmarshalJSON` after `*s = base` (main.go:197-226). -/
inductive Action where
  | uncond (field : Name)                                   -- `json.Unmarshal(b, &s.F)`
  | switch (tn : Name) (oks : List Name) (field : Name)     -- `switch base.TN { case oks…: json.Unmarshal(b, &s.F) }`
  deriving Repr, DecidableEq, Inhabited

inductive Decl where
  /-- `type N string` + `const ( C N = "V" … )` (main.go:77-88). -/
  | enum (name : Name) (consts : List (Name × Name))
  /-- `type N struct{…}` + `func (s *N) UnmarshalJSON` (main.go:173-231). -/
  | sel (name : Name) (fields : List GoField) (acts : List Action)
  /-- `type N T` (+ the forwarding `UnmarshalJSON` when `T` is a bare identifier) (main.go:241-253). -/
  | typedef (name : Name) (ty : GoTy) (forward : Bool)
  deriving Repr, Inhabited

inductive Err where
  | validation          -- processQuery: ParseAndValidate reported errors
  | typenameSpread      -- "__typename is required by fragment spread"
  | typenameInline      -- "__typename is required by inline fragment"
  | panic               -- a nil dereference in the Go code (unreachable for validated documents)
  deriving Repr, DecidableEq, Inhabited

/-! ### generateType -/

/-- The entries of the Go map `fields` (main.go:96): key ↦ type text (+ `json:"-"`). -/
structure FieldEntry where
  key : Name
  ty : GoTy
  dash : Bool
  deriving Repr, Inhabited

abbrev Fields := List FieldEntry

/-- `fields[k] = v`: replaces an existing entry with the same key. -/
def Fields.set (fs : Fields) (e : FieldEntry) : Fields :=
  if fs.any (fun x => x.key == e.key) then fs.map (fun x => if x.key == e.key then e else x)
  else fs ++ [e]

/-- The Go map `typeConditions` (main.go:109): type condition ↦ holder keys, in order of insertion. -/
abbrev Conds := List (Name × List Name)

/-- `typeConditions[c] = append(typeConditions[c], f)`. -/
def Conds.add (cs : Conds) (c f : Name) : Conds :=
  if cs.any (fun x => x.1 == c) then cs.map (fun x => if x.1 == c then (x.1, x.2 ++ [f]) else x)
  else cs ++ [(c, [f])]

structure St where
  decls : List Decl := []     -- `s.output`
  count : Nat := 0            -- `s.outputStructCount`
  enums : List Name := []     -- `s.outputEnums`
  deriving Repr, Inhabited

/-- NonNull/List wrappers of main.go:44-46, 70-75: list depth, named base, non-null flag at the base. -/
def shape : TypeRef → Bool → Nat × Name × Bool
  | .nonNull t, _ => shape t true
  | .list t, _ => let r := shape t false; (r.1 + 1, r.2.1, r.2.2)
  | .named n, nn => (0, n, nn)

def wrapSlices : Nat → GoTy → GoTy
  | 0, t => t
  | d + 1, t => .slice (wrapSlices d t)

def ptrUnless (nonNull : Bool) (t : GoTy) : GoTy := if nonNull then t else .ptr t

/-- main.go:51-65. -/
def scalarTy (n : Name) : GoTy :=
  if n == n_Boolean then .bool
  else if n == n_Int then .int
  else if n == n_Float then .float64
  else if n == n_String then .string
  else if n == n_ID then .string
  else .named n

/-- main.go:161-169: one struct field per map entry. -/
def toGoField (e : FieldEntry) : GoField :=
  let name := fieldName e.key
  .mk name e.ty (if e.dash then .dash else if !equalFold name e.key then .key e.key else .none)

def insertField (f : GoField) : List GoField → List GoField
  | [] => [f]
  | g :: gs => if nameLt f.name g.name then f :: g :: gs else g :: insertField f gs

/-- `sort.Strings(parts)` (main.go:170): the parts start with the field name followed by a space,
    which sorts before every name character, so this is the order of the names. -/
def sortFields : List GoField → List GoField
  | [] => []
  | f :: fs => insertField f (sortFields fs)

/-- main.go:98-106 after fix 03: the Go name of the field holding `__typename`, if selected. -/
def typenameFieldOf : List Sel → Option Name
  | [] => none
  | .field alias name _ :: rest =>
    if name == n_typename then some (fieldName (alias.getD name)) else typenameFieldOf rest
  | _ :: rest => typenameFieldOf rest

/-- main.go:188-205 after fix 02. -/
def isKnown (S : Schema) (td : TypeDef) (cond : Name) : Bool :=
  cond == td.name ||
  (match td with
   | .object n _ is =>
     is.contains cond ||
     (match S.lookup cond with
      | some (.union _ ms) => ms.contains n
      | _ => false)
   | _ => false)

/-- main.go:207-220 after fix 02. -/
def okTypes (S : Schema) (cond : Name) : List Name :=
  match S.lookup cond with
  | some (.iface n _) => S.implementations n
  | some (.union _ ms) => ms
  | some (.object n _ _) => [n]
  | _ => []

def actionsOf (S : Schema) (td : TypeDef) (tn : Name) (conds : Conds) : List Action :=
  (conds.map fun (c : Name × List Name) =>
    if isKnown S td c.1 then c.2.map (fun f => Action.uncond (fieldName f))
    else c.2.map (fun f => Action.switch tn (okTypes S c.1) (fieldName f))).flatten

/-- The switch on the named type (main.go:50-236). `walk` is the loop over the selections
    (main.go:111-159), supplied by the caller so that the recursion is structural in the selections. -/
def genAt (S : Schema) (n : Name) (nonNull : Bool) (tnField : Option Name) (st : St)
    (walk : TypeDef → St → Except Err (Fields × Conds × St)) : Except Err (GoTy × St) :=
  let composite (td : TypeDef) : Except Err (GoTy × St) :=
    match walk td st with
    | .error e => .error e
    | .ok (fields, conds, st1) =>
      let fs := sortFields (fields.map toGoField)
      if conds.isEmpty then .ok (ptrUnless nonNull (.struct fs), st1)
      else
        let name := n_sel ++ td.name ++ [95] ++ natDigits st1.count   -- fix 04: "sel" + T + "_" + counter
        let acts := actionsOf S td (tnField.getD []) conds
        .ok (ptrUnless nonNull (.named name),
             { st1 with decls := st1.decls ++ [.sel name fs acts], count := st1.count + 1 })
  match S.lookup n with
  | none => .ok (.any, st)
  | some (.input _) => .ok (.any, st)
  | some (.scalar nm) => .ok (ptrUnless nonNull (scalarTy nm), st)
  | some (.enum nm vs) =>
    let st' := if st.enums.contains nm then st
      else { st with decls := st.decls ++ [.enum (goTypeName nm) (enumConsts (goTypeName nm) vs)], enums := nm :: st.enums }
    .ok (ptrUnless nonNull (.named (goTypeName nm)), st')
  | some (.object a b c) => composite (.object a b c)
  | some (.iface a b) => composite (.iface a b)
  | some (.union a b) => composite (.union a b)

def lookupFrag (ft : List (Name × Name)) (n : Name) : Name :=
  match ft.find? (fun p => p.1 == n) with
  | some p => p.2
  | none => []

def fieldTypeOf (td : TypeDef) (name : Name) : Option TypeRef :=
  match td with
  | .object _ fs _ => (fs.find? (fun p => p.1 == name)).map (·.2)
  | .iface _ fs => (fs.find? (fun p => p.1 == name)).map (·.2)
  | _ => none

/-! #### Names of the fragment holders (fix 06)

  The struct member that holds a fragment is named after the fragment / its type condition; when that
  Go name is taken by a field of the selection set or by another holder, underscores are appended
  until it is free. The Go code decides lazily inside the loop (`holderKey`, memoised per kind and
  name); the model computes the same table in a pre-pass over the selection set. -/

/-- (is a spread, fragment or type-condition name, key in the `fields` map). -/
abbrev HolderTable := List (Bool × Name × Name)

def HolderTable.find (tbl : HolderTable) (spread : Bool) (n : Name) : Option Name :=
  match tbl.find? (fun e => e.1 == spread && e.2.1 == n) with
  | some e => some e.2.2
  | none => none

/-- The Go names taken by the fields of a selection set. -/
def takenOf : List Sel → List Name
  | [] => []
  | .field alias name _ :: rest => fieldName (alias.getD name) :: takenOf rest
  | _ :: rest => takenOf rest

def maxLen : List Name → Nat
  | [] => 0
  | n :: ns => max n.length (maxLen ns)

/-- `for { if !taken[fieldName(k)] { break }; k += "_" }`. The Go loop is unbounded; it stops at the
    latest when the candidate is longer than every taken name, so `maxLen taken + 1` rounds suffice. -/
def pickFree (taken : List Name) : Nat → Name → Name
  | 0, k => k
  | fuel + 1, k => if taken.contains (fieldName k) then pickFree taken fuel (k ++ [95]) else k

def holderTableAux (tdName : Name) : List Sel → List Name → HolderTable → HolderTable
  | [], _, tbl => tbl
  | .field _ _ _ :: rest, taken, tbl => holderTableAux tdName rest taken tbl
  | .inline cond _ :: rest, taken, tbl =>
    let n := cond.getD tdName
    match tbl.find false n with
    | some _ => holderTableAux tdName rest taken tbl
    | none =>
      let k := pickFree taken (maxLen taken + 1) n
      holderTableAux tdName rest (fieldName k :: taken) (tbl ++ [(false, n, k)])
  | .spread f :: rest, taken, tbl =>
    match tbl.find true f with
    | some _ => holderTableAux tdName rest taken tbl
    | none =>
      let k := pickFree taken (maxLen taken + 1) f
      holderTableAux tdName rest (fieldName k :: taken) (tbl ++ [(true, f, k)])

/-- The holder names of one selection set on a type named `tdName`. -/
def holderTable (tdName : Name) (sels : List Sel) : HolderTable :=
  holderTableAux tdName sels (takenOf sels) []

/-- The key of the generator's `fields` map a selection writes to. -/
def memberKey (tbl : HolderTable) (td : TypeDef) : Sel → Name
  | .field alias name _ => alias.getD name
  | .inline cond _ => (tbl.find false (cond.getD td.name)).getD (cond.getD td.name)
  | .spread f => (tbl.find true f).getD f

mutual
/-- One iteration of the loop main.go:111-159. -/
def genSel (S : Schema) (ft : List (Name × Name)) (td : TypeDef) (tbl : HolderTable) (hasTn : Bool) :
    Sel → Fields → Conds → St → Except Err (Fields × Conds × St)
  | .spread name, fields, conds, st =>
    if !hasTn && !td.isObject then .error .typenameSpread
    else
      let key := memberKey tbl td (.spread name)
      .ok (fields.set ⟨key, .ptr (.named (name ++ n_Fragment)), true⟩, conds.add (lookupFrag ft name) key, st)
  | .inline cond subs, fields, conds, st =>
    if !hasTn && !td.isObject then .error .typenameInline
    else
      -- fix 01: without a type condition the fragment is on the enclosing type
      let c := cond.getD td.name
      match S.lookup c with
      | none => .error .panic            -- `cond.TypeName()` on a nil interface
      | some _ =>
        match genAt S c false (typenameFieldOf subs) st
            (fun td' st' => genSels S ft td' (holderTable td'.name subs) (typenameFieldOf subs).isSome subs [] [] st') with
        | .error e => .error e
        | .ok (gen, st2) =>
          let key := memberKey tbl td (.inline cond subs)
          .ok (fields.set ⟨key, gen, true⟩, conds.add c key, st2)
  | .field alias name subs, fields, conds, st =>
    let k := alias.getD name
    if name == n_typename then .ok (fields.set ⟨k, .string, false⟩, conds, st)
    else
      match td with
      | .union _ _ => .ok (fields, conds, st)      -- neither case of main.go:148-153 applies
      | _ =>
        match fieldTypeOf td name with
        | none => .error .panic          -- `t.Fields[name].Type` on a nil *FieldDefinition
        | some ftype =>
          let sh := shape ftype false
          match genAt S sh.2.1 sh.2.2 (typenameFieldOf subs) st
              (fun td' st' => genSels S ft td' (holderTable td'.name subs) (typenameFieldOf subs).isSome subs [] [] st') with
          | .error e => .error e
          | .ok (gen, st2) => .ok (fields.set ⟨k, wrapSlices sh.1 gen, false⟩, conds, st2)
/-- The loop main.go:111-159. -/
def genSels (S : Schema) (ft : List (Name × Name)) (td : TypeDef) (tbl : HolderTable) (hasTn : Bool) :
    List Sel → Fields → Conds → St → Except Err (Fields × Conds × St)
  | [], fields, conds, st => .ok (fields, conds, st)
  | sel :: rest, fields, conds, st =>
    match genSel S ft td tbl hasTn sel fields conds st with
    | .error e => .error e
    | .ok (fields', conds', st') => genSels S ft td tbl hasTn rest fields' conds' st'
end

/-- `generateType(t, selections, nonNull, fragTypes)` for a named `t` (operation roots, fragment
    definitions); for wrapped field types see the `.field` case of `genSel`. -/
def genNamed (S : Schema) (ft : List (Name × Name)) (n : Name) (sels : List Sel) (nonNull : Bool) (st : St) :
    Except Err (GoTy × St) :=
  genAt S n nonNull (typenameFieldOf sels) st
    (fun td st' => genSels S ft td (holderTable td.name sels) (typenameFieldOf sels).isSome sels [] [] st')

/-- main.go:244: `!strings.ContainsAny(original, "* \n")`. -/
def isBareIdent : GoTy → Bool
  | .ptr _ | .slice _ | .struct _ => false
  | _ => true

/-- main.go:241-253. -/
def typeDef (name : Name) (ty : GoTy) : Decl := .typedef name ty (isBareIdent ty)

def fragTypesOf (defs : List Def) : List (Name × Name) :=
  defs.filterMap fun
    | .frag n c _ => some (n, c)
    | _ => none

def rootOf (S : Schema) : OpKind → Option Name
  | .query => some S.query
  | .mutation => S.mutation
  | .subscription => S.subscription

/-- The second loop of `processQuery` (main.go:272-302). Errors are collected; the state after a
    failed definition is irrelevant because `Generate` then produces no output. -/
def processDefs (S : Schema) (ft : List (Name × Name)) : List Def → St → List Err × St
  | [], st => ([], st)
  | .op _ none _ :: rest, st => processDefs S ft rest st
  | .op kind (some name) sels :: rest, st =>
    match rootOf S kind with
    | none => let r := processDefs S ft rest st; (.panic :: r.1, r.2)   -- nil *ObjectType
    | some root =>
      match genNamed S ft root sels true st with
      | .error e => let r := processDefs S ft rest st; (e :: r.1, r.2)
      | .ok (gen, st1) =>
        processDefs S ft rest { st1 with decls := st1.decls ++ [typeDef (name ++ n_Data) gen] }
  | .frag name cond sels :: rest, st =>
    match genNamed S ft cond sels true st with
    | .error e => let r := processDefs S ft rest st; (e :: r.1, r.2)
    | .ok (gen, st1) =>
      processDefs S ft rest { st1 with decls := st1.decls ++ [typeDef (name ++ n_Fragment) gen] }

/-- `processQuery` (main.go:255-305). -/
def processDoc (S : Schema) (d : Doc) (st : St) : List Err × St :=
  if !d.valid then ([.validation], st) else processDefs S (fragTypesOf d.defs) d.defs st

def processDocs (S : Schema) : List Doc → St → List Err × St
  | [], st => ([], st)
  | d :: ds, st =>
    let r := processDoc S d st
    let r' := processDocs S ds r.2
    (r.1 ++ r'.1, r'.2)

/-! #### Merging inline fragments with the same type condition (fix 07)

  `generateType` first merges the inline fragments of the selection set it is given that have the
  same type condition (an untyped one is on the enclosing type) into the first of them. The model
  does this as a normalisation of the document before generation, top-down: a level is merged, then
  the sub-selections of its members. `fuel` bounds the nesting depth (`selsDepth` suffices). -/

/-- Append `more` to the selections of the first inline fragment whose type condition is `c`. -/
def absorb (tdName c : Name) (more : List Sel) : List Sel → List Sel
  | [] => []
  | .inline c' ss :: rest =>
    if c'.getD tdName == c then .inline c' (ss ++ more) :: rest
    else .inline c' ss :: absorb tdName c more rest
  | s :: rest => s :: absorb tdName c more rest

def hasInline (tdName c : Name) : List Sel → Bool
  | [] => false
  | .inline c' _ :: rest => c'.getD tdName == c || hasInline tdName c rest
  | _ :: rest => hasInline tdName c rest

/-- `mergeInlineFragments`: `acc` is the merged prefix. -/
def mergeInlineAux (tdName : Name) : List Sel → List Sel → List Sel
  | [], acc => acc
  | .inline c ss :: rest, acc =>
    if hasInline tdName (c.getD tdName) acc then mergeInlineAux tdName rest (absorb tdName (c.getD tdName) ss acc)
    else mergeInlineAux tdName rest (acc ++ [.inline c ss])
  | s :: rest, acc => mergeInlineAux tdName rest (acc ++ [s])

def mergeInline (tdName : Name) (sels : List Sel) : List Sel := mergeInlineAux tdName sels []

mutual
def selDepth : Sel → Nat
  | .field _ _ ss => selsDepth ss + 1
  | .inline _ ss => selsDepth ss + 1
  | .spread _ => 1
def selsDepth : List Sel → Nat
  | [] => 0
  | s :: rest => max (selDepth s) (selsDepth rest)
end

/-- The document as `generateType` sees it, level by level. -/
def normalize (S : Schema) : Nat → TypeDef → List Sel → List Sel
  | 0, _, sels => sels
  | fuel + 1, td, sels =>
    (mergeInline td.name sels).map fun
      | .field a n ss =>
        (match fieldTypeOf td n with
         | some ft =>
           (match S.lookup (shape ft false).2.1 with
            | some td' => .field a n (normalize S fuel td' ss)
            | none => .field a n ss)
         | none => .field a n ss)
      | .inline c ss =>
        (match S.lookup (c.getD td.name) with
         | some ctd => .inline c (normalize S fuel ctd ss)
         | none => .inline c ss)
      | .spread f => .spread f

def normalizeDef (S : Schema) : Def → Def
  | .op kind name sels =>
    (match (rootOf S kind).bind S.lookup with
     | some td => .op kind name (normalize S (selsDepth sels + 1) td sels)
     | none => .op kind name sels)
  | .frag name cond sels =>
    (match S.lookup cond with
     | some td => .frag name cond (normalize S (selsDepth sels + 1) td sels)
     | none => .frag name cond sels)

def normalizeDoc (S : Schema) (d : Doc) : Doc := { d with defs := d.defs.map (normalizeDef S) }

structure Output where
  importsJSON : Bool
  decls : List Decl
  deriving Repr, Inhabited

def Decl.isSel : Decl → Bool
  | .sel _ _ _ => true
  | _ => false

/-- `Generate` (main.go:345-386) on documents whose selection sets are already merged: any error ⇒ the
    errors and *no* output. -/
def generateMerged (S : Schema) (docs : List Doc) : Except (List Err) Output :=
  let r := processDocs S docs {}
  if r.1.isEmpty then .ok { importsJSON := r.2.decls.any Decl.isSel, decls := r.2.decls }
  else .error r.1

/-- `Generate`: merging (fix 07), then generation. -/
def generate (S : Schema) (docs : List Doc) : Except (List Err) Output :=
  generateMerged S (docs.map (normalizeDoc S))

end ApiFu.C20

/-! ### encoding/json into the generated types

  `decode` models `json.Unmarshal(data, &v)` for `v` of a generated type, for exactly the shapes
  the generator emits: bool/int/float64/string, named string types (enums), pointers, slices,
  anonymous structs with optional `json:"k"` / `json:"-"` tags, and the `sel…` types with the
  generated `UnmarshalJSON`. `none` means: the code does not compile (an identifier the
  `UnmarshalJSON` body mentions is not declared) or `Unmarshal` returns an error.
  Exact under the envelope's hypothesis that no two keys of one JSON object address the same
  struct field (keys distinct ignoring case); a repeated target is modelled as overwrite.
-/
namespace ApiFu.C20

mutual
inductive Json where
  | null
  | bool (b : Bool)
  | num (isInt : Bool) (text : Name)     -- the literal; `isInt`: no fraction / exponent
  | str (s : Name)
  | arr (xs : List Json)
  | obj (kvs : List JMember)
  deriving Repr, Inhabited
inductive JMember where
  | mk (key : Name) (val : Json)
  deriving Repr
end

def JMember.key : JMember → Name | .mk k _ => k
def JMember.val : JMember → Json | .mk _ v => v

def Json.isNull : Json → Bool
  | .null => true
  | _ => false

mutual
inductive GoVal where
  | bool (b : Bool)
  | int (text : Name)
  | float (text : Name)
  | str (s : Name)
  | nil                              -- nil pointer / nil slice
  | ptr (v : GoVal)
  | slice (vs : List GoVal)
  | struct (fs : List GoValField)
  | iface (j : Json)                 -- an `interface{}` holding the generic decoding of `j`
  deriving Repr, Inhabited
inductive GoValField where
  | mk (name : Name) (tag : Tag) (val : GoVal)
  deriving Repr
end

def GoValField.name : GoValField → Name | .mk n _ _ => n
def GoValField.tag : GoValField → Tag | .mk _ t _ => t
def GoValField.val : GoValField → GoVal | .mk _ _ v => v

def n_zero : Name := [48]

/-- The zero value of a type, given how named types resolve (`under`); fuel-free because struct
    nesting is structural and named types are resolved only one level (a named struct's zero value
    is computed by the caller). -/
def zeroWith (under : Name → Option GoTy) : Nat → GoTy → GoVal
  | _, .bool => .bool false
  | _, .int => .int n_zero
  | _, .float64 => .float n_zero
  | _, .string => .str []
  | _, .any => .iface .null
  | _, .ptr _ => .nil
  | _, .slice _ => .nil
  | 0, _ => .nil
  | fuel + 1, .named n =>
    match under n with
    | some t => zeroWith under fuel t
    | none => .nil
  | fuel + 1, .struct fs => .struct (fs.map fun f => .mk f.name f.tag (zeroWith under fuel f.ty))

def isExported (n : Name) : Bool :=
  match n with
  | c :: _ => 65 ≤ c && c ≤ 90
  | [] => false

/-- The JSON name of a struct field; `none` when encoding/json ignores the field. -/
def jsonNameOf (f : GoField) : Option Name :=
  if !isExported f.name then none
  else match f.tag with
    | .dash => none
    | .key k => some k
    | .none => some f.name

/-- encoding/json's field lookup for an object key: the field whose JSON name is exactly the key,
    else the first field whose JSON name equals it ignoring case. Returns the Go field name. -/
def targetName (fs : List GoField) (key : Name) : Option Name :=
  match fs.find? (fun f => jsonNameOf f == some key) with
  | some f => some f.name
  | none =>
    match fs.find? (fun f => match jsonNameOf f with
                             | some n => equalFold n key
                             | none => false) with
    | some f => some f.name
    | none => none

def mapOpt {α β : Type} (f : α → Option β) : List α → Option (List β)
  | [] => some []
  | x :: xs =>
    match f x, mapOpt f xs with
    | some y, some ys => some (y :: ys)
    | _, _ => none

/-- The value of the last object member that is addressed to the field named `name`. -/
def lastFor (fs : List GoField) (name : Name) : List JMember → Option Json
  | [] => none
  | m :: ms =>
    match lastFor fs name ms with
    | some v => some v
    | none => if targetName fs m.key == some name then some m.val else none

/-- One struct field from the object members: a field no member addresses keeps its zero value,
    otherwise it is decoded from the (last) member addressed to it. (Go decodes member by member; the
    two agree whenever no two members address the same field — the envelope.) -/
def decodeFieldWith (dec : GoTy → Json → Option GoVal) (zero : GoTy → GoVal) (all : List GoField)
    (kvs : List JMember) (f : GoField) : Option GoValField :=
  match lastFor all f.name kvs with
  | none => some (.mk f.name f.tag (zero f.ty))
  | some j =>
    match dec f.ty j with
    | some v => some (.mk f.name f.tag v)
    | none => none

def hasDupNames (fs : List GoField) : Bool :=
  match fs with
  | [] => false
  | f :: rest => rest.any (fun g => g.name == f.name) || hasDupNames rest

/-- `json.Unmarshal(b, &x)` for `x` of an anonymous struct type. -/
def decodeStructWith (dec : GoTy → Json → Option GoVal) (zero : GoTy → GoVal) (fs : List GoField) (j : Json) :
    Option (List GoValField) :=
  if hasDupNames fs then none       -- duplicate field: does not compile
  else
    match j with
    | .null => some (fs.map fun f => .mk f.name f.tag (zero f.ty))
    | .obj kvs => mapOpt (decodeFieldWith dec zero fs kvs) fs
    | _ => none

def fieldTy (fs : List GoField) (name : Name) : Option GoTy :=
  (fs.find? (fun f => f.name == name)).map (·.ty)

def Action.field : Action → Name
  | .uncond f => f
  | .switch _ _ f => f

/-- The static checks the compiler makes on one generated statement: `s.F` must exist; the switch
    tag `base.TN` must exist and be a string (its cases are string constants). -/
def actionCompiles (fs : List GoField) : Action → Bool
  | .uncond f => (fieldTy fs f).isSome
  | .switch tn _ f =>
    (fieldTy fs f).isSome &&
    (match fieldTy fs tn with
     | some .string => true
     | _ => false)

def baseStr (base : List GoValField) (name : Name) : Option Name :=
  match base.find? (fun f => f.name == name) with
  | some (.mk _ _ (.str s)) => some s
  | _ => none

/-- Does the statement decode into its field, given the decoded base struct? -/
def actionFires (base : List GoValField) : Action → Bool
  | .uncond _ => true
  | .switch tn oks _ =>
    match baseStr base tn with
    | some s => oks.contains s
    | none => false

/-- The statements after `*s = base` (main.go:197-226), field by field: a field some firing statement
    names is decoded from the whole object `b`, every other field keeps its base value. -/
def applyActionsWith (dec : GoTy → Json → Option GoVal) (fs : List GoField) (b : Json)
    (base : List GoValField) (acts : List Action) : Option (List GoValField) :=
  if !acts.all (actionCompiles fs) then none
  else mapOpt (fun (bf : GoValField) =>
    if acts.any (fun a => a.field == bf.name && actionFires base a) then
      match fieldTy fs bf.name with
      | some t => (dec t b).map (GoValField.mk bf.name bf.tag)
      | none => none
    else some bf) base

def lookupDecl (env : List Decl) (n : Name) : Option Decl :=
  env.find? fun
    | .enum m _ | .sel m _ _ | .typedef m _ _ => m == n

/-- How a named type's underlying type looks for the purpose of zero values. -/
def underOf (env : List Decl) (n : Name) : Option GoTy :=
  match lookupDecl env n with
  | some (.enum _ _) => some .string
  | some (.sel _ fs _) => some (.struct fs)
  | some (.typedef _ t _) => some t
  | none => none

/-- Nesting bound for zero values of non-pointer struct fields (independent of the decoding fuel, so
    that decoding is monotone in its fuel). Zero values of pointers and slices are `nil` at any bound. -/
def zeroFuel : Nat := 64

/-- `json.Unmarshal(j, &x)` with `x : ty` starting from the zero value. -/
def decode (env : List Decl) : Nat → GoTy → Json → Option GoVal
  | 0, _, _ => none
  | fuel + 1, ty, j =>
    let zero := zeroWith (underOf env) zeroFuel
    match ty with
    | .ptr t => if j.isNull then some .nil else (decode env fuel t j).map .ptr
    | .slice t =>
      match j with
      | .null => some .nil
      | .arr xs => (mapOpt (decode env fuel t) xs).map .slice
      | _ => none
    | .bool =>
      match j with
      | .bool b => some (.bool b)
      | .null => some (.bool false)
      | _ => none
    | .int =>
      match j with
      | .num true t => some (.int t)
      | .null => some (.int n_zero)
      | _ => none
    | .float64 =>
      match j with
      | .num _ t => some (.float t)
      | .null => some (.float n_zero)
      | _ => none
    | .string =>
      match j with
      | .str s => some (.str s)
      | .null => some (.str [])
      | _ => none
    | .any => some (.iface j)
    | .struct fs => (decodeStructWith (decode env fuel) zero fs j).map .struct
    | .named n =>
      match lookupDecl env n with
      | none => none                                  -- undeclared identifier
      | some (.enum _ _) =>
        match j with
        | .str s => some (.str s)
        | .null => some (.str [])
        | _ => none
      | some (.typedef _ t _) => decode env fuel t j
      | some (.sel _ fs acts) =>
        -- the generated UnmarshalJSON (main.go:180-228)
        match decodeStructWith (decode env fuel) zero fs j with
        | none => none
        | some base => (applyActionsWith (decode env fuel) fs j base acts).map .struct

end ApiFu.C20
