/-
  C20 — the induction over selections: what `genSels` records for the members of a selection set is
  good (`members_lemma`), hence the type `generateType` returns for a composite type is good
  (`level_statement`), for every selection set inside the envelope.
-/
import ApiFu.C20.LemWF
import ApiFu.C20.LemHolders

namespace ApiFu.C20

def subsOf : Sel → List Sel
  | .field _ _ ss => ss
  | .inline _ ss => ss
  | .spread _ => []

theorem sizeOf_subsOf_lt {s : Sel} {sels : List Sel} (h : s ∈ sels) : sizeOf (subsOf s) < sizeOf sels := by
  have h1 := List.sizeOf_lt_of_mem h
  cases s with
  | field a n ss => simp only [subsOf, Sel.field.sizeOf_spec] at h1 ⊢; omega
  | inline c ss => simp only [subsOf, Sel.inline.sizeOf_spec] at h1 ⊢; omega
  | spread f =>
    simp only [subsOf, Sel.spread.sizeOf_spec] at h1 ⊢
    have : sizeOf ([] : List Sel) = 1 := rfl
    omega

theorem nodup_of_nodup_map {α β : Type} (f : α → β) : ∀ {l : List α}, (l.map f).Nodup → l.Nodup := by
  intro l
  induction l with
  | nil => intro _; exact List.nodup_nil
  | cons a as ih =>
    intro h
    simp only [List.map_cons, List.nodup_cons] at h ⊢
    exact ⟨fun hm => h.1 (List.mem_map.mpr ⟨a, hm, rfl⟩), ih h.2⟩

/-- Every enum the state marks as emitted has its declaration in the output. -/
def EnumInv (st : St) : Prop := ∀ n ∈ st.enums, ∃ cs, Decl.enum (goTypeName n) cs ∈ st.decls

/-- The statement about one selection set: the state only grows, and — once all declarations made so
    far are known to be in the final output `env` — the returned type is good. -/
def LevelStatement (S : Schema) (ft : List (Name × Name)) (env : List Decl)
    (frag : Name → Name → List JMember → Option (List LeafAt)) (subs : List Sel) : Prop :=
  ∀ n td nn st ty st', S.lookup n = some td → isComposite td = true →
    genAt S n nn (typenameFieldOf subs) st
      (fun td' s => genSels S ft td' (holderTable td'.name subs) (typenameFieldOf subs).isSome subs [] [] s) = .ok (ty, st') →
    setOK S ft td subs = true → EnumInv st →
    (∀ d ∈ st.decls, d ∈ st'.decls) ∧ EnumInv st' ∧ (∀ tds, NamesHyp S tds → NameInv S tds st → NameInv S tds st') ∧
    ((∀ d ∈ st'.decls, d ∈ env) →
      (∃ tyB, ty = ptrUnless nn tyB ∧ LevelGood S env frag td subs tyB) ∧
      (FragNames ft (env.map Decl.name) → enumValuesOK S = true →
        tyOK (env.map Decl.name) ty = true ∧ (StOK (env.map Decl.name) st → StOK (env.map Decl.name) st')))

theorem genAt_composite {S : Schema} {n : Name} {td : TypeDef} (hl : S.lookup n = some td) (hc : isComposite td = true)
    (nonNull : Bool) (tnField : Option Name) (st : St) (walk : TypeDef → St → Except Err (Fields × Conds × St)) :
    genAt S n nonNull tnField st walk =
      (match walk td st with
       | .error e => .error e
       | .ok (fields, conds, st1) =>
         if conds.isEmpty then .ok (ptrUnless nonNull (.struct (sortFields (fields.map toGoField))), st1)
         else
           .ok (ptrUnless nonNull (.named (n_sel ++ td.name ++ [95] ++ natDigits st1.count)),
             { st1 with
               decls := st1.decls ++ [.sel (n_sel ++ td.name ++ [95] ++ natDigits st1.count) (sortFields (fields.map toGoField))
                 (actionsOf S td (tnField.getD []) conds)],
               count := st1.count + 1 })) := by
  cases td with
  | object a b c =>
    unfold genAt; simp only [hl]
    cases walk (TypeDef.object a b c) st <;> rfl
  | iface a b =>
    unfold genAt; simp only [hl]
    cases walk (TypeDef.iface a b) st <;> rfl
  | union a b =>
    unfold genAt; simp only [hl]
    cases walk (TypeDef.union a b) st <;> rfl
  | scalar a => simp [isComposite] at hc
  | enum a b => simp [isComposite] at hc
  | input a => simp [isComposite] at hc

theorem typenameKey_isSome : ∀ sels : List Sel, (typenameKeyOf sels).isSome = (typenameFieldOf sels).isSome := by
  intro sels
  induction sels with
  | nil => rfl
  | cons s rest ih =>
    cases s with
    | field a n ss =>
      unfold typenameKeyOf typenameFieldOf
      by_cases h : n = n_typename
      · simp [h]
      · have : (n == n_typename) = false := by simpa using h
        simp [this, ih]
    | inline c ss => unfold typenameKeyOf typenameFieldOf; exact ih
    | spread f => unfold typenameKeyOf typenameFieldOf; exact ih

/-- The concrete type the specification reads off a response object is a possible type. -/
theorem concreteOf_possible {S : Schema} {td : TypeDef} {sels : List Sel} {kvs : List JMember} {T : Name}
    (hlk : S.lookup td.name = some td) (hcomp : isComposite td = true) (h : concreteOf S td sels kvs = some T) :
    (td.isObject = true ∨ (typenameFieldOf sels).isSome = true) → (possible S td.name).contains T = true := by
  intro hor
  cases td with
  | object n fs is =>
    simp only [concreteOf, Option.some.injEq] at h
    subst h
    simp only [TypeDef.name] at hlk
    simp [possible, TypeDef.name, hlk]
  | iface n fs =>
    have hs : (typenameFieldOf sels).isSome = true := by
      rcases hor with h' | h'
      · simp [TypeDef.isObject] at h'
      · exact h'
    rw [← typenameKey_isSome] at hs
    obtain ⟨k, hk⟩ := Option.isSome_iff_exists.mp hs
    simp only [concreteOf, hk] at h
    cases hm : lookupMember kvs k with
    | none => simp [hm] at h
    | some v =>
      cases v with
      | str s =>
        simp only [hm] at h
        split at h
        · rename_i hc; injection h with h; subst h; exact hc
        · cases h
      | _ => simp [hm] at h
  | union n ms =>
    have hs : (typenameFieldOf sels).isSome = true := by
      rcases hor with h' | h'
      · simp [TypeDef.isObject] at h'
      · exact h'
    rw [← typenameKey_isSome] at hs
    obtain ⟨k, hk⟩ := Option.isSome_iff_exists.mp hs
    simp only [concreteOf, hk] at h
    cases hm : lookupMember kvs k with
    | none => simp [hm] at h
    | some v =>
      cases v with
      | str s =>
        simp only [hm] at h
        split at h
        · rename_i hc; injection h with h; subst h; exact hc
        · cases h
      | _ => simp [hm] at h
  | scalar n => simp [isComposite] at hcomp
  | enum n vs => simp [isComposite] at hcomp
  | input n => simp [isComposite] at hcomp

theorem genAt_scalar {S : Schema} {n nm : Name} (hl : S.lookup n = some (.scalar nm))
    (nonNull : Bool) (tnField : Option Name) (st : St) (walk : TypeDef → St → Except Err (Fields × Conds × St)) :
    genAt S n nonNull tnField st walk = .ok (ptrUnless nonNull (scalarTy nm), st) := by
  unfold genAt; simp only [hl]

theorem genAt_enum {S : Schema} {n nm : Name} {vs : List Name} (hl : S.lookup n = some (.enum nm vs))
    (nonNull : Bool) (tnField : Option Name) (st : St) (walk : TypeDef → St → Except Err (Fields × Conds × St)) :
    genAt S n nonNull tnField st walk =
      .ok (ptrUnless nonNull (.named (goTypeName nm)),
        if st.enums.contains nm then st
        else { st with decls := st.decls ++ [.enum (goTypeName nm) (enumConsts (goTypeName nm) vs)], enums := nm :: st.enums }) := by
  unfold genAt; simp only [hl]

theorem keysOK_obj {ms : List JMember} (h : (Json.obj ms).keysOK = true) :
    keysFoldDistinct ms = true ∧ keysOKMembers ms = true := by
  simpa [Json.keysOK] using h

section
variable {S : Schema} {ft : List (Name × Name)} {env : List Decl}
  {frag : Name → Name → List JMember → Option (List LeafAt)}

/-- One iteration of the generator's loop over a selection set. -/
theorem member_step (henv : EnvOK env) (td : TypeDef) (tbl : HolderTable) (htbl : TblLetters tbl) (hasTn : Bool) (s : Sel)
    (fields : Fields) (conds : Conds) (st : St) (f1 : Fields) (c1 : Conds) (st1 : St)
    (hIH : LevelStatement S ft env frag (subsOf s))
    (hstep : genSel S ft td tbl hasTn s fields conds st = .ok (f1, c1, st1))
    (hsel : selOK S ft td s = true)
    (hfresh : ∀ x ∈ fields, x.key ≠ memberKey tbl td s)
    (hinv : EnumInv st) :
    ∃ e, f1 = fields ++ [e] ∧ e.key = memberKey tbl td s ∧
      (∀ c f, Conds.has c1 c f ↔ Conds.has conds c f ∨ FragPair ft tbl td s c f) ∧
      (∀ d ∈ st.decls, d ∈ st1.decls) ∧ EnumInv st1 ∧ (∀ tds, NamesHyp S tds → NameInv S tds st → NameInv S tds st1) ∧
      (isFieldSel s = false → td.isObject = false → hasTn = true) ∧
      ((∀ d ∈ st1.decls, d ∈ env) → MemberGood S env frag tbl td s e ∧
        (FragNames ft (env.map Decl.name) → enumValuesOK S = true →
          isExported (fieldName e.key) = true ∧ tyOK (env.map Decl.name) e.ty = true ∧
          (StOK (env.map Decl.name) st → StOK (env.map Decl.name) st1))) := by
  cases s with
  | spread f =>
    unfold genSel at hstep
    split at hstep
    · cases hstep
    · rename_i hcond
      injection hstep with hstep
      injection hstep with h1 h2
      injection h2 with h2 h3
      subst h1 h2 h3
      simp only [selOK, Bool.and_eq_true] at hsel
      refine ⟨⟨memberKey tbl td (.spread f), .ptr (.named (f ++ n_Fragment)), true⟩, ?_, rfl, ?_, fun d hd => hd, hinv, fun _ _ h => h, ?_,
        fun _ => ⟨⟨rfl, rfl, rfl⟩, fun hfn _ => ⟨isExported_fieldName (memberKey_letter_spread htbl td f hsel.1.1), ?_, fun h => h⟩⟩⟩
      · exact Fields.set_of_fresh (fun x hx => hfresh x hx)
      rotate_left 2
      · simp only [tyOK, List.contains_iff_mem]
        exact hfn f hsel.2
      · intro c f'
        rw [Conds.has_add]
        simp [FragPair]
      · intro _ hobj
        cases hasTn with
        | true => rfl
        | false => simp [hobj] at hcond
  | inline cond subs =>
    have hIH : LevelStatement S ft env frag subs := hIH
    unfold genSel at hstep
    split at hstep
    · cases hstep
    · rename_i hcond
      simp only at hstep
      cases hlc : S.lookup (cond.getD td.name) with
      | none => simp [hlc] at hstep
      | some ctd =>
        simp only [hlc] at hstep
        cases hgen : genAt S (cond.getD td.name) false (typenameFieldOf subs) st
            (fun td' st' => genSels S ft td' (holderTable td'.name subs) (typenameFieldOf subs).isSome subs [] [] st') with
        | error e => simp [hgen] at hstep
        | ok r =>
          obtain ⟨gen, st2⟩ := r
          simp only [hgen] at hstep
          injection hstep with hstep
          injection hstep with h1 h2
          injection h2 with h2 h3
          subst h1 h2 h3
          simp only [selOK, Bool.and_eq_true, hlc] at hsel
          obtain ⟨⟨hletter, _⟩, ⟨hcomp, hmok⟩, hnd⟩ := hsel
          obtain ⟨hmono, hinv', hnm, hsem⟩ := hIH _ ctd false st gen st2 hlc hcomp hgen
            (by simp [setOK, hmok, hnd]) hinv
          refine ⟨⟨memberKey tbl td (.inline cond subs), gen, true⟩, ?_, rfl, ?_, hmono, hinv', hnm, ?_, ?_⟩
          · exact Fields.set_of_fresh (fun x hx => hfresh x hx)
          · intro c f'
            rw [Conds.has_add]
            simp [FragPair]
          · intro _ hobj
            cases hasTn with
            | true => rfl
            | false => simp [hobj] at hcond
          · intro henv1
            obtain ⟨⟨tyB, hty, hgood⟩, hstatic⟩ := hsem henv1
            refine ⟨⟨rfl, rfl, ctd, tyB, hlc, by simpa [ptrUnless] using hty, hgood⟩, ?_⟩
            intro hfn hec
            obtain ⟨h1, h2⟩ := hstatic hfn hec
            exact ⟨isExported_fieldName (memberKey_letter_inline htbl td cond subs hletter), h1, h2⟩
  | field alias name subs =>
    have hIH : LevelStatement S ft env frag subs := hIH
    unfold genSel at hstep
    simp only at hstep
    by_cases hn : name = n_typename
    · subst hn
      simp only [beq_self_eq_true, if_true] at hstep
      injection hstep with hstep
      injection hstep with h1 h2
      injection h2 with h2 h3
      subst h1 h2 h3
      simp only [selOK, Bool.and_eq_true] at hsel
      refine ⟨⟨alias.getD n_typename, .string, false⟩, ?_, rfl, ?_, fun d hd => hd, hinv, fun _ _ h => h, ?_,
        fun _ => ⟨⟨rfl, rfl, by simp⟩, fun _ _ => ⟨isExported_fieldName_of_keyOK hsel.1, by simp [tyOK], fun h => h⟩⟩⟩
      · exact Fields.set_of_fresh (fun x hx => by simpa [memberKey] using hfresh x hx)
      · intro c f'; simp [FragPair]
      · intro h; simp [isFieldSel] at h
    · have hn' : (name == n_typename) = false := by simpa using hn
      simp only [hn', Bool.false_eq_true, if_false] at hstep
      simp only [selOK, Bool.and_eq_true, hn', Bool.false_or] at hsel
      obtain ⟨hkok, hnu, hsub⟩ := hsel
      have hnotunion : td.isUnion = false := by simpa using hnu
      cases hft : fieldTypeOf td name with
      | none =>
        cases td with
        | union a b => simp [TypeDef.isUnion] at hnotunion
        | object a b c => simp [hft] at hstep
        | iface a b => simp [hft] at hstep
        | scalar a => simp [hft] at hstep
        | enum a b => simp [hft] at hstep
        | input a => simp [hft] at hstep
      | some ftype =>
        have hex : ∃ gen st2, genAt S (shape ftype false).2.1 (shape ftype false).2.2 (typenameFieldOf subs) st
              (fun td' st' => genSels S ft td' (holderTable td'.name subs) (typenameFieldOf subs).isSome subs [] [] st') = .ok (gen, st2) ∧
            f1 = fields.set ⟨alias.getD name, wrapSlices (shape ftype false).1 gen, false⟩ ∧ c1 = conds ∧ st1 = st2 := by
          cases td with
          | union a b => simp [TypeDef.isUnion] at hnotunion
          | _ =>
            simp only [hft] at hstep
            split at hstep
            · cases hstep
            · rename_i gen st2 heq
              injection hstep with hstep
              injection hstep with h1 h2
              injection h2 with h2 h3
              exact ⟨gen, st2, heq, h1.symm, h2.symm, h3.symm⟩
        obtain ⟨gen, st2, hgen, rfl, rfl, rfl⟩ := hex
        clear hstep
        simp only [hft] at hsub
        -- the value part
        have hvalue : (∀ d ∈ st.decls, d ∈ st1.decls) ∧ EnumInv st1 ∧ (∀ tds, NamesHyp S tds → NameInv S tds st → NameInv S tds st1) ∧
            ((∀ d ∈ st1.decls, d ∈ env) → (∀ v L, v.keysOK = true →
              wrapLeaves (specBase S frag (shape ftype false).2.1 subs) (shape ftype false).2.2 (shape ftype false).1 v = some L →
              Holds env (wrapSlices (shape ftype false).1 gen) v L) ∧
              (FragNames ft (env.map Decl.name) → enumValuesOK S = true →
                tyOK (env.map Decl.name) (wrapSlices (shape ftype false).1 gen) = true ∧
                (StOK (env.map Decl.name) st → StOK (env.map Decl.name) st1))) := by
          cases hlb : S.lookup (shape ftype false).2.1 with
          | none => simp [hlb] at hsub
          | some btd =>
            simp only [hlb] at hsub
            by_cases hcomp : isComposite btd = true
            · simp only [hcomp, if_true, Bool.and_eq_true] at hsub
              obtain ⟨hmono, hinv', hnm, hsem⟩ := hIH _ btd _ st gen st1 hlb hcomp hgen
                (by simp [setOK, hsub.1, hsub.2]) hinv
              refine ⟨hmono, hinv', hnm, ?_⟩
              intro henv1
              obtain ⟨⟨tyB, hty, hgood⟩, hstatic⟩ := hsem henv1
              refine ⟨?_, fun hfn hec => by rw [tyOK_wrapSlices]; exact hstatic hfn hec⟩
              intro v L hk hw
              rw [hty]
              refine wrapped_holds ?_ _ v L hk hw
              intro j Lj _ hkj hbj
              unfold specBase at hbj
              simp only [hlb, hcomp, if_true] at hbj
              cases j with
              | obj kvs' =>
                simp only at hbj
                cases hco : concreteOf S btd subs kvs' with
                | none => simp [hco] at hbj
                | some T' =>
                  simp only [hco] at hbj
                  have hbn : btd.name = (shape ftype false).2.1 := Schema.lookup_name hlb
                  obtain ⟨hkd, hko⟩ := keysOK_obj hkj
                  obtain ⟨ws, hd, hcov⟩ := hgood T' kvs' Lj
                    (concreteOf_possible (by rw [hbn]; exact hlb) hcomp hco) hbj hkd hko
                  exact ⟨.struct ws, hd, by simpa [leavesV] using hcov⟩
              | _ => simp at hbj
            · have hcomp' : isComposite btd = false := by simpa using hcomp
              simp only [hcomp', Bool.false_eq_true, if_false] at hsub
              have hspec : specBase S frag (shape ftype false).2.1 subs = scalarLeaves S (shape ftype false).2.1 := by
                unfold specBase
                simp [hlb, hcomp']
              cases btd with
              | scalar nm =>
                rw [genAt_scalar hlb] at hgen
                injection hgen with hgen
                injection hgen with h1 h2
                subst h1 h2
                refine ⟨fun d hd => hd, hinv, fun _ _ h => h, ?_⟩
                intro _
                refine ⟨?_, fun _ _ => ⟨by rw [tyOK_wrapSlices, tyOK_ptrUnless]; exact tyOK_scalarTy _ hsub, fun h => h⟩⟩
                intro v L hk hw
                rw [hspec] at hw
                exact wrapped_holds (fun j Lj _ _ hbj => scalar_holds env hlb j Lj hbj) _ v L hk hw
              | enum nm vs =>
                rw [genAt_enum hlb] at hgen
                injection hgen with hgen
                injection hgen with h1 h2
                -- the enum's declaration is in the output
                have hdecl : (∃ cs, Decl.enum (goTypeName nm) cs ∈ st1.decls) ∧ (∀ d ∈ st.decls, d ∈ st1.decls) ∧ EnumInv st1 ∧
                    (∀ tds, NamesHyp S tds → NameInv S tds st → NameInv S tds st1) := by
                  rw [← h2]
                  by_cases hc : st.enums.contains nm = true
                  · simp only [hc, if_true]
                    exact ⟨hinv nm (by simpa using hc), fun d hd => hd, hinv, fun _ _ h => h⟩
                  · simp only [hc, Bool.false_eq_true, if_false]
                    refine ⟨⟨enumConsts (goTypeName nm) vs, by simp⟩, fun d hd => by simp [hd], ?_,
                      fun tds hN h => nameInv_add_enum hN h (Schema.lookup_mem hlb) (by simpa using hc) _⟩
                    intro m hm
                    simp only [List.mem_cons] at hm
                    rcases hm with rfl | hm
                    · exact ⟨enumConsts (goTypeName m) vs, by simp⟩
                    · obtain ⟨cs, hcs⟩ := hinv m hm
                      exact ⟨cs, by simp [hcs]⟩
                obtain ⟨⟨cs, hcs⟩, hmono, hinv', hnm⟩ := hdecl
                refine ⟨hmono, hinv', hnm, ?_⟩
                intro henv1
                have hlook : lookupDecl env (goTypeName nm) = some (.enum (goTypeName nm) cs) := henv _ (henv1 _ hcs)
                refine ⟨?_, ?_⟩
                · intro v L hk hw
                  rw [hspec] at hw
                  rw [← h1]
                  exact wrapped_holds (fun j Lj _ _ hbj => enum_holds hlb hlook j Lj hbj) _ v L hk hw
                · intro _ hec
                  constructor
                  · rw [← h1, tyOK_wrapSlices, tyOK_ptrUnless]
                    simp only [tyOK, List.contains_iff_mem]
                    exact List.mem_map.mpr ⟨_, henv1 _ hcs, rfl⟩
                  · intro hst d hd
                    rw [← h2] at hd
                    by_cases hc : st.enums.contains nm = true
                    · simp only [hc, if_true] at hd
                      exact hst d hd
                    · simp only [hc, Bool.false_eq_true, if_false, List.mem_append, List.mem_singleton] at hd
                      rcases hd with hd | rfl
                      · exact hst d hd
                      · have hmemS := Schema.lookup_mem hlb
                        have := List.all_eq_true.mp hec _ hmemS
                        simp only at this
                        simp only [declOK]
                        exact (nodupB_iff _).mpr (enumConsts_nodup (goTypeName nm) vs ((nodupB_iff _).mp this))
              | object a b c => simp [isComposite] at hcomp'
              | iface a b => simp [isComposite] at hcomp'
              | union a b => simp [isComposite] at hcomp'
              | input a => simp [isLeafKind] at hsub
        obtain ⟨hmono, hinv', hnm, hval⟩ := hvalue
        refine ⟨⟨alias.getD name, wrapSlices (shape ftype false).1 gen, false⟩, ?_, rfl, ?_, hmono, hinv', hnm, ?_, ?_⟩
        · exact Fields.set_of_fresh (fun x hx => by simpa [memberKey] using hfresh x hx)
        · intro c f'; simp [FragPair]
        · intro h; simp [isFieldSel] at h
        · intro henv1
          obtain ⟨hv1, hv2⟩ := hval henv1
          refine ⟨⟨rfl, rfl, ?_⟩, ?_⟩
          · simp only [hn', Bool.false_eq_true, if_false]
            exact ⟨ftype, hft, hv1⟩
          · intro hfn hec
            obtain ⟨h1, h2⟩ := hv2 hfn hec
            exact ⟨isExported_fieldName_of_keyOK hkok, h1, h2⟩

/-- The generator's loop over a selection set. -/
theorem members_lemma (henv : EnvOK env) (td : TypeDef) (tbl : HolderTable) (htbl : TblLetters tbl) (hasTn : Bool) :
    ∀ (rest : List Sel) (fields : Fields) (conds : Conds) (st : St) (fields' : Fields) (conds' : Conds) (st' : St),
      (∀ s ∈ rest, LevelStatement S ft env frag (subsOf s)) →
      genSels S ft td tbl hasTn rest fields conds st = .ok (fields', conds', st') →
      membersOK S ft td rest = true →
      (∀ x ∈ fields, ∀ s ∈ rest, x.key ≠ memberKey tbl td s) →
      (rest.map (memberKey tbl td)).Nodup →
      EnumInv st →
      ∃ es, fields' = fields ++ es ∧
        (∀ c f, Conds.has conds' c f ↔ Conds.has conds c f ∨ ∃ s ∈ rest, FragPair ft tbl td s c f) ∧
        (∀ d ∈ st.decls, d ∈ st'.decls) ∧ EnumInv st' ∧ (∀ tds, NamesHyp S tds → NameInv S tds st → NameInv S tds st') ∧
        ((∃ s ∈ rest, isFieldSel s = false) → td.isObject = false → hasTn = true) ∧
        ((∀ d ∈ st'.decls, d ∈ env) → Forall2 (MemberGood S env frag tbl td) rest es ∧
          (FragNames ft (env.map Decl.name) → enumValuesOK S = true →
            (∀ e ∈ es, isExported (fieldName e.key) = true ∧ tyOK (env.map Decl.name) e.ty = true) ∧
            (StOK (env.map Decl.name) st → StOK (env.map Decl.name) st'))) := by
  intro rest
  induction rest with
  | nil =>
    intro fields conds st fields' conds' st' _ hgen _ _ _ hinv
    simp only [genSels] at hgen
    injection hgen with hgen
    injection hgen with h1 h2
    injection h2 with h2 h3
    subst h1 h2 h3
    refine ⟨[], by simp, ?_, fun d hd => hd, hinv, fun _ _ h => h, ?_,
      fun _ => ⟨.nil, fun _ _ => ⟨fun e he => (nomatch he), fun h => h⟩⟩⟩
    · intro c f; simp
    · rintro ⟨s, hs, _⟩; cases hs
  | cons s rest ih =>
    intro fields conds st fields' conds' st' hIH hgen hmok hfresh hnd hinv
    unfold genSels at hgen
    cases hstep : genSel S ft td tbl hasTn s fields conds st with
    | error e => simp [hstep] at hgen
    | ok r =>
      obtain ⟨f1, c1, st1⟩ := r
      simp only [hstep] at hgen
      simp only [membersOK, Bool.and_eq_true] at hmok
      simp only [List.map_cons, List.nodup_cons] at hnd
      obtain ⟨e, hf1, hek, hc1, hmono1, hinv1, hnm1, htn1, hgood1⟩ :=
        member_step henv td tbl htbl hasTn s fields conds st f1 c1 st1 (hIH s List.mem_cons_self) hstep hmok.1
          (fun x hx => hfresh x hx s List.mem_cons_self) hinv
      have hfresh1 : ∀ x ∈ f1, ∀ s' ∈ rest, x.key ≠ memberKey tbl td s' := by
        intro x hx s' hs'
        rw [hf1] at hx
        rcases List.mem_append.mp hx with hx | hx
        · exact hfresh x hx s' (List.mem_cons_of_mem _ hs')
        · simp at hx
          subst hx
          rw [hek]
          intro heq
          exact hnd.1 (List.mem_map.mpr ⟨s', hs', heq.symm⟩)
      obtain ⟨es, hfs, hconds, hmono, hinv', hnm, htn, hall⟩ :=
        ih f1 c1 st1 fields' conds' st' (fun s' hs' => hIH s' (List.mem_cons_of_mem _ hs')) hgen hmok.2
          hfresh1 hnd.2 hinv1
      refine ⟨e :: es, by rw [hfs, hf1]; simp, ?_, fun d hd => hmono d (hmono1 d hd), hinv',
        fun tds hN h => hnm tds hN (hnm1 tds hN h), ?_, ?_⟩
      · intro c f
        rw [hconds, hc1]
        constructor
        · rintro ((h | h) | ⟨s', hs', h⟩)
          · exact Or.inl h
          · exact Or.inr ⟨s, List.mem_cons_self, h⟩
          · exact Or.inr ⟨s', List.mem_cons_of_mem _ hs', h⟩
        · rintro (h | ⟨s', hs', h⟩)
          · exact Or.inl (Or.inl h)
          · rcases List.mem_cons.mp hs' with rfl | hs'
            · exact Or.inl (Or.inr h)
            · exact Or.inr ⟨s', hs', h⟩
      · rintro ⟨s', hs', hf'⟩ hobj
        rcases List.mem_cons.mp hs' with rfl | hs'
        · exact htn1 hf' hobj
        · exact htn ⟨s', hs', hf'⟩ hobj
      · intro henv'
        obtain ⟨hg1, hs1⟩ := hgood1 (fun d hd => henv' d (hmono d hd))
        obtain ⟨hg2, hs2⟩ := hall henv'
        refine ⟨.cons hg1 hg2, ?_⟩
        intro hfn hec
        obtain ⟨hx1, ht1, hst1⟩ := hs1 hfn hec
        obtain ⟨hes2, hst2⟩ := hs2 hfn hec
        refine ⟨?_, fun h => hst2 (hst1 h)⟩
        intro e' he'
        rcases List.mem_cons.mp he' with rfl | he'
        · exact ⟨hx1, ht1⟩
        · exact hes2 e' he'

/-- `generateType` at a composite type, for every selection set inside the envelope. -/
theorem level_statement (hS : schemaOK S = true) (henv : EnvOK env) (hfrag : FragHyp S ft env frag) :
    ∀ (k : Nat) (subs : List Sel), sizeOf subs ≤ k → LevelStatement S ft env frag subs := by
  intro k
  induction k with
  | zero =>
    intro subs hk
    cases subs with
    | nil => simp at hk
    | cons a as => simp at hk
  | succ k ih =>
    intro subs hk n td nn st ty st' hlk hcomp hgen hok hinv
    rw [genAt_composite hlk hcomp] at hgen
    cases hwalk : genSels S ft td (holderTable td.name subs) (typenameFieldOf subs).isSome subs [] [] st with
    | error e => simp [hwalk] at hgen
    | ok r =>
      obtain ⟨fields, conds, st1⟩ := r
      simp only [hwalk] at hgen
      have hok' := hok
      simp only [setOK, Bool.and_eq_true] at hok'
      obtain ⟨hmok, hnd⟩ := hok'
      have hndk : (subs.map (memberKey (holderTable td.name subs) td)).Nodup := by
        have := keysNodup_fst hnd
        have h2 : (subs.map fun s => fieldName (memberKey (holderTable td.name subs) td s)) =
            (subs.map (memberKey (holderTable td.name subs) td)).map fieldName := by
          simp [List.map_map, Function.comp_def]
        rw [h2] at this
        exact nodup_of_nodup_map fieldName this
      obtain ⟨es, hfs, hconds, hmono, hinv', hnm, htn, hall⟩ :=
        members_lemma henv td (holderTable td.name subs) (holderTable_letters _ _) (typenameFieldOf subs).isSome subs [] [] st fields conds st1
          (fun s hs => ih (subsOf s) (by have := sizeOf_subsOf_lt hs; omega)) hwalk hmok
          (fun x hx => by cases hx) hndk hinv
      simp only [List.nil_append] at hfs
      subst hfs
      have hlk' : S.lookup td.name = some td := by rw [Schema.lookup_name hlk]; exact hlk
      have hconds' : ∀ c f, Conds.has conds c f ↔ ∃ s ∈ subs, FragPair ft (holderTable td.name subs) td s c f := by
        intro c f
        rw [hconds]
        constructor
        · rintro (h | h)
          · exact absurd h (Conds.has_nil c f)
          · exact h
        · exact Or.inr
      by_cases hempty : conds.isEmpty = true
      · simp only [hempty, if_true] at hgen
        injection hgen with hgen
        injection hgen with h1 h2
        subst h1 h2
        refine ⟨hmono, hinv', hnm, ?_⟩
        intro henv'
        obtain ⟨hall1, hall2⟩ := hall henv'
        refine ⟨⟨_, rfl, level_good hS hfrag hlk' hall1 hconds' hok (fun ho hex => htn hex ho) (Or.inl ⟨hempty, rfl⟩)⟩, ?_⟩
        intro hfn hec
        obtain ⟨hes, hst⟩ := hall2 hfn hec
        obtain ⟨hf1, hf2⟩ := level_struct_ok hall1 hok hes
        refine ⟨?_, hst⟩
        rw [tyOK_ptrUnless]
        simp [tyOK, hf1, hf2]
      · simp only [hempty, Bool.false_eq_true, if_false] at hgen
        injection hgen with hgen
        injection hgen with h1 h2
        subst h1 h2
        refine ⟨fun d hd => by simp [hmono d hd], ?_,
          fun tds hN h => nameInv_add_sel hN (hnm tds hN h) (Schema.lookup_mem hlk) hcomp _ _, ?_⟩
        · intro m hm
          obtain ⟨cs, hcs⟩ := hinv' m hm
          exact ⟨cs, by simp [hcs]⟩
        · intro henv'
          have hsel : Decl.sel (n_sel ++ td.name ++ [95] ++ natDigits st1.count) (sortFields (fields.map toGoField))
              (actionsOf S td ((typenameFieldOf subs).getD []) conds) ∈ env := henv' _ (by simp)
          have hlook := henv _ hsel
          simp only [Decl.name] at hlook
          obtain ⟨hall1, hall2⟩ := hall (fun d hd => henv' d (by simp [hd]))
          refine ⟨⟨_, rfl, level_good hS hfrag hlk' hall1 hconds' hok
            (fun ho hex => htn hex ho) (Or.inr ⟨by simpa using hempty, _, rfl, hlook⟩)⟩, ?_⟩
          intro hfn hec
          obtain ⟨hes, hst⟩ := hall2 hfn hec
          obtain ⟨hf1, hf2⟩ := level_struct_ok hall1 hok hes
          constructor
          · rw [tyOK_ptrUnless]
            simp only [tyOK, List.contains_iff_mem]
            exact List.mem_map.mpr ⟨_, hsel, rfl⟩
          · intro h0 d hd
            simp only [List.mem_append, List.mem_singleton] at hd
            rcases hd with hd | rfl
            · exact hst h0 d hd
            · simp only [declOK, Bool.and_eq_true]
              exact ⟨⟨hf1, hf2⟩, level_actions_compile hall1 hconds' hok (fun ho hex => htn hex ho)⟩

end

end ApiFu.C20
