/-
  C20 — lemmas about decoding a JSON object into a generated struct: which member each field
  receives (`lastFor`), under the envelope's conditions on names and keys.
-/
import ApiFu.C20.LemDecode
import ApiFu.C20.LemText

namespace ApiFu.C20

/-- Go field names identify fields. -/
def NameInj (fs : List GoField) : Prop := ∀ g ∈ fs, ∀ h ∈ fs, g.name = h.name → g = h

/-- JSON names identify fields, even ignoring letter case. -/
def FoldInj (fs : List GoField) : Prop :=
  ∀ g ∈ fs, ∀ h ∈ fs, ∀ a b, jsonNameOf g = some a → jsonNameOf h = some b → lowerAll a = lowerAll b → g = h

theorem equalFold_iff {a b : Name} : equalFold a b = true ↔ lowerAll a = lowerAll b := by
  simp [equalFold]

theorem targetName_some {fs : List GoField} {key nm : Name} (h : targetName fs key = some nm) :
    ∃ g ∈ fs, g.name = nm ∧ ∃ jn, jsonNameOf g = some jn ∧ lowerAll jn = lowerAll key := by
  unfold targetName at h
  split at h
  · rename_i f hf
    have hm := List.mem_of_find?_eq_some hf
    have hp := List.find?_some hf
    simp at h hp
    exact ⟨f, hm, h, key, hp, rfl⟩
  · split at h
    · rename_i f hf
      have hm := List.mem_of_find?_eq_some hf
      have hp := List.find?_some hf
      simp at h
      cases hj : jsonNameOf f with
      | none => simp [hj] at hp
      | some jn =>
        simp [hj] at hp
        exact ⟨f, hm, h, jn, hj, equalFold_iff.mp hp⟩
    · simp at h

theorem targetName_of_mem {fs : List GoField} (hinj : FoldInj fs) {f : GoField} (hf : f ∈ fs) {jn key : Name}
    (hj : jsonNameOf f = some jn) (hl : lowerAll jn = lowerAll key) : targetName fs key = some f.name := by
  cases ht : targetName fs key with
  | some nm =>
    obtain ⟨g, hg, hgn, jn', hj', hl'⟩ := targetName_some ht
    have : g = f := hinj g hg f hf jn' jn hj' hj (by rw [hl', hl])
    subst this
    rw [hgn]
  | none =>
    exfalso
    unfold targetName at ht
    split at ht
    · simp at ht
    · split at ht
      · simp at ht
      · rename_i _ hnone
        have := List.find?_eq_none.mp hnone f hf
        simp [hj, equalFold_iff.mpr hl] at this

theorem lastFor_some {fs : List GoField} {name : Name} :
    ∀ {kvs : List JMember} {v : Json}, lastFor fs name kvs = some v →
      ∃ m ∈ kvs, targetName fs m.key = some name ∧ m.val = v := by
  intro kvs
  induction kvs with
  | nil => intro v h; simp [lastFor] at h
  | cons m ms ih =>
    intro v h
    unfold lastFor at h
    cases hl : lastFor fs name ms with
    | some w =>
      simp [hl] at h
      obtain ⟨m', hm', ht, hv⟩ := ih hl
      exact ⟨m', List.mem_cons_of_mem _ hm', ht, by rw [hv, h]⟩
    | none =>
      simp [hl] at h
      exact ⟨m, List.mem_cons_self, h.1, h.2⟩

theorem keysFoldDistinct_cons {m : JMember} {ms : List JMember} (h : keysFoldDistinct (m :: ms) = true) :
    (∀ m' ∈ ms, lowerAll m'.key ≠ lowerAll m.key) ∧ keysFoldDistinct ms = true := by
  simp only [keysFoldDistinct, Bool.and_eq_true, Bool.not_eq_true', List.any_eq_false] at h
  refine ⟨fun m' hm' heq => ?_, h.2⟩
  have := h.1 m' hm'
  exact this (equalFold_iff.mpr heq)

/-- A field whose JSON name matches the key `k` (ignoring case) receives the member `k`. -/
theorem lastFor_of_lookup {fs : List GoField} (hfold : FoldInj fs) (hname : NameInj fs) {f : GoField} (hf : f ∈ fs)
    {jn k : Name} (hj : jsonNameOf f = some jn) (hl : lowerAll jn = lowerAll k) :
    ∀ {kvs : List JMember} {v : Json}, keysFoldDistinct kvs = true → lookupMember kvs k = some v →
      lastFor fs f.name kvs = some v := by
  intro kvs
  induction kvs with
  | nil => intro v _ h; simp [lookupMember] at h
  | cons m ms ih =>
    intro v hk hlook
    obtain ⟨hdist, hk'⟩ := keysFoldDistinct_cons hk
    unfold lookupMember at hlook
    unfold lastFor
    by_cases hmk : m.key = k
    · simp [hmk] at hlook
      cases hrest : lastFor fs f.name ms with
      | some w =>
        exfalso
        obtain ⟨m', hm', ht, _⟩ := lastFor_some hrest
        obtain ⟨g, hg, hgn, jn', hj', hl'⟩ := targetName_some ht
        have : g = f := hname g hg f hf hgn
        subst this
        rw [hj] at hj'
        injection hj' with hj'
        subst hj'
        exact hdist m' hm' (by rw [← hl', hl, hmk])
      | none =>
        have : targetName fs m.key = some f.name := targetName_of_mem hfold hf hj (by rw [hl, hmk])
        simp [this, hlook]
    · have hne : (m.key == k) = false := by simpa using hmk
      simp [hne] at hlook
      simp [ih hk' hlook]

/-- A field encoding/json ignores (`json:"-"`) receives nothing. -/
theorem lastFor_none_of_ignored {fs : List GoField} (hname : NameInj fs) {f : GoField} (hf : f ∈ fs)
    (hj : jsonNameOf f = none) (kvs : List JMember) : lastFor fs f.name kvs = none := by
  cases h : lastFor fs f.name kvs with
  | none => rfl
  | some v =>
    exfalso
    obtain ⟨m, _, ht, _⟩ := lastFor_some h
    obtain ⟨g, hg, hgn, jn, hj', _⟩ := targetName_some ht
    have : g = f := hname g hg f hf hgn
    subst this
    rw [hj] at hj'
    cases hj'

theorem fieldTy_of_mem {fs : List GoField} (hname : NameInj fs) {f : GoField} (hf : f ∈ fs) :
    fieldTy fs f.name = some f.ty := by
  unfold fieldTy
  cases h : fs.find? (fun g => g.name == f.name) with
  | none =>
    have := List.find?_eq_none.mp h f hf
    simp at this
  | some g =>
    have hm := List.mem_of_find?_eq_some h
    have hp := List.find?_some h
    simp at hp
    have : g = f := hname g hm f hf hp
    simp [this]

/-! ### `sortFields` is a permutation -/

theorem insertField_perm (f : GoField) : ∀ gs : List GoField, (insertField f gs).Perm (f :: gs) := by
  intro gs
  induction gs with
  | nil => exact List.Perm.refl _
  | cons g gs ih =>
    unfold insertField
    split
    · exact List.Perm.refl _
    · exact (List.Perm.cons g ih).trans (List.Perm.swap f g gs)

theorem sortFields_perm : ∀ fs : List GoField, (sortFields fs).Perm fs := by
  intro fs
  induction fs with
  | nil => exact List.Perm.refl _
  | cons f fs ih =>
    unfold sortFields
    exact (insertField_perm f _).trans (List.Perm.cons f ih)

theorem mem_sortFields {g : GoField} {fs : List GoField} : g ∈ sortFields fs ↔ g ∈ fs :=
  (sortFields_perm fs).mem_iff

theorem hasDupNames_eq_false_iff : ∀ fs : List GoField, hasDupNames fs = false ↔ (fs.map GoField.name).Nodup := by
  intro fs
  induction fs with
  | nil => simp [hasDupNames]
  | cons f fs ih =>
    unfold hasDupNames
    simp only [Bool.or_eq_false_iff, List.map_cons, List.nodup_cons, ih]
    constructor
    · rintro ⟨h1, h2⟩
      refine ⟨?_, h2⟩
      intro hmem
      obtain ⟨g, hg, hgn⟩ := List.mem_map.mp hmem
      have := List.any_eq_false.mp h1 g hg
      simp [hgn] at this
    · rintro ⟨h1, h2⟩
      refine ⟨?_, h2⟩
      apply List.any_eq_false.mpr
      intro g hg
      simp only [beq_iff_eq]
      intro heq
      exact h1 (List.mem_map.mpr ⟨g, hg, heq⟩)

theorem nameInj_of_nodup : ∀ {fs : List GoField}, (fs.map GoField.name).Nodup → NameInj fs := by
  intro fs
  induction fs with
  | nil => intro _ g hg; cases hg
  | cons f fs ih =>
    intro hnd g hg h hh heq
    simp only [List.map_cons, List.nodup_cons] at hnd
    rcases List.mem_cons.mp hg with rfl | hg'
    · rcases List.mem_cons.mp hh with rfl | hh'
      · rfl
      · exact absurd (List.mem_map.mpr ⟨h, hh', heq.symm⟩) hnd.1
    · rcases List.mem_cons.mp hh with rfl | hh'
      · exact absurd (List.mem_map.mpr ⟨g, hg', heq⟩) hnd.1
      · exact ih hnd.2 g hg' h hh' heq

theorem hasDupNames_sortFields {fs : List GoField} (h : (fs.map GoField.name).Nodup) :
    hasDupNames (sortFields fs) = false :=
  (hasDupNames_eq_false_iff _).mpr (((sortFields_perm fs).map GoField.name).nodup_iff.mpr h)

end ApiFu.C20
