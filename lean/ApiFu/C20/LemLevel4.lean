/-
  C20 — the level lemma, part 2: the `sel…` type with its generated `UnmarshalJSON`, and the
  conclusion `LevelGood`.
-/
import ApiFu.C20.LemLevel3

namespace ApiFu.C20

variable {S : Schema} {ft : List (Name × Name)} {env : List Decl}
  {frag : Name → Name → List JMember → Option (List LeafAt)} {td : TypeDef}
  {sels : List Sel} {es : List FieldEntry}

theorem applies_of_known (hS : schemaOK S = true) (hlk : S.lookup td.name = some td) {c T : Name}
    (hk : isKnown S td c = true) (hT : (possible S td.name).contains T = true) :
    (possible S c).contains T = true := by
  by_cases hc : c = td.name
  · subst hc; exact hT
  · cases td with
    | object n fs is =>
      simp only [TypeDef.name] at hlk hT hc
      have hTn : T = n := by
        simp [possible, hlk] at hT
        exact hT
      subst hTn
      exact possible_of_isKnown_object hS hlk hk
    | iface n fs =>
      have : (c == n) = false := by simpa [TypeDef.name] using hc
      simp [isKnown, TypeDef.name, this] at hk
    | union n ms =>
      have : (c == n) = false := by simpa [TypeDef.name] using hc
      simp [isKnown, TypeDef.name, this] at hk
    | scalar n =>
      have : (c == n) = false := by simpa [TypeDef.name] using hc
      simp [isKnown, TypeDef.name, this] at hk
    | enum n vs =>
      have : (c == n) = false := by simpa [TypeDef.name] using hc
      simp [isKnown, TypeDef.name, this] at hk
    | input n =>
      have : (c == n) = false := by simpa [TypeDef.name] using hc
      simp [isKnown, TypeDef.name, this] at hk

theorem fragPair_exists (ft : List (Name × Name)) (td : TypeDef) {s : Sel} (h : isFieldSel s = false) :
    ∃ c f, FragPair ft (holderTable td.name sels) td s c f := by
  cases s with
  | field a n ss => simp [isFieldSel] at h
  | inline c ss => exact ⟨_, _, rfl, rfl⟩
  | spread g => exact ⟨_, _, rfl, rfl⟩

theorem fragPair_key {s : Sel} {c f : Name} (h : FragPair ft (holderTable td.name sels) td s c f) : f = memberKey (holderTable td.name sels) td s ∧ isFieldSel s = false := by
  cases s with
  | field a n ss => cases h
  | inline c' ss => exact ⟨h.2, rfl⟩
  | spread g => exact ⟨h.2, rfl⟩

theorem fragPair_fun {s : Sel} {c f c' f' : Name} (h : FragPair ft (holderTable td.name sels) td s c f) (h' : FragPair ft (holderTable td.name sels) td s c' f') :
    c = c' ∧ f = f' := by
  cases s with
  | field a n ss => cases h
  | inline c'' ss => exact ⟨h.1.trans h'.1.symm, h.2.trans h'.2.symm⟩
  | spread g => exact ⟨h.1.trans h'.1.symm, h.2.trans h'.2.symm⟩

/-- After the statements of the generated `UnmarshalJSON`, field by field. -/
def ActRel (S : Schema) (env : List Decl) (frag : Name → Name → List JMember → Option (List LeafAt))
    (td : TypeDef) (sels : List Sel) (fs : List GoField) (T : Name) (kvs : List JMember)
    (base : List GoValField) (acts : List Action) (bf w : GoValField) : Prop :=
  ActionDecodes env fs (.obj kvs) base acts bf w ∧
  (∀ s ∈ sels, bf.name = fieldName (memberKey (holderTable td.name sels) td s) →
    ∀ Ls, selLeavesSel S frag T td kvs s = some Ls → ∀ x ∈ Ls, x ∈ leavesVFields [w])

theorem level_good (hS : schemaOK S = true) (hfrag : FragHyp S ft env frag)
    (hlk : S.lookup td.name = some td)
    (hmem : Forall2 (MemberGood S env frag (holderTable td.name sels) td) sels es)
    {conds : Conds}
    (hconds : ∀ c f, Conds.has conds c f ↔ ∃ s ∈ sels, FragPair ft (holderTable td.name sels) td s c f)
    (hok : setOK S ft td sels = true)
    (htn : td.isObject = false → (∃ s ∈ sels, isFieldSel s = false) → (typenameFieldOf sels).isSome = true)
    {tyB : GoTy}
    (hty : (conds.isEmpty = true ∧ tyB = .struct (sortFields (es.map toGoField))) ∨
           (conds.isEmpty = false ∧ ∃ N, tyB = .named N ∧
              lookupDecl env N = some (.sel N (sortFields (es.map toGoField))
                (actionsOf S td ((typenameFieldOf sels).getD []) conds)))) :
    LevelGood S env frag td sels tyB := by
  intro T kvs L hT hL hkd hko
  have hbase := base_exists hmem hok hL hkd hko
  have hfold := fs_foldInj hmem hok
  have hok' := hok
  simp only [setOK, Bool.and_eq_true] at hok'
  obtain ⟨hmok, hnd⟩ := hok'
  have hname := fs_nameInj hmem hnd
  obtain ⟨vfs, hvfs⟩ := forall2_of_forall_exists hbase
  have hdec : Forall2 (FieldDecodes env (sortFields (es.map toGoField)) kvs) (sortFields (es.map toGoField)) vfs :=
    Forall2.imp (fun _ _ h => h.1) hvfs
  have hdup : hasDupNames (sortFields (es.map toGoField)) = false :=
    hasDupNames_sortFields (goFields_names_nodup hmem hnd)
  have hstruct : Decodes env (.struct (sortFields (es.map toGoField))) (.obj kvs) (.struct vfs) :=
    Decodes.struct hdup hdec
  obtain ⟨hS1, hS2⟩ := selLeavesSels_mem hL
  -- from a member to its entry, its Go field and its base value
  have chain : ∀ s ∈ sels, ∃ e ∈ es, MemberGood S env frag (holderTable td.name sels) td s e ∧ toGoField e ∈ sortFields (es.map toGoField) ∧
      ∃ bf ∈ vfs, BaseRel S env frag td sels (sortFields (es.map toGoField)) T kvs (toGoField e) bf ∧
        bf.name = fieldName (memberKey (holderTable td.name sels) td s) := by
    intro s hs
    obtain ⟨e, he, hg⟩ := Forall2.mem_left hmem s hs
    have hgm : toGoField e ∈ sortFields (es.map toGoField) := mem_fs_iff.mpr ⟨e, he, rfl⟩
    obtain ⟨bf, hbf, hrel⟩ := Forall2.mem_left hvfs _ hgm
    exact ⟨e, he, hg, hgm, bf, hbf, hrel, by rw [hrel.2.1, toGoField_name, hg.1]⟩
  rcases hty with ⟨hempty, rfl⟩ | ⟨hne, N, rfl, hlookup⟩
  · -- no fragments: a plain struct
    refine ⟨vfs, hstruct, ?_⟩
    intro x hx
    obtain ⟨s, hs, Ls, hLs, hxs⟩ := hS2 x hx
    obtain ⟨e, _, _, _, bf, hbf, hrel, hbn⟩ := chain s hs
    have hfield : isFieldSel s = true := by
      cases hf : isFieldSel s with
      | true => rfl
      | false =>
        obtain ⟨c, f, hp⟩ := fragPair_exists ft td hf
        exact absurd ((hconds c f).mpr ⟨s, hs, hp⟩) (Conds.isEmpty_imp_not_has hempty c f)
    have := hrel.2.2.2.2.1 s hs hfield (by rw [← hbn, hrel.2.1]) Ls hLs x hxs
    exact mem_leavesVFields.mpr ⟨bf, hbf, this⟩
  · -- a sel type: base struct, then the generated statements
    have hvnames : vfs.map GoValField.name = (sortFields (es.map toGoField)).map GoField.name :=
      forall2_names (fun _ _ h => h.2.1) hvfs
    have hvinj : ValNameInj vfs := by
      apply valNameInj_of_nodup
      rw [hvnames]
      exact ((sortFields_perm _).map GoField.name).nodup_iff.mpr (goFields_names_nodup hmem hnd)
    -- every statement comes from a fragment member
    have hact_of : ∀ a ∈ actionsOf S td ((typenameFieldOf sels).getD []) conds,
        ∃ s ∈ sels, ∃ c f, FragPair ft (holderTable td.name sels) td s c f ∧ a = actionFor S td ((typenameFieldOf sels).getD []) c f := by
      intro a ha
      obtain ⟨c, f, hhas, rfl⟩ := mem_actionsOf.mp ha
      obtain ⟨s, hs, hp⟩ := (hconds c f).mp hhas
      exact ⟨s, hs, c, f, hp, rfl⟩
    have hact_mem : ∀ s ∈ sels, ∀ c f, FragPair ft (holderTable td.name sels) td s c f →
        actionFor S td ((typenameFieldOf sels).getD []) c f ∈ actionsOf S td ((typenameFieldOf sels).getD []) conds := by
      intro s hs c f hp
      exact mem_actionsOf.mpr ⟨c, f, (hconds c f).mpr ⟨s, hs, hp⟩, rfl⟩
    -- the __typename field, when a switch needs it
    have htyp : ∀ s ∈ sels, ∀ c f, FragPair ft (holderTable td.name sels) td s c f → isKnown S td c = false →
        fieldTy (sortFields (es.map toGoField)) ((typenameFieldOf sels).getD []) = some .string ∧
        baseStr vfs ((typenameFieldOf sels).getD []) = some T := by
      intro s hs c f hp hk
      have hsel := membersOK_mem hmok s hs
      have hnobj : td.isObject = false := by
        cases ho : td.isObject with
        | false => rfl
        | true =>
          exfalso
          cases s with
          | field a n ss => cases hp
          | inline c' ss =>
            simp only [selOK, Bool.and_eq_true, ho, Bool.not_true, Bool.false_or] at hsel
            have := hsel.1.2
            rw [← hp.1, hk] at this
            cases this
          | spread g =>
            simp only [selOK, Bool.and_eq_true, ho, Bool.not_true, Bool.false_or] at hsel
            have := hsel.1.2
            rw [← hp.1, hk] at this
            cases this
      have hsome := htn hnobj ⟨s, hs, (fragPair_key hp).2⟩
      obtain ⟨tn, htn'⟩ := Option.isSome_iff_exists.mp hsome
      obtain ⟨alias, subs, hm, rfl⟩ := typenameFieldOf_some htn'
      obtain ⟨e, _, hg, hgm, bf, hbf, hrel, hbn⟩ := chain _ hm
      simp only [htn', Option.getD_some]
      constructor
      · have := fieldTy_of_mem hname hgm
        rw [toGoField_name, hg.1] at this
        have hty : e.ty = .string := by simpa using hg.2.2
        simp only [memberKey] at this
        rw [this, toGoField_ty, hty]
      · have hv := hrel.2.2.2.2.2 alias subs hm (by rw [toGoField_name, hg.1]; rfl)
        cases bf with
        | mk n t v =>
          simp only [GoValField.val] at hv
          simp only [GoValField.name, memberKey] at hbn
          subst hv hbn
          exact baseStr_of_mem hvinj hbf
    -- all statements compile
    have hcomp : (actionsOf S td ((typenameFieldOf sels).getD []) conds).all
        (actionCompiles (sortFields (es.map toGoField))) = true := by
      apply List.all_eq_true.mpr
      intro a ha
      obtain ⟨s, hs, c, f, hp, rfl⟩ := hact_of a ha
      obtain ⟨e, _, hg, hgm, _, _, _, _⟩ := chain s hs
      have hfty : fieldTy (sortFields (es.map toGoField)) (fieldName f) = some e.ty := by
        have := fieldTy_of_mem hname hgm
        rw [toGoField_name, hg.1, ← (fragPair_key hp).1] at this
        exact this
      unfold actionFor
      cases hk : isKnown S td c with
      | true => simp [actionCompiles, hfty]
      | false =>
        have := (htyp s hs c f hp hk).1
        simp [actionCompiles, hfty, this]
    -- the statements, field by field
    have hacts : ∀ bf ∈ vfs, ∃ w, ActRel S env frag td sels (sortFields (es.map toGoField)) T kvs vfs
        (actionsOf S td ((typenameFieldOf sels).getD []) conds) bf w := by
      intro bf hbf
      obtain ⟨g, hg, hrel⟩ := Forall2.mem_right hvfs bf hbf
      obtain ⟨e, he, rfl⟩ := mem_fs_iff.mp hg
      obtain ⟨s, hs, hgood⟩ := Forall2.mem_right hmem e he
      have hbn : bf.name = fieldName (memberKey (holderTable td.name sels) td s) := by rw [hrel.2.1, toGoField_name, hgood.1]
      -- a statement that names this field belongs to this member
      have hown : ∀ a ∈ actionsOf S td ((typenameFieldOf sels).getD []) conds, a.field = bf.name →
          ∃ c f, FragPair ft (holderTable td.name sels) td s c f ∧ a = actionFor S td ((typenameFieldOf sels).getD []) c f := by
        intro a ha haf
        obtain ⟨s', hs', c, f, hp, rfl⟩ := hact_of a ha
        rw [actionFor_field, (fragPair_key hp).1, hbn] at haf
        have := sels_inj hnd s' hs' s hs haf
        subst this
        exact ⟨c, f, hp, rfl⟩
      cases hfs : isFieldSel s with
      | true =>
        -- a field: no statement names it
        have hnofire : (actionsOf S td ((typenameFieldOf sels).getD []) conds).any
            (fun a => a.field == bf.name && actionFires vfs a) = false := by
          apply List.any_eq_false.mpr
          intro a ha
          simp only [Bool.and_eq_true, beq_iff_eq, not_and]
          intro haf
          obtain ⟨c, f, hp, _⟩ := hown a ha haf
          rw [(fragPair_key hp).2] at hfs
          cases hfs
        refine ⟨bf, ?_, ?_⟩
        · unfold ActionDecodes
          simp [hnofire]
        · intro s' hs' hn' Ls hLs x hx
          have := sels_inj hnd s' hs' s hs (by rw [← hn', hbn])
          subst this
          exact hrel.2.2.2.2.1 s' hs' hfs (by rw [← hn', hrel.2.1]) Ls hLs x hx
      | false =>
        obtain ⟨c, f, hp⟩ := fragPair_exists ft td hfs
        have ha_mem := hact_mem s hs c f hp
        have ha_field : (actionFor S td ((typenameFieldOf sels).getD []) c f).field = bf.name := by
          rw [actionFor_field, (fragPair_key hp).1, hbn]
        have hdash : e.dash = true := by
          cases s with
          | field a n ss => simp [isFieldSel] at hfs
          | inline c' ss => exact hgood.2.1
          | spread g' => exact hgood.2.1
        have htag : bf.tag = .dash := by rw [hrel.2.2.1, toGoField_tag_dash hdash]
        have hfty : fieldTy (sortFields (es.map toGoField)) bf.name = some e.ty := by
          have := fieldTy_of_mem hname hg
          rw [toGoField_ty] at this
          rw [hrel.2.1]
          exact this
        obtain ⟨Ls, hLs, _⟩ := hS1 s hs
        -- does the fragment apply to this object?
        cases happ : (possible S c).contains T with
        | true =>
          -- its statement fires
          have hfire : (actionsOf S td ((typenameFieldOf sels).getD []) conds).any
              (fun a => a.field == bf.name && actionFires vfs a) = true := by
            apply List.any_eq_true.mpr
            refine ⟨_, ha_mem, ?_⟩
            simp only [Bool.and_eq_true, beq_iff_eq]
            refine ⟨ha_field, ?_⟩
            unfold actionFor
            cases hk : isKnown S td c with
            | true => simp [actionFires]
            | false =>
              have := (htyp s hs c f hp hk).2
              simp [actionFires, this, okTypes_eq_possible]
              simpa using happ
          -- the holder decodes from the same object
          have hhold : ∃ ws', Decodes env e.ty (.obj kvs) (.ptr (.struct ws')) ∧ ∀ x ∈ Ls, x ∈ leavesVFields ws' := by
            cases s with
            | field a n ss => simp [isFieldSel] at hfs
            | inline c' ss =>
              obtain ⟨_, _, ctd, tyB, hlc, hety, hlevel⟩ := hgood
              obtain ⟨hc1, _⟩ := hp
              rw [selLeavesSel] at hLs
              rw [← hc1] at hlc
              simp only [← hc1, hlc, happ, if_true] at hLs
              have hcn : ctd.name = c := Schema.lookup_name hlc
              obtain ⟨ws', hd', hcov⟩ := hlevel T kvs Ls (fun _ => by rw [hcn]; exact happ) hLs hkd hko
              exact ⟨ws', by rw [hety]; exact Decodes.ptr hd' rfl, hcov⟩
            | spread g' =>
              obtain ⟨hc1, _⟩ := hp
              rw [selLeavesSel] at hLs
              have := hfrag g' T kvs Ls hLs hkd hko
              rw [← hc1, happ] at this
              simp only [if_true] at this
              obtain ⟨ws', hd', hcov⟩ := this
              exact ⟨ws', by rw [hgood.2.2]; exact Decodes.ptr hd' rfl, hcov⟩
          obtain ⟨ws', hd', hcov⟩ := hhold
          refine ⟨.mk bf.name bf.tag (.ptr (.struct ws')), ?_, ?_⟩
          · unfold ActionDecodes
            simp only [hfire, if_true]
            exact ⟨e.ty, _, hfty, hd', rfl⟩
          · intro s' hs' hn' Ls' hLs' x hx
            have := sels_inj hnd s' hs' s hs (by rw [← hn', hbn])
            subst this
            rw [hLs] at hLs'
            injection hLs' with hLs'
            subst hLs'
            rw [htag, leaves_of_holder]
            exact hcov x hx
        | false =>
          -- it does not apply: its statement does not fire, and it selects nothing
          have hnofire : (actionsOf S td ((typenameFieldOf sels).getD []) conds).any
              (fun a => a.field == bf.name && actionFires vfs a) = false := by
            apply List.any_eq_false.mpr
            intro a ha
            simp only [Bool.and_eq_true, beq_iff_eq, not_and]
            intro haf
            obtain ⟨c', f', hp', rfl⟩ := hown a ha haf
            obtain ⟨hcc, hff⟩ := fragPair_fun hp hp'
            subst hcc hff
            unfold actionFor
            cases hk : isKnown S td c with
            | true =>
              have hT' : (possible S td.name).contains T = true := by
                apply hT
                cases ho : td.isObject with
                | true => exact Or.inl rfl
                | false => exact Or.inr (htn ho ⟨s, hs, hfs⟩)
              have := applies_of_known hS hlk hk hT'
              rw [happ] at this
              cases this
            | false =>
              have := (htyp s hs c f hp hk).2
              simp [actionFires, this, okTypes_eq_possible]
              simpa using happ
          have hLnil : Ls = [] := by
            cases s with
            | field a n ss => simp [isFieldSel] at hfs
            | inline c' ss =>
              obtain ⟨_, _, ctd, tyB, hlc, _, _⟩ := hgood
              obtain ⟨hc1, _⟩ := hp
              rw [selLeavesSel] at hLs
              rw [← hc1] at hlc
              simp only [← hc1, hlc, happ] at hLs
              simpa using hLs.symm
            | spread g' =>
              obtain ⟨hc1, _⟩ := hp
              rw [selLeavesSel] at hLs
              have := hfrag g' T kvs Ls hLs hkd hko
              rw [← hc1, happ] at this
              simpa using this
          refine ⟨bf, ?_, ?_⟩
          · unfold ActionDecodes
            simp [hnofire]
          · intro s' hs' hn' Ls' hLs' x hx
            have := sels_inj hnd s' hs' s hs (by rw [← hn', hbn])
            subst this
            rw [hLs] at hLs'
            injection hLs' with hLs'
            subst hLs'
            rw [hLnil] at hx
            cases hx
    obtain ⟨ws, hws⟩ := forall2_of_forall_exists hacts
    refine ⟨ws, Decodes.sel hlookup hstruct hcomp (Forall2.imp (fun _ _ h => h.1) hws), ?_⟩
    intro x hx
    obtain ⟨s, hs, Ls, hLs, hxs⟩ := hS2 x hx
    obtain ⟨e, _, _, _, bf, hbf, _, hbn⟩ := chain s hs
    obtain ⟨w, hw, hrel⟩ := Forall2.mem_left hws bf hbf
    exact mem_leavesVFields.mpr ⟨w, hw, hrel.2 s hs hbn Ls hLs x hxs⟩

end ApiFu.C20
