/-
  C20 — property theorems about encoding/json's field matching and about nullability (session 3).

  (2) Case-insensitive matching. encoding/json processes an object member by member and delivers a
      member to the field whose JSON name is the key exactly, else to the first field whose JSON name
      equals the key ignoring case (`targetName`) — whether or not the field carries a `json:"…"` tag.
      `struct_decode_is_memberwise` shows that the field-centric `decodeStructWith` of the model (which
      `decode_preserves_leaves` is about) IS that member-by-member loop whenever no two members address
      the same field, whatever encoding/json does with a field that already holds a value
      (parameter `decInto`); keys distinct ignoring case suffice (`…_of_fold`). Outside that
      hypothesis the generator's output is NOT safe and no tag could make it so:
      `case_variants_collide` + the counterexample at the end (`n { __typename ... on Node { x }
      ... on Alpha { X: c } }`, response `{"x":1,"X":"s"}`: Unmarshal fails) — run against the real
      binary and the real encoding/json by the harness (corpus `case-boundary-*`).
  (3) Nullability. Every nullable position of a field's GraphQL type is a pointer or a slice in the
      generated Go type and every non-null named position is not (`field_type_null_shape`); `null`
      at a pointer/slice decodes to nil, which holds the leaf `null` (`null_decodes_at_nilable`); a
      response that conforms to the operation has no `null` at a non-null position
      (`conforming_nulls_only_where_nullable`) — where encoding/json would NOT fail but silently
      keep the zero value (`null_at_non_pointer_is_silent`).
-/
import ApiFu.C20.LemSeq

namespace ApiFu.C20

/-! ### (2) member-by-member decoding -/

/-- **struct_decode_is_memberwise** — for every struct type `fs` with distinct field names, every
    object `kvs` no two members of which address the same field, and *every* behaviour `decInto` of
    encoding/json on fields that already hold a value (as long as decoding into a zero value is plain
    decoding): the member-by-member loop of encoding/json computes exactly what the model's
    field-centric `decodeStructWith` computes (each field: zero if no member addresses it, else decoded
    from that member; failure iff some addressed field fails). -/
theorem struct_decode_is_memberwise (decInto : GoVal → GoTy → Json → Option GoVal) (dec : GoTy → Json → Option GoVal)
    (zero : GoTy → GoVal) (hzero : ∀ ty j, decInto (zero ty) ty j = dec ty j)
    (fs : List GoField) (hnd : (fs.map GoField.name).Nodup) (kvs : List JMember) (hd : TargetsDistinct fs kvs) :
    decodeStructSeq decInto zero fs kvs = decodeStructWith dec zero fs (.obj kvs) := by
  have hdup : hasDupNames fs = false := (hasDupNames_eq_false_iff fs).mpr hnd
  simp only [decodeStructWith, hdup, Bool.false_eq_true, if_false]
  unfold decodeStructSeq
  rw [seqLoop_eq hzero fs kvs _ hd]
  · exact fieldwise_pairs dec zero fs kvs fs
  · intro m _ nm _ p hp _
    obtain ⟨f, _, rfl⟩ := List.mem_map.mp hp
    rfl

/-- **struct_decode_is_memberwise_of_fold** — the envelope's hypothesis "the keys of the response
    object are distinct ignoring letter case" implies that no two members address the same field. -/
theorem struct_decode_is_memberwise_of_fold (decInto : GoVal → GoTy → Json → Option GoVal) (dec : GoTy → Json → Option GoVal)
    (zero : GoTy → GoVal) (hzero : ∀ ty j, decInto (zero ty) ty j = dec ty j)
    (fs : List GoField) (hnd : (fs.map GoField.name).Nodup) (kvs : List JMember) (hk : keysFoldDistinct kvs = true) :
    decodeStructSeq decInto zero fs kvs = decodeStructWith dec zero fs (.obj kvs) :=
  struct_decode_is_memberwise decInto dec zero hzero fs hnd kvs (targetsDistinct_of_fold (nameInj_of_nodup hnd) hk)

/-- **fold_variant_is_captured** — a field with JSON name `jn` (tagged or not) receives *every* member
    whose key equals `jn` ignoring case: a `json:"x"` tag does not keep the key `X` away. -/
theorem fold_variant_is_captured {fs : List GoField} (hinj : FoldInj fs) {f : GoField} (hf : f ∈ fs) {jn key : Name}
    (hj : jsonNameOf f = some jn) (hl : lowerAll jn = lowerAll key) : targetName fs key = some f.name :=
  targetName_of_mem hinj hf hj hl

/-- **case_variants_collide** — hence two members whose keys differ only in letter case and match a
    field address the *same* field: the hypothesis of `struct_decode_is_memberwise` fails, the second
    value is decoded into the field that holds the first (and fails if the types differ). -/
theorem case_variants_collide {fs : List GoField} (hinj : FoldInj fs) {f : GoField} (hf : f ∈ fs) {jn : Name}
    (hj : jsonNameOf f = some jn) (m1 m2 : JMember) (h1 : lowerAll jn = lowerAll m1.key) (h2 : lowerAll jn = lowerAll m2.key) :
    ¬ TargetsDistinct fs [m1, m2] := by
  intro h
  exact h.1 m2 (by simp) f.name (targetName_of_mem hinj hf hj h1) (targetName_of_mem hinj hf hj h2)

/-! ### (3) nullability -/

def isPtr : GoTy → Bool
  | .ptr _ => true
  | _ => false

def isNilable : GoTy → Bool
  | .ptr _ | .slice _ => true
  | _ => false

/-- The Go type `ty` has the null shape of the GraphQL type `t` (with `nn`: a NonNull wrapper was just
    removed): list ↦ slice of the item's shape; nullable named type ↦ pointer; non-null named type ↦
    neither pointer nor slice. -/
def nullShape : TypeRef → Bool → GoTy → Bool
  | .nonNull t, _, ty => nullShape t true ty
  | .list t, _, ty =>
    (match ty with
     | .slice e => nullShape t false e
     | _ => false)
  | .named _, nn, ty => if nn then !isNilable ty else isPtr ty

/-- **field_type_null_shape** — for every GraphQL field type `ft` (any nesting of lists and NonNull),
    the Go type `generateType` builds for it — `wrapSlices depth (ptrUnless nonNull base)` with
    `(depth, _, nonNull) = shape ft` and `base` the bare type of the named type (a scalar, an enum
    name, a struct, a `sel…` name: never a pointer or slice, `gen_base_not_nilable`) — has the null
    shape of `ft`: every nullable position (a list at any level, a nullable item, a nullable named
    type) is a slice or a pointer, and every non-null named position is neither. -/
theorem field_type_null_shape (base : GoTy) (hb : isNilable base = false) : ∀ (ft : TypeRef) (nn : Bool),
    nullShape ft nn (wrapSlices (shape ft nn).1 (ptrUnless (shape ft nn).2.2 base)) = true := by
  intro ft
  induction ft with
  | named n =>
    intro nn
    cases nn with
    | true => simp [shape, wrapSlices, ptrUnless, nullShape, hb]
    | false => simp [shape, wrapSlices, ptrUnless, nullShape, isPtr]
  | list t ih =>
    intro nn
    simp only [shape, wrapSlices, nullShape]
    exact ih false
  | nonNull t ih =>
    intro nn
    simp only [shape, nullShape]
    exact ih true

/-- **gen_base_not_nilable** — what `generateType` returns for a named type that is a scalar, an enum
    or a composite type is `ptrUnless nonNull base` with `base` neither a pointer nor a slice: the
    pointer is there exactly when the position is nullable. -/
theorem gen_base_not_nilable {S : Schema} {n : Name} {nn : Bool} {tn : Option Name} {st st' : St} {ty : GoTy}
    {walk : TypeDef → St → Except Err (Fields × Conds × St)} {td : TypeDef}
    (hl : S.lookup n = some td) (hk : isLeafKind td = true ∨ isComposite td = true)
    (h : genAt S n nn tn st walk = .ok (ty, st')) :
    ∃ base, ty = ptrUnless nn base ∧ isNilable base = false := by
  rcases hk with hk | hk
  · cases td with
    | scalar nm =>
      rw [genAt_scalar hl] at h
      injection h with h; injection h with h1 _
      refine ⟨scalarTy nm, h1.symm, ?_⟩
      unfold scalarTy
      repeat (first | split | rfl)
    | enum nm vs =>
      rw [genAt_enum hl] at h
      injection h with h; injection h with h1 _
      exact ⟨_, h1.symm, rfl⟩
    | object a b c => simp [isLeafKind] at hk
    | iface a b => simp [isLeafKind] at hk
    | union a b => simp [isLeafKind] at hk
    | input a => simp [isLeafKind] at hk
  · rw [genAt_composite hl hk] at h
    cases hw : walk td st with
    | error e => simp [hw] at h
    | ok r =>
      obtain ⟨f, c, s1⟩ := r
      simp only [hw] at h
      by_cases hempty : c.isEmpty = true
      · simp only [hempty, if_true] at h
        injection h with h; injection h with h1 _
        exact ⟨_, h1.symm, rfl⟩
      · simp only [hempty, Bool.false_eq_true, if_false] at h
        injection h with h; injection h with h1 _
        exact ⟨_, h1.symm, rfl⟩

theorem mem_fields_set (fs : Fields) (e : FieldEntry) : e ∈ fs.set e := by
  unfold Fields.set
  split
  · rename_i h
    obtain ⟨x, hx, hk⟩ := List.any_eq_true.mp h
    exact List.mem_map.mpr ⟨x, hx, by simp [hk]⟩
  · simp

/-- **gen_field_null_shape** — the end-to-end form: whenever the loop body of `generateType`
    (`genSel`) succeeds on a field selection `alias: name {subs}` of a type `td` that declares `name`
    with type `ftype` (a built-in scalar, an enum or a composite type underneath), the entry it records
    for the response key has the null shape of `ftype`: pointers exactly at the nullable named
    positions, slices at the list levels. -/
theorem gen_field_null_shape {S : Schema} {ft : List (Name × Name)} {td : TypeDef} {tbl : HolderTable} {hasTn : Bool}
    {alias : Option Name} {name : Name} {subs : List Sel} {fields fields' : Fields} {conds conds' : Conds} {st st' : St}
    {ftype : TypeRef} {btd : TypeDef}
    (hname : name ≠ n_typename) (hun : td.isUnion = false) (hft : fieldTypeOf td name = some ftype)
    (hl : S.lookup (shape ftype false).2.1 = some btd) (hk : isLeafKind btd = true ∨ isComposite btd = true)
    (h : genSel S ft td tbl hasTn (.field alias name subs) fields conds st = .ok (fields', conds', st')) :
    ∃ e ∈ fields', e.key = alias.getD name ∧ e.dash = false ∧ nullShape ftype false e.ty = true := by
  unfold genSel at h
  have hne : (name == n_typename) = false := by simpa using hname
  simp only [hne, Bool.false_eq_true, if_false] at h
  cases td with
  | union a b => simp [TypeDef.isUnion] at hun
  | scalar a => simp [fieldTypeOf] at hft
  | enum a b => simp [fieldTypeOf] at hft
  | input a => simp [fieldTypeOf] at hft
  | object a b c =>
    simp only [hft] at h
    split at h
    · cases h
    · rename_i gen st2 hg
      injection h with h
      injection h with h1 _
      obtain ⟨base, hb1, hb2⟩ := gen_base_not_nilable hl hk hg
      refine ⟨_, h1 ▸ mem_fields_set _ _, rfl, rfl, ?_⟩
      simp only [hb1]
      exact field_type_null_shape base hb2 ftype false
  | iface a b =>
    simp only [hft] at h
    split at h
    · cases h
    · rename_i gen st2 hg
      injection h with h
      injection h with h1 _
      obtain ⟨base, hb1, hb2⟩ := gen_base_not_nilable hl hk hg
      refine ⟨_, h1 ▸ mem_fields_set _ _, rfl, rfl, ?_⟩
      simp only [hb1]
      exact field_type_null_shape base hb2 ftype false

/-- **null_decodes_at_nilable** — `null` at a pointer or slice position decodes without error to nil,
    and nil holds exactly the leaf `null`. -/
theorem null_decodes_at_nilable (env : List Decl) (ty : GoTy) (h : isNilable ty = true) :
    Decodes env ty .null .nil ∧ leavesV .nil = [([], .null)] := by
  refine ⟨?_, rfl⟩
  cases ty with
  | ptr t => exact Decodes.ptr_null env t
  | slice t => exact Decodes.slice_null env t
  | bool => simp [isNilable] at h
  | int => simp [isNilable] at h
  | float64 => simp [isNilable] at h
  | string => simp [isNilable] at h
  | any => simp [isNilable] at h
  | named n => simp [isNilable] at h
  | struct fs => simp [isNilable] at h

/-- Where the response-shape typing of the specification admits `null`: at every list level, and at the
    named position exactly when it is nullable. -/
def nullsOK (nonNull : Bool) : Nat → Json → Bool
  | 0, j => !(nonNull && j.isNull)
  | _ + 1, .null => true
  | d + 1, .arr xs => xs.all (nullsOK nonNull d)
  | _ + 1, _ => false

theorem listLeaves_all {f : Json → Option (List LeafAt)} {P : Json → Bool} (hf : ∀ j L, f j = some L → P j = true) :
    ∀ (xs : List Json) (i : Nat) (L : List LeafAt), listLeaves f i xs = some L → xs.all P = true := by
  intro xs
  induction xs with
  | nil => intro _ _ _; rfl
  | cons x rest ih =>
    intro i L h
    unfold listLeaves at h
    cases h1 : f x with
    | none => simp [h1] at h
    | some a =>
      cases h2 : listLeaves f (i + 1) rest with
      | none => simp [h1, h2] at h
      | some b =>
        simp only [List.all_cons, Bool.and_eq_true]
        exact ⟨hf x a h1, ih (i + 1) b h2⟩

/-- **conforming_nulls_only_where_nullable** — a value that conforms to a field's type in the
    specification (`wrapLeaves … = some L`, the typing `opLeaves` applies at every field of the
    response) has `null` only where the type allows it; in particular (`d = 0`, `nonNull`) a conforming
    response never has `null` at a non-null named position. -/
theorem conforming_nulls_only_where_nullable (base : Json → Option (List LeafAt)) (nonNull : Bool) :
    ∀ (d : Nat) (j : Json) (L : List LeafAt), wrapLeaves base nonNull d j = some L → nullsOK nonNull d j = true := by
  intro d
  induction d with
  | zero =>
    intro j L h
    cases j <;> cases nonNull <;> simp_all [wrapLeaves, nullsOK, Json.isNull]
  | succ d ih =>
    intro j L h
    cases j with
    | null => rfl
    | arr xs =>
      simp only [wrapLeaves] at h
      simp only [nullsOK]
      by_cases he : xs.isEmpty = true
      · cases xs with
        | nil => rfl
        | cons a as => simp at he
      · simp only [he, Bool.false_eq_true, if_false] at h
        exact listLeaves_all (fun j L => ih j L) xs 0 L h
    | bool b => simp [wrapLeaves] at h
    | num i t => simp [wrapLeaves] at h
    | str s => simp [wrapLeaves] at h
    | obj kvs => simp [wrapLeaves] at h

/-- **null_at_non_pointer_is_silent** — why the previous theorem matters: encoding/json does not
    reject `null` at a non-pointer position, it leaves the zero value — the server's `null` would be
    read as `0` / `""` / `false`. (The generator emits non-pointers only at non-null positions, where
    a conforming response has no `null`.) -/
theorem null_at_non_pointer_is_silent (env : List Decl) :
    Decodes env .int .null (.int n_zero) ∧ Decodes env .string .null (.str []) ∧
    Decodes env .bool .null (.bool false) ∧ Decodes env .float64 .null (.float n_zero) :=
  ⟨⟨1, by simp [decode]⟩, ⟨1, by simp [decode]⟩, ⟨1, by simp [decode]⟩, ⟨1, by simp [decode]⟩⟩

/-! ### The counterexample: keys differing only in case that meet in one response object -/

namespace CaseExample

def Q : Name := [81]
def Node : Name := [78, 111, 100, 101]
def Alpha : Name := [65, 108, 112, 104, 97]
def Beta : Name := [66, 101, 116, 97]
def n : Name := [110]
def x : Name := [120]
def X : Name := [88]
def c : Name := [99]

def S : Schema :=
  { types := [ .object Q [(n, .named Node)] [],
               .iface Node [(x, .named n_Int)],
               .object Alpha [(x, .named n_Int), (c, .named n_String)] [Node],
               .object Beta [(x, .named n_Int), (c, .named n_String)] [Node],
               .scalar n_Int, .scalar n_String ],
    query := Q, mutation := none, subscription := none }

/-- `query Q { n { __typename ... on Node { x } ... on Alpha { X: c } } }` -/
def overlapping : Doc := { valid := true, defs := [.op .query (some Q)
  [.field none n [.field none n_typename [], .inline (some Node) [.field none x []], .inline (some Alpha) [.field (some X) c []]]]] }

/-- `{"n": {"__typename": "Alpha", "x": 1, "X": "s"}}` — the executor's response for an Alpha. -/
def dataAlpha : Json := .obj [.mk n (.obj [.mk n_typename (.str Alpha), .mk x (.num true [49]), .mk X (.str [115])])]

/-- `{"n": {"__typename": "Beta", "x": 1}}` — for a Beta only the interface fragment applies. -/
def dataBeta : Json := .obj [.mk n (.obj [.mk n_typename (.str Beta), .mk x (.num true [49])])]

example : dataAlpha.keysOK = false := by decide
example : dataBeta.keysOK = true := by decide

/-- The output is well-formed (it compiles) … -/
example : (match generate S [overlapping] with
    | .ok out => declsWF out.decls
    | .error _ => false) = true := by decide

/-- … decodes the Beta response … -/
example : (match generate S [overlapping] with
    | .ok out => (decode out.decls 12 (.named (Q ++ n_Data)) dataBeta).isSome
    | .error _ => false) = true := by decide

/-- … and fails on the Alpha response: the holder of `... on Node` has a field `X *int` that captures
    the member `"X": "s"` of the sibling fragment. -/
example : (match generate S [overlapping] with
    | .ok out => (decode out.decls 12 (.named (Q ++ n_Data)) dataAlpha).isNone
    | .error _ => false) = true := by decide

/-- With disjoint conditions (`... on Beta { x } ... on Alpha { X: c }`) the two keys never meet in
    one object; every response has keys distinct ignoring case and `decode_preserves_leaves` applies. -/
def disjoint : Doc := { valid := true, defs := [.op .query (some Q)
  [.field none n [.field none n_typename [], .inline (some Beta) [.field none x []], .inline (some Alpha) [.field (some X) c []]]]] }

def dataAlpha2 : Json := .obj [.mk n (.obj [.mk n_typename (.str Alpha), .mk X (.str [115])])]

example : dataAlpha2.keysOK = true := by decide
example : ((normalizeDoc S disjoint).defs.all (defOK S (fragTypesOf (normalizeDoc S disjoint).defs))) = true := by decide
example : (match disjoint.defs with
    | [.op _ _ sels] => opLeaves S (fragDefsOf disjoint.defs) 0 Q sels dataAlpha2
    | _ => none) = some [([.key n, .key n_typename], .str Alpha), ([.key n, .key x], .str [115])] := by decide

end CaseExample

end ApiFu.C20
