/-
  C20 — when are the generated identifiers distinct? `"sel" + typeName + strconv.Itoa(counter)` is
  injective in the counter provided no type name ends in a digit (it is not otherwise: F-20g).
-/
import ApiFu.C20.Model

namespace ApiFu.C20

def isDigit (c : Nat) : Bool := 48 ≤ c && c ≤ 57

/-! ### `natDigits` yields digits and is injective -/

theorem digitsAux_append : ∀ (fuel n : Nat) (acc : List Nat), digitsAux fuel n acc = digitsAux fuel n [] ++ acc := by
  intro fuel
  induction fuel with
  | zero => intro n acc; simp [digitsAux]
  | succ f ih =>
    intro n acc
    unfold digitsAux
    split
    · simp
    · rw [ih (n / 10) ((48 + n % 10) :: acc), ih (n / 10) [48 + n % 10]]
      simp

theorem digitsAux_step (f n : Nat) (h : ¬ n < 10) :
    digitsAux (f + 1) n [] = digitsAux f (n / 10) [] ++ [48 + n % 10] := by
  rw [digitsAux]
  simp only [h, if_false]
  exact digitsAux_append f (n / 10) [48 + n % 10]

theorem digitsAux_small (f n : Nat) (h : n < 10) : digitsAux (f + 1) n [] = [48 + n] := by
  rw [digitsAux]
  simp [h]

theorem digitsAux_all : ∀ (f n : Nat), ∀ c ∈ digitsAux f n [], isDigit c = true := by
  intro f
  induction f with
  | zero => intro n c hc; simp [digitsAux] at hc
  | succ f ih =>
    intro n c hc
    by_cases h : n < 10
    · rw [digitsAux_small f n h] at hc
      simp at hc
      subst hc
      simp [isDigit]; omega
    · rw [digitsAux_step f n h] at hc
      rcases List.mem_append.mp hc with hc | hc
      · exact ih _ c hc
      · simp at hc
        subst hc
        simp [isDigit]; omega

theorem digitsAux_ne_nil (f n : Nat) : digitsAux (f + 1) n [] ≠ [] := by
  by_cases h : n < 10
  · rw [digitsAux_small f n h]; simp
  · rw [digitsAux_step f n h]; simp

/-- With enough fuel the digits do not depend on the fuel. -/
theorem digitsAux_fuel : ∀ (f n : Nat), n < f → ∀ f', n < f' → digitsAux f n [] = digitsAux f' n [] := by
  intro f
  induction f with
  | zero => intro n h; omega
  | succ f ih =>
    intro n hn f' hn'
    cases f' with
    | zero => omega
    | succ f' =>
      by_cases h : n < 10
      · rw [digitsAux_small f n h, digitsAux_small f' n h]
      · rw [digitsAux_step f n h, digitsAux_step f' n h, ih (n / 10) (by omega) f' (by omega)]

theorem digitsAux_inj : ∀ (f n m : Nat), n < f → m < f → digitsAux f n [] = digitsAux f m [] → n = m := by
  intro f
  induction f with
  | zero => intro n m h; omega
  | succ f ih =>
    intro n m hn hm heq
    by_cases h1 : n < 10
    · by_cases h2 : m < 10
      · rw [digitsAux_small f n h1, digitsAux_small f m h2] at heq
        simp at heq; omega
      · rw [digitsAux_small f n h1, digitsAux_step f m h2] at heq
        exfalso
        have hf : f = (f - 1) + 1 := by omega
        have hne := digitsAux_ne_nil (f - 1) (m / 10)
        rw [← hf] at hne
        have hl := congrArg List.length heq
        simp at hl
        cases hd : digitsAux f (m / 10) [] with
        | nil => exact hne hd
        | cons a as => simp [hd] at hl
    · by_cases h2 : m < 10
      · rw [digitsAux_step f n h1, digitsAux_small f m h2] at heq
        exfalso
        have hf : f = (f - 1) + 1 := by omega
        have hne := digitsAux_ne_nil (f - 1) (n / 10)
        rw [← hf] at hne
        have hl := congrArg List.length heq
        simp at hl
        cases hd : digitsAux f (n / 10) [] with
        | nil => exact hne hd
        | cons a as => simp [hd] at hl
      · rw [digitsAux_step f n h1, digitsAux_step f m h2] at heq
        have hlen : (digitsAux f (n / 10) []).length = (digitsAux f (m / 10) []).length := by
          have hl := congrArg List.length heq
          simpa using hl
        obtain ⟨h3, h4⟩ := List.append_inj heq hlen
        have := ih (n / 10) (m / 10) (by omega) (by omega) h3
        simp at h4
        omega

theorem natDigits_inj {n m : Nat} (h : natDigits n = natDigits m) : n = m := by
  unfold natDigits at h
  rw [digitsAux_fuel (n + 1) n (by omega) (max n m + 1) (by omega),
      digitsAux_fuel (m + 1) m (by omega) (max n m + 1) (by omega)] at h
  exact digitsAux_inj _ n m (by omega) (by omega) h

theorem natDigits_all (n : Nat) : ∀ c ∈ natDigits n, isDigit c = true := digitsAux_all _ n

/-! ### Splitting off the digits at the end -/

/-- The name is empty or does not end in a digit. -/
def noDigitEnd (n : Name) : Bool :=
  match n.reverse with
  | [] => true
  | c :: _ => !isDigit c

theorem digits_prefix_unique : ∀ (a b x y : List Nat), (∀ c ∈ a, isDigit c = true) → (∀ c ∈ b, isDigit c = true) →
    (∀ c r, x = c :: r → isDigit c = false) → (∀ c r, y = c :: r → isDigit c = false) →
    a ++ x = b ++ y → a = b := by
  intro a
  induction a with
  | nil =>
    intro b x y _ hb hx _ h
    cases b with
    | nil => rfl
    | cons c b' =>
      simp at h
      have := hx c (b' ++ y) h
      rw [hb c List.mem_cons_self] at this
      cases this
  | cons c a' ih =>
    intro b x y ha hb hx hy h
    cases b with
    | nil =>
      simp at h
      have := hy c (a' ++ x) h.symm
      rw [ha c List.mem_cons_self] at this
      cases this
    | cons c' b' =>
      simp at h
      obtain ⟨rfl, h⟩ := h
      rw [ih b' x y (fun d hd => ha d (List.mem_cons_of_mem _ hd)) (fun d hd => hb d (List.mem_cons_of_mem _ hd)) hx hy h]

/-- `T ++ itoa(k) = T' ++ itoa(k')` with `T`, `T'` not ending in a digit forces `k = k'`. -/
theorem digit_suffix_inj {T T' : Name} {k k' : Nat} (hT : noDigitEnd T = true) (hT' : noDigitEnd T' = true)
    (h : T ++ natDigits k = T' ++ natDigits k') : k = k' := by
  have hr := congrArg List.reverse h
  simp only [List.reverse_append] at hr
  have hx : ∀ c r, T.reverse = c :: r → isDigit c = false := by
    intro c r hc
    unfold noDigitEnd at hT
    rw [hc] at hT
    simpa using hT
  have hy : ∀ c r, T'.reverse = c :: r → isDigit c = false := by
    intro c r hc
    unfold noDigitEnd at hT'
    rw [hc] at hT'
    simpa using hT'
  have := digits_prefix_unique _ _ _ _
    (fun c hc => natDigits_all k c (List.mem_reverse.mp hc))
    (fun c hc => natDigits_all k' c (List.mem_reverse.mp hc)) hx hy hr
  exact natDigits_inj (by have := congrArg List.reverse this; simpa using this)

/-- Identifiers of the form `sel…`. -/
def startsWithSel : Name → Bool
  | 115 :: 101 :: 108 :: _ => true
  | _ => false

theorem startsWithSel_sel (r : Name) : startsWithSel (n_sel ++ r) = true := rfl

theorem sel_name_inj {T T' : Name} {k k' : Nat} (hT : noDigitEnd T = true) (hT' : noDigitEnd T' = true)
    (h : n_sel ++ T ++ natDigits k = n_sel ++ T' ++ natDigits k') : k = k' := by
  rw [List.append_assoc, List.append_assoc] at h
  exact digit_suffix_inj hT hT' (List.append_cancel_left h)

end ApiFu.C20
