/-
  C20 — when are the generated identifiers distinct? `"sel" + typeName + strconv.Itoa(counter)` is
  injective in the counter provided no type name ends in a digit (it is not otherwise: F-20g).
-/
import ApiFu.C20.Model

namespace ApiFu.C20

def isDigit (c : Nat) : Bool := 48 ≤ c && c ≤ 57

/-! ### `natDigits` yields digits and is injective -/

theorem digitsAux_append : ∀ (fuel n : Nat) (acc : List Nat), digitsAux fuel n acc = digitsAux fuel n [] ++ acc := by
  intro fuel
  induction fuel with
  | zero => intro n acc; simp [digitsAux]
  | succ f ih =>
    intro n acc
    unfold digitsAux
    split
    · simp
    · rw [ih (n / 10) ((48 + n % 10) :: acc), ih (n / 10) [48 + n % 10]]
      simp

theorem digitsAux_step (f n : Nat) (h : ¬ n < 10) :
    digitsAux (f + 1) n [] = digitsAux f (n / 10) [] ++ [48 + n % 10] := by
  rw [digitsAux]
  simp only [h, if_false]
  exact digitsAux_append f (n / 10) [48 + n % 10]

theorem digitsAux_small (f n : Nat) (h : n < 10) : digitsAux (f + 1) n [] = [48 + n] := by
  rw [digitsAux]
  simp [h]

theorem digitsAux_all : ∀ (f n : Nat), ∀ c ∈ digitsAux f n [], isDigit c = true := by
  intro f
  induction f with
  | zero => intro n c hc; simp [digitsAux] at hc
  | succ f ih =>
    intro n c hc
    by_cases h : n < 10
    · rw [digitsAux_small f n h] at hc
      simp at hc
      subst hc
      simp [isDigit]; omega
    · rw [digitsAux_step f n h] at hc
      rcases List.mem_append.mp hc with hc | hc
      · exact ih _ c hc
      · simp at hc
        subst hc
        simp [isDigit]; omega

theorem digitsAux_ne_nil (f n : Nat) : digitsAux (f + 1) n [] ≠ [] := by
  by_cases h : n < 10
  · rw [digitsAux_small f n h]; simp
  · rw [digitsAux_step f n h]; simp

/-- With enough fuel the digits do not depend on the fuel. -/
theorem digitsAux_fuel : ∀ (f n : Nat), n < f → ∀ f', n < f' → digitsAux f n [] = digitsAux f' n [] := by
  intro f
  induction f with
  | zero => intro n h; omega
  | succ f ih =>
    intro n hn f' hn'
    cases f' with
    | zero => omega
    | succ f' =>
      by_cases h : n < 10
      · rw [digitsAux_small f n h, digitsAux_small f' n h]
      · rw [digitsAux_step f n h, digitsAux_step f' n h, ih (n / 10) (by omega) f' (by omega)]

theorem digitsAux_inj : ∀ (f n m : Nat), n < f → m < f → digitsAux f n [] = digitsAux f m [] → n = m := by
  intro f
  induction f with
  | zero => intro n m h; omega
  | succ f ih =>
    intro n m hn hm heq
    by_cases h1 : n < 10
    · by_cases h2 : m < 10
      · rw [digitsAux_small f n h1, digitsAux_small f m h2] at heq
        simp at heq; omega
      · rw [digitsAux_small f n h1, digitsAux_step f m h2] at heq
        exfalso
        have hf : f = (f - 1) + 1 := by omega
        have hne := digitsAux_ne_nil (f - 1) (m / 10)
        rw [← hf] at hne
        have hl := congrArg List.length heq
        simp at hl
        cases hd : digitsAux f (m / 10) [] with
        | nil => exact hne hd
        | cons a as => simp [hd] at hl
    · by_cases h2 : m < 10
      · rw [digitsAux_step f n h1, digitsAux_small f m h2] at heq
        exfalso
        have hf : f = (f - 1) + 1 := by omega
        have hne := digitsAux_ne_nil (f - 1) (n / 10)
        rw [← hf] at hne
        have hl := congrArg List.length heq
        simp at hl
        cases hd : digitsAux f (n / 10) [] with
        | nil => exact hne hd
        | cons a as => simp [hd] at hl
      · rw [digitsAux_step f n h1, digitsAux_step f m h2] at heq
        have hlen : (digitsAux f (n / 10) []).length = (digitsAux f (m / 10) []).length := by
          have hl := congrArg List.length heq
          simpa using hl
        obtain ⟨h3, h4⟩ := List.append_inj heq hlen
        have := ih (n / 10) (m / 10) (by omega) (by omega) h3
        simp at h4
        omega

theorem natDigits_inj {n m : Nat} (h : natDigits n = natDigits m) : n = m := by
  unfold natDigits at h
  rw [digitsAux_fuel (n + 1) n (by omega) (max n m + 1) (by omega),
      digitsAux_fuel (m + 1) m (by omega) (max n m + 1) (by omega)] at h
  exact digitsAux_inj _ n m (by omega) (by omega) h

theorem natDigits_all (n : Nat) : ∀ c ∈ natDigits n, isDigit c = true := digitsAux_all _ n

/-! ### Splitting off the digits at the end -/

/-- The name is empty or does not end in a digit. -/
def noDigitEnd (n : Name) : Bool :=
  match n.reverse with
  | [] => true
  | c :: _ => !isDigit c

theorem digits_prefix_unique : ∀ (a b x y : List Nat), (∀ c ∈ a, isDigit c = true) → (∀ c ∈ b, isDigit c = true) →
    (∀ c r, x = c :: r → isDigit c = false) → (∀ c r, y = c :: r → isDigit c = false) →
    a ++ x = b ++ y → a = b := by
  intro a
  induction a with
  | nil =>
    intro b x y _ hb hx _ h
    cases b with
    | nil => rfl
    | cons c b' =>
      simp at h
      have := hx c (b' ++ y) h
      rw [hb c List.mem_cons_self] at this
      cases this
  | cons c a' ih =>
    intro b x y ha hb hx hy h
    cases b with
    | nil =>
      simp at h
      have := hy c (a' ++ x) h.symm
      rw [ha c List.mem_cons_self] at this
      cases this
    | cons c' b' =>
      simp at h
      obtain ⟨rfl, h⟩ := h
      rw [ih b' x y (fun d hd => ha d (List.mem_cons_of_mem _ hd)) (fun d hd => hb d (List.mem_cons_of_mem _ hd)) hx hy h]

/-- `T ++ itoa(k) = T' ++ itoa(k')` with `T`, `T'` not ending in a digit forces `k = k'`. -/
theorem digit_suffix_inj {T T' : Name} {k k' : Nat} (hT : noDigitEnd T = true) (hT' : noDigitEnd T' = true)
    (h : T ++ natDigits k = T' ++ natDigits k') : k = k' := by
  have hr := congrArg List.reverse h
  simp only [List.reverse_append] at hr
  have hx : ∀ c r, T.reverse = c :: r → isDigit c = false := by
    intro c r hc
    unfold noDigitEnd at hT
    rw [hc] at hT
    simpa using hT
  have hy : ∀ c r, T'.reverse = c :: r → isDigit c = false := by
    intro c r hc
    unfold noDigitEnd at hT'
    rw [hc] at hT'
    simpa using hT'
  have := digits_prefix_unique _ _ _ _
    (fun c hc => natDigits_all k c (List.mem_reverse.mp hc))
    (fun c hc => natDigits_all k' c (List.mem_reverse.mp hc)) hx hy hr
  exact natDigits_inj (by have := congrArg List.reverse this; simpa using this)

/-- Identifiers of the form `sel…`. -/
def startsWithSel : Name → Bool
  | 115 :: 101 :: 108 :: _ => true
  | _ => false

theorem startsWithSel_sel (r : Name) : startsWithSel (n_sel ++ r) = true := rfl

/-- `T ++ "_" ++ itoa(k)` determines `k` (and `T`), whatever the type names are: the separator is not
    a digit, so the digits at the end are exactly the counter (fix 04; without the separator this
    fails for type names ending in a digit — finding F-20g). -/
theorem sep_suffix_inj {T T' : Name} {k k' : Nat}
    (h : T ++ [95] ++ natDigits k = T' ++ [95] ++ natDigits k') : k = k' := by
  have hr := congrArg List.reverse h
  simp only [List.reverse_append, List.reverse_cons, List.reverse_nil, List.nil_append, List.append_assoc,
    List.singleton_append] at hr
  have := digits_prefix_unique _ _ _ _
    (fun c hc => natDigits_all k c (List.mem_reverse.mp hc))
    (fun c hc => natDigits_all k' c (List.mem_reverse.mp hc))
    (fun c r hc => by injection hc with h1 _; subst h1; decide)
    (fun c r hc => by injection hc with h1 _; subst h1; decide) hr
  exact natDigits_inj (by have := congrArg List.reverse this; simpa using this)

theorem sel_name_inj {T T' : Name} {k k' : Nat}
    (h : n_sel ++ T ++ [95] ++ natDigits k = n_sel ++ T' ++ [95] ++ natDigits k') : k = k' := by
  rw [List.append_assoc, List.append_assoc, List.append_assoc, List.append_assoc] at h
  have h' := List.append_cancel_left h
  rw [← List.append_assoc, ← List.append_assoc] at h'
  exact sep_suffix_inj h'

/-! ### Enum constants (fix 05) are pairwise distinct -/

theorem toLower_ne_95 {c : Nat} (h : c ≠ 95) : toLower c ≠ 95 := by
  unfold toLower; split <;> omega

theorem toUpper_ne_95 {c : Nat} (h : c ≠ 95) : toUpper c ≠ 95 := by
  unfold toUpper; split <;> omega

theorem splitOn_no_sep (sep : Nat) : ∀ (n : Name), ∀ p ∈ splitOn sep n, ∀ c ∈ p, c ≠ sep := by
  intro n
  induction n with
  | nil => intro p hp c hc; simp [splitOn] at hp; subst hp; cases hc
  | cons a as ih =>
    intro p hp c hc
    unfold splitOn at hp
    by_cases ha : a = sep
    · simp [ha] at hp
      rcases hp with rfl | hp
      · cases hc
      · exact ih p hp c hc
    · have hne : (a == sep) = false := by simpa using ha
      simp only [hne, Bool.false_eq_true, if_false] at hp
      cases hs : splitOn sep as with
      | nil =>
        simp [hs] at hp
        subst hp
        simp at hc
        subst hc
        exact ha
      | cons q qs =>
        simp [hs] at hp
        rcases hp with rfl | hp
        · rcases List.mem_cons.mp hc with rfl | hc
          · exact ha
          · exact ih q (by rw [hs]; exact List.mem_cons_self) c hc
        · exact ih p (by rw [hs]; exact List.mem_cons_of_mem _ hp) c hc

/-- The camel-cased part of a constant name contains no underscore. -/
theorem camel_no_underscore (v : Name) :
    ∀ c ∈ ((splitOn 95 v).map (fun p => title (lowerAll p))).flatten, c ≠ 95 := by
  intro c hc
  obtain ⟨l, hl, hcl⟩ := List.mem_flatten.mp hc
  obtain ⟨p, hp, rfl⟩ := List.mem_map.mp hl
  have hno := splitOn_no_sep 95 v p hp
  cases p with
  | nil => simp [lowerAll, title] at hcl
  | cons a as =>
    simp only [lowerAll, List.map_cons, title, List.mem_cons] at hcl
    rcases hcl with rfl | hcl
    · exact toUpper_ne_95 (toLower_ne_95 (hno a List.mem_cons_self))
    · obtain ⟨b, hb, rfl⟩ := List.mem_map.mp hcl
      exact toLower_ne_95 (hno b (List.mem_cons_of_mem _ hb))

theorem insertName_perm (n : Name) : ∀ ms : List Name, (insertName n ms).Perm (n :: ms) := by
  intro ms
  induction ms with
  | nil => exact List.Perm.refl _
  | cons m ms ih =>
    unfold insertName
    split
    · exact List.Perm.refl _
    · exact (List.Perm.cons m ih).trans (List.Perm.swap n m ms)

theorem sortNames_perm : ∀ ns : List Name, (sortNames ns).Perm ns := by
  intro ns
  induction ns with
  | nil => exact List.Perm.refl _
  | cons n ns ih =>
    unfold sortNames
    exact (insertName_perm n _).trans (List.Perm.cons n ih)

/-- What the `used` set of `enumConstsAux` contains. -/
def UsedShape (nm : Name) (seen : List Name) (u : Name) : Prop :=
  u = nm ∨ (∃ part, u = nm ++ part ∧ ∀ c ∈ part, c ≠ 95) ∨ (∃ v ∈ seen, u = nm ++ [95] ++ v)

theorem enumConstsAux_nodup (nm : Name) : ∀ (vs seen used : List Name),
    (∀ u ∈ used, UsedShape nm seen u) → (∀ v ∈ vs, v ∉ seen) → vs.Nodup →
    ((enumConstsAux nm vs used).map (fun c => c.1)).Nodup ∧
    ∀ c ∈ (enumConstsAux nm vs used).map (fun c => c.1), c ∉ used := by
  intro vs
  induction vs with
  | nil => intro seen used _ _ _; simp [enumConstsAux]
  | cons v vs ih =>
    intro seen used hused hfresh hnd
    simp only [List.nodup_cons] at hnd
    simp only [enumConstsAux, List.map_cons, List.nodup_cons, List.mem_cons, forall_eq_or_imp]
    -- the chosen name is not in `used` and has one of the shapes
    have hv : v ∉ seen := hfresh v List.mem_cons_self
    have hc' : (if used.contains (constName nm v) then nm ++ [95] ++ v else constName nm v) ∉ used ∧
        UsedShape nm (v :: seen) (if used.contains (constName nm v) then nm ++ [95] ++ v else constName nm v) := by
      by_cases hcon : used.contains (constName nm v) = true
      · simp only [hcon, if_true]
        refine ⟨?_, Or.inr (Or.inr ⟨v, List.mem_cons_self, rfl⟩)⟩
        intro hmem
        rcases hused _ hmem with h | ⟨part, h, hp⟩ | ⟨v', hv', h⟩
        · have := congrArg List.length h
          simp at this
        · rw [List.append_assoc] at h
          have := List.append_cancel_left h
          exact hp 95 (by rw [← this]; simp) rfl
        · rw [List.append_assoc, List.append_assoc] at h
          have := List.append_cancel_left h
          simp at this
          exact hv (this ▸ hv')
      · simp only [hcon, Bool.false_eq_true, if_false]
        refine ⟨by simpa using hcon, Or.inr (Or.inl ⟨_, rfl, camel_no_underscore v⟩)⟩
    obtain ⟨hnotin, hshape⟩ := hc'
    have hused' : ∀ u ∈ (if used.contains (constName nm v) then nm ++ [95] ++ v else constName nm v) :: used,
        UsedShape nm (v :: seen) u := by
      intro u hu
      rcases List.mem_cons.mp hu with rfl | hu
      · exact hshape
      · rcases hused u hu with h | h | ⟨v', hv', h⟩
        · exact Or.inl h
        · exact Or.inr (Or.inl h)
        · exact Or.inr (Or.inr ⟨v', List.mem_cons_of_mem _ hv', h⟩)
    have hfresh' : ∀ w ∈ vs, w ∉ v :: seen := by
      intro w hw hmem
      rcases List.mem_cons.mp hmem with rfl | hmem
      · exact hnd.1 hw
      · exact hfresh w (List.mem_cons_of_mem _ hw) hmem
    obtain ⟨ih1, ih2⟩ := ih (v :: seen) _ hused' hfresh' hnd.2
    refine ⟨⟨?_, ih1⟩, hnotin, ?_⟩
    · intro hmem
      exact ih2 _ hmem List.mem_cons_self
    · intro c hc hcu
      exact ih2 c hc (List.mem_cons_of_mem _ hcu)

/-- The constants generated for an enum with distinct values are pairwise distinct — and distinct
    from the type name. -/
theorem enumConsts_nodup (nm : Name) (vs : List Name) (h : vs.Nodup) :
    ((enumConsts nm vs).map (fun c => c.1)).Nodup :=
  (enumConstsAux_nodup nm (sortNames vs) [] [nm]
    (fun u hu => by simp at hu; exact Or.inl hu) (fun _ _ hm => nomatch hm)
    ((sortNames_perm vs).nodup_iff.mpr h)).1

end ApiFu.C20
