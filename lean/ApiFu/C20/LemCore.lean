/-
  C20 — the core of `decode_preserves_leaves`: definitions of the envelope on selections
  (`setOK`), of what it means for a generated type to be good for a selection set (`LevelGood`),
  and the base cases (scalars, enums).
-/
import ApiFu.C20.LemValue

namespace ApiFu.C20

/-! ### The envelope, on the model's syntax -/

def isFieldSel : Sel → Bool
  | .field _ _ _ => true
  | _ => false

def nodupB : List Name → Bool
  | [] => true
  | x :: xs => !xs.contains x && nodupB xs

theorem nodupB_iff : ∀ l : List Name, nodupB l = true ↔ l.Nodup := by
  intro l
  induction l with
  | nil => simp [nodupB]
  | cons x xs ih => simp [nodupB, ih]

def TypeDef.isUnion : TypeDef → Bool
  | .union _ _ => true
  | _ => false

/-- The identity of a fragment member: kind and fragment / type-condition name (as one name). -/
def fragIdOf (td : TypeDef) : Sel → Option Name
  | .field _ _ _ => none
  | .inline cond _ => some (0 :: cond.getD td.name)
  | .spread f => some (1 :: f)

/-- Within one selection set: the Go names of the *fields* are distinct, no fragment is spread twice
    and no type condition is used by two inline fragments (F-20e), and the response keys are distinct
    ignoring letter case. That the fragment *holders* get names distinct from the fields' and from
    each other needs no assumption since fix 06: `keysNodup_fst` (LemHolders/LemLevel3). -/
def keysNodup (td : TypeDef) (sels : List Sel) : Bool :=
  nodupB (takenOf sels) &&
  nodupB (sels.filterMap (fragIdOf td)) &&
  nodupB ((sels.filter isFieldSel).map fun s => lowerAll (memberKey [] td s))

/-- Built-in scalars and enums: the leaf types of responses inside the envelope. -/
def isLeafKind : TypeDef → Bool
  | .scalar n => n == n_Boolean || n == n_Int || n == n_Float || n == n_String || n == n_ID
  | .enum _ _ => true
  | _ => false

mutual
/-- One selection is inside the envelope (and valid as far as the generator depends on it). -/
def selOK (S : Schema) (ft : List (Name × Name)) (td : TypeDef) : Sel → Bool
  | .field alias name subs =>
    keyOK (alias.getD name) &&
    (name == n_typename ||
      (!td.isUnion &&
        (match fieldTypeOf td name with
         | some ftype =>
           (match S.lookup (shape ftype false).2.1 with
            | some td' => if isComposite td' then membersOK S ft td' subs && keysNodup td' subs else isLeafKind td'
            | none => false)
         | none => true)))
  | .inline cond subs =>
    startsWithLetter (cond.getD td.name) &&
    (!td.isObject || isKnown S td (cond.getD td.name)) &&
    (match S.lookup (cond.getD td.name) with
     | some ctd => isComposite ctd && membersOK S ft ctd subs && keysNodup ctd subs
     | none => true)
  | .spread f => startsWithLetter f && (!td.isObject || isKnown S td (lookupFrag ft f)) && ft.any (fun p => p.1 == f)
def membersOK (S : Schema) (ft : List (Name × Name)) (td : TypeDef) : List Sel → Bool
  | [] => true
  | s :: rest => selOK S ft td s && membersOK S ft td rest
end

/-- A selection set is inside the envelope. -/
def setOK (S : Schema) (ft : List (Name × Name)) (td : TypeDef) (sels : List Sel) : Bool :=
  membersOK S ft td sels && keysNodup td sels

/-- Only the five built-in scalars (the envelope's schemas). -/
def builtinOnly (S : Schema) : Bool :=
  S.types.all fun
    | .scalar n => n == n_Boolean || n == n_Int || n == n_Float || n == n_String || n == n_ID
    | _ => true

/-! ### Declarations -/

def Decl.name : Decl → Name
  | .enum n _ | .sel n _ _ | .typedef n _ _ => n

/-- Every declared identifier is declared once: looking a declaration's name up finds it. -/
def EnvOK (env : List Decl) : Prop := ∀ d ∈ env, lookupDecl env d.name = some d

/-! ### Goodness of generated types -/

/-- The generated base type `tyB` of a selection set on `td` decodes every response object the
    specification admits for it and holds every selected leaf. -/
def LevelGood (S : Schema) (env : List Decl) (frag : Name → Name → List JMember → Option (List LeafAt))
    (td : TypeDef) (sels : List Sel) (tyB : GoTy) : Prop :=
  ∀ T kvs L, ((td.isObject = true ∨ (typenameFieldOf sels).isSome = true) → (possible S td.name).contains T = true) →
    selLeavesSels S frag T td kvs sels = some L →
    keysFoldDistinct kvs = true → keysOKMembers kvs = true →
    ∃ ws, Decodes env tyB (.obj kvs) (.struct ws) ∧ ∀ x ∈ L, x ∈ leavesVFields ws

/-- The base-value part of the specification of a field (the `base` of `selLeavesSel`). -/
def specBase (S : Schema) (frag : Name → Name → List JMember → Option (List LeafAt)) (n : Name) (subs : List Sel) :
    Json → Option (List LeafAt) :=
  match S.lookup n with
  | some ctd =>
    if isComposite ctd then
      fun j =>
        match j with
        | .obj kvs' =>
          (match concreteOf S ctd subs kvs' with
           | some T' => selLeavesSels S frag T' ctd kvs' subs
           | none => none)
        | _ => none
    else scalarLeaves S n
  | none => fun _ => none

theorem selLeavesSel_field (S : Schema) (frag : Name → Name → List JMember → Option (List LeafAt))
    (T : Name) (td : TypeDef) (kvs : List JMember) (alias : Option Name) (name : Name) (subs : List Sel) :
    selLeavesSel S frag T td kvs (.field alias name subs) =
      (match lookupMember kvs (alias.getD name) with
       | none => none
       | some v =>
         if name == n_typename then
           (match v with
            | .str s => if s == T then some [([.key (lowerAll (alias.getD name))], .str s)] else none
            | _ => none)
         else
           match fieldTypeOf td name with
           | none => none
           | some ft =>
             match wrapLeaves (specBase S frag (shape ft false).2.1 subs) (shape ft false).2.2 (shape ft false).1 v with
             | some ls => some (under (.key (lowerAll (alias.getD name))) ls)
             | none => none) := by
  rw [selLeavesSel]
  rfl

/-! ### Base cases: built-in scalars and enums -/

theorem scalar_holds {S : Schema} (env : List Decl) {n nm : Name} (hl : S.lookup n = some (.scalar nm)) :
    ∀ j L, scalarLeaves S n j = some L → Holds env (scalarTy nm) j L := by
  intro j L h
  unfold scalarLeaves at h
  simp only [hl] at h
  unfold scalarTy
  by_cases h1 : nm = n_Boolean
  · subst h1
    simp only [beq_self_eq_true, if_true] at h ⊢
    cases j with
    | bool b => simp at h; subst h; exact ⟨.bool b, Decodes.bool env b, by simp [leavesV]⟩
    | _ => simp at h
  · have h1' : (nm == n_Boolean) = false := by simpa using h1
    simp only [h1', Bool.false_eq_true, if_false] at h ⊢
    by_cases h2 : nm = n_Int
    · subst h2
      simp only [beq_self_eq_true, if_true] at h ⊢
      cases j with
      | num i t =>
        cases i with
        | true => simp at h; subst h; exact ⟨.int t, Decodes.int env t, by simp [leavesV]⟩
        | false => simp at h
      | _ => simp at h
    · have h2' : (nm == n_Int) = false := by simpa using h2
      simp only [h2', Bool.false_eq_true, if_false] at h ⊢
      by_cases h3 : nm = n_Float
      · subst h3
        simp only [beq_self_eq_true, if_true] at h ⊢
        cases j with
        | num i t => simp at h; subst h; exact ⟨.float t, Decodes.float env i t, by simp [leavesV]⟩
        | _ => simp at h
      · have h3' : (nm == n_Float) = false := by simpa using h3
        simp only [h3', Bool.false_eq_true, if_false] at h ⊢
        by_cases h4 : nm = n_String
        · subst h4
          simp only [beq_self_eq_true, Bool.true_or, if_true] at h ⊢
          cases j with
          | str s => simp at h; subst h; exact ⟨.str s, Decodes.string env s, by simp [leavesV]⟩
          | _ => simp at h
        · have h4' : (nm == n_String) = false := by simpa using h4
          simp only [h4', Bool.false_or, Bool.false_eq_true, if_false] at h ⊢
          by_cases h5 : nm = n_ID
          · subst h5
            simp only [beq_self_eq_true, if_true] at h ⊢
            cases j with
            | str s => simp at h; subst h; exact ⟨.str s, Decodes.string env s, by simp [leavesV]⟩
            | _ => simp at h
          · have h5' : (nm == n_ID) = false := by simpa using h5
            simp [h5'] at h

theorem enum_holds {S : Schema} {env : List Decl} {n nm gn : Name} {vs : List Name} {cs : List (Name × Name)}
    (hl : S.lookup n = some (.enum nm vs)) (hd : lookupDecl env gn = some (.enum gn cs)) :
    ∀ j L, scalarLeaves S n j = some L → Holds env (.named gn) j L := by
  intro j L h
  unfold scalarLeaves at h
  simp only [hl] at h
  cases j with
  | str s => simp at h; subst h; exact ⟨.str s, Decodes.enum hd s, by simp [leavesV]⟩
  | _ => simp at h

end ApiFu.C20
