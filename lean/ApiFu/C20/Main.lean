/-
  C20 model driver. One S-expression per line in, one per line out.

    (gen SCHEMA (docs DOC…))                 → (ok true|false DECL…) | (err E…)
    (decode (decls DECL…) "TypeName" JSON)   → (val GOVAL) | none
    (fieldName "k")                          → "K"
    (constName "Enum" "VALUE")               → "EnumValue"
    (goTypeName "int")                       → "int_"
    (env SCHEMA (docs DOC…))                 → (env schemaOK enumValuesOK identsOK defsOKW generated declsWF pkgScopeWF)
                                               the decidable hypotheses of gen_compiles_in_wording and its conclusion, evaluated

  SCHEMA := (schema "Query" MUT SUB TYPE…)   MUT, SUB := none | (some "Name")
  TYPE   := (scalar N) | (enum N (V…)) | (object N ((F T)…) (I…)) | (iface N ((F T)…)) | (union N (M…)) | (input N)
  T      := (n N) | (list T) | (nn T)
  DOC    := (doc true|false DEF…)
  DEF    := (op query|mutation|subscription NAME? (SEL…)) | (frag N COND (SEL…))     NAME? := none | (some N)
  SEL    := (f NAME? N (SEL…)) | (s N) | (i NAME? (SEL…))
  DECL   := (enum N (c CN V)…) | (sel N (FIELD…) (ACT…)) | (typedef N GOTY true|false)
  GOTY   := bool | int | float64 | string | any | (named N) | (ptr GOTY) | (slice GOTY) | (struct FIELD…)
  FIELD  := (fld N GOTY TAG)      TAG := none | dash | (key K)
  ACT    := (u F) | (sw TN (OK…) F)
  JSON   := null | true | false | (num int|float "text") | (str "s") | (arr JSON…) | (obj (m "k" JSON)…)
  GOVAL  := (bool true|false) | (int "t") | (float "t") | (str "s") | nil | (ptr GOVAL) | (slice GOVAL…)
          | (struct (fv N TAG GOVAL)…) | (iface JSON)
-/
import ApiFu.Common.Sexp
import ApiFu.Common.Loop
import ApiFu.C20.Model
import ApiFu.C20.PropsEnvelope

open ApiFu ApiFu.C20

def toName (s : String) : Name := s.toList.map Char.toNat
def ofName (n : Name) : String := String.ofList (n.map Char.ofNat)
def nameS (n : Name) : Sexp := Sexp.atom (ofName n)

def optName? : Sexp → Option (Option Name)
  | .atom "none" => some none
  | .list [.atom "some", .atom n] => some (some (toName n))
  | _ => none

def names? (xs : List Sexp) : Option (List Name) := xs.mapM fun x => x.atom?.map toName

partial def typeRef? : Sexp → Option TypeRef
  | .list [.atom "n", .atom n] => some (.named (toName n))
  | .list [.atom "list", t] => (typeRef? t).map .list
  | .list [.atom "nn", t] => (typeRef? t).map .nonNull
  | _ => none

def fieldDefs? (xs : List Sexp) : Option (List (Name × TypeRef)) :=
  xs.mapM fun
    | .list [.atom f, t] => (typeRef? t).map fun t => (toName f, t)
    | _ => none

def typeDef? : Sexp → Option TypeDef
  | .list [.atom "scalar", .atom n] => some (.scalar (toName n))
  | .list [.atom "input", .atom n] => some (.input (toName n))
  | .list [.atom "enum", .atom n, .list vs] => (names? vs).map (.enum (toName n))
  | .list [.atom "object", .atom n, .list fs, .list is] => do
    let fs ← fieldDefs? fs
    let is ← names? is
    pure (.object (toName n) fs is)
  | .list [.atom "iface", .atom n, .list fs] => (fieldDefs? fs).map (.iface (toName n))
  | .list [.atom "union", .atom n, .list ms] => (names? ms).map (.union (toName n))
  | _ => none

def schema? : Sexp → Option Schema
  | .list (.atom "schema" :: .atom q :: m :: s :: ts) => do
    let m ← optName? m
    let s ← optName? s
    let ts ← ts.mapM typeDef?
    pure { types := ts, query := toName q, mutation := m, subscription := s }
  | _ => none

partial def sel? : Sexp → Option Sel
  | .list [.atom "f", a, .atom n, .list ss] => do
    let a ← optName? a
    let ss ← ss.mapM sel?
    pure (.field a (toName n) ss)
  | .list [.atom "s", .atom n] => some (.spread (toName n))
  | .list [.atom "i", c, .list ss] => do
    let c ← optName? c
    let ss ← ss.mapM sel?
    pure (.inline c ss)
  | _ => none

def def? : Sexp → Option Def
  | .list [.atom "op", .atom k, n, .list ss] => do
    let kind ← match k with
      | "query" => some OpKind.query
      | "mutation" => some OpKind.mutation
      | "subscription" => some OpKind.subscription
      | _ => none
    let n ← optName? n
    let ss ← ss.mapM sel?
    pure (.op kind n ss)
  | .list [.atom "frag", .atom n, .atom c, .list ss] => do
    let ss ← ss.mapM sel?
    pure (.frag (toName n) (toName c) ss)
  | _ => none

def doc? : Sexp → Option Doc
  | .list (.atom "doc" :: .atom v :: ds) => do
    let ds ← ds.mapM def?
    pure { valid := v == "true", defs := ds }
  | _ => none

def tagS : Tag → Sexp
  | .none => .atom "none"
  | .dash => .atom "dash"
  | .key k => Sexp.node "key" [nameS k]

def tag? : Sexp → Option Tag
  | .atom "none" => some .none
  | .atom "dash" => some .dash
  | .list [.atom "key", .atom k] => some (.key (toName k))
  | _ => none

mutual
partial def goTyS : GoTy → Sexp
  | .bool => .atom "bool"
  | .int => .atom "int"
  | .float64 => .atom "float64"
  | .string => .atom "string"
  | .any => .atom "any"
  | .named n => Sexp.node "named" [nameS n]
  | .ptr t => Sexp.node "ptr" [goTyS t]
  | .slice t => Sexp.node "slice" [goTyS t]
  | .struct fs => Sexp.node "struct" (fs.map goFieldS)
partial def goFieldS : GoField → Sexp
  | .mk n t tag => Sexp.node "fld" [nameS n, goTyS t, tagS tag]
end

mutual
partial def goTy? : Sexp → Option GoTy
  | .atom "bool" => some .bool
  | .atom "int" => some .int
  | .atom "float64" => some .float64
  | .atom "string" => some .string
  | .atom "any" => some .any
  | .list [.atom "named", .atom n] => some (.named (toName n))
  | .list [.atom "ptr", t] => (goTy? t).map .ptr
  | .list [.atom "slice", t] => (goTy? t).map .slice
  | .list (.atom "struct" :: fs) => (fs.mapM goField?).map .struct
  | _ => none
partial def goField? : Sexp → Option GoField
  | .list [.atom "fld", .atom n, t, tag] => do
    let t ← goTy? t
    let tag ← tag? tag
    pure (.mk (toName n) t tag)
  | _ => none
end

def actS : Action → Sexp
  | .uncond f => Sexp.node "u" [nameS f]
  | .switch tn oks f => Sexp.node "sw" [nameS tn, .list (oks.map nameS), nameS f]

def act? : Sexp → Option Action
  | .list [.atom "u", .atom f] => some (.uncond (toName f))
  | .list [.atom "sw", .atom tn, .list oks, .atom f] => (names? oks).map fun oks => .switch (toName tn) oks (toName f)
  | _ => none

def declS : Decl → Sexp
  | .enum n cs => Sexp.node "enum" (nameS n :: cs.map fun c => Sexp.node "c" [nameS c.1, nameS c.2])
  | .sel n fs acts => Sexp.node "sel" [nameS n, .list (fs.map goFieldS), .list (acts.map actS)]
  | .typedef n t fwd => Sexp.node "typedef" [nameS n, goTyS t, Sexp.ofBool fwd]

def decl? : Sexp → Option Decl
  | .list (.atom "enum" :: .atom n :: cs) => do
    let cs ← cs.mapM fun
      | .list [.atom "c", .atom a, .atom b] => some (toName a, toName b)
      | _ => none
    pure (.enum (toName n) cs)
  | .list [.atom "sel", .atom n, .list fs, .list acts] => do
    let fs ← fs.mapM goField?
    let acts ← acts.mapM act?
    pure (.sel (toName n) fs acts)
  | .list [.atom "typedef", .atom n, t, .atom fwd] => do
    let t ← goTy? t
    pure (.typedef (toName n) t (fwd == "true"))
  | _ => none

def errS : Err → Sexp
  | .validation => .atom "validation"
  | .typenameSpread => .atom "typename-spread"
  | .typenameInline => .atom "typename-inline"
  | .panic => .atom "panic"

mutual
partial def json? : Sexp → Option Json
  | .atom "null" => some .null
  | .atom "true" => some (.bool true)
  | .atom "false" => some (.bool false)
  | .list [.atom "num", .atom k, .atom t] => some (.num (k == "int") (toName t))
  | .list [.atom "str", .atom s] => some (.str (toName s))
  | .list (.atom "arr" :: xs) => (xs.mapM json?).map .arr
  | .list (.atom "obj" :: ms) => (ms.mapM jmember?).map .obj
  | _ => none
partial def jmember? : Sexp → Option JMember
  | .list [.atom "m", .atom k, v] => (json? v).map (.mk (toName k))
  | _ => none
end

mutual
partial def jsonS : Json → Sexp
  | .null => .atom "null"
  | .bool b => Sexp.ofBool b
  | .num i t => Sexp.node "num" [.atom (if i then "int" else "float"), nameS t]
  | .str s => Sexp.node "str" [nameS s]
  | .arr xs => Sexp.node "arr" (xs.map jsonS)
  | .obj ms => Sexp.node "obj" (ms.map jmemberS)
partial def jmemberS : JMember → Sexp
  | .mk k v => Sexp.node "m" [nameS k, jsonS v]
end

mutual
partial def goValS : GoVal → Sexp
  | .bool b => Sexp.node "bool" [Sexp.ofBool b]
  | .int t => Sexp.node "int" [nameS t]
  | .float t => Sexp.node "float" [nameS t]
  | .str s => Sexp.node "str" [nameS s]
  | .nil => .atom "nil"
  | .ptr v => Sexp.node "ptr" [goValS v]
  | .slice vs => Sexp.node "slice" (vs.map goValS)
  | .struct fs => Sexp.node "struct" (fs.map goValFieldS)
  | .iface j => Sexp.node "iface" [jsonS j]
partial def goValFieldS : GoValField → Sexp
  | .mk n t v => Sexp.node "fv" [nameS n, tagS t, goValS v]
end

def handle (line : String) : String :=
  match Sexp.parse line with
  | some (.list [.atom "gen", s, .list (.atom "docs" :: ds)]) =>
    match schema? s, ds.mapM doc? with
    | some S, some docs =>
      match generate S docs with
      | .ok out => toString (Sexp.node "ok" (Sexp.ofBool out.importsJSON :: out.decls.map declS))
      | .error es => toString (Sexp.node "err" (es.map errS))
    | _, _ => "bad-op"
  | some (.list [.atom "decode", .list (.atom "decls" :: ds), .atom n, j]) =>
    match ds.mapM decl?, json? j with
    | some env, some j =>
      match decode env 100000 (.named (toName n)) j with
      | some v => toString (Sexp.node "val" [goValS v])
      | none => "none"
    | _, _ => "bad-op"
  | some (.list [.atom "env", s, .list (.atom "docs" :: ds)]) =>
    match schema? s, ds.mapM doc? with
    | some S, some docs =>
      let hyp4 := (docs.map (normalizeDoc S)).all fun d => d.defs.all (defOKW S (fragTypesOf d.defs))
      let concl : Bool × Bool × Bool :=
        match generate S docs with
        | .ok out => (true, declsWF out.decls, pkgScopeWF out.decls)
        | .error _ => (false, false, false)
      toString (Sexp.node "env" [Sexp.ofBool (schemaOK S), Sexp.ofBool (enumValuesOK S),
        Sexp.ofBool (identsOK S (docNames docs)), Sexp.ofBool hyp4,
        Sexp.ofBool concl.1, Sexp.ofBool concl.2.1, Sexp.ofBool concl.2.2])
    | _, _ => "bad-op"
  | some (.list [.atom "fieldName", .atom k]) => toString (nameS (fieldName (toName k)))
  | some (.list [.atom "constName", .atom e, .atom v]) => toString (nameS (constName (toName e) (toName v)))
  | some (.list [.atom "goTypeName", .atom n]) => toString (nameS (goTypeName (toName n)))
  | _ => "bad-op"

def main : IO Unit := lineLoopPure handle
