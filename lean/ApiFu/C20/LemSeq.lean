/-
  C20 — encoding/json decodes an object *member by member* (`decode.go: (*decodeState).object`): for
  each member, the struct field is looked up (exact name, else the first field equal ignoring case —
  `targetName`), and the member's value is decoded *into the field's current value*. The model
  (`decodeStructWith`) is field-centric: each field is decoded once, from the last member addressed
  to it, starting from the zero value. This file defines the member-by-member loop (`decodeStructSeq`)
  with what encoding/json does to a field that already holds a value left as an arbitrary parameter
  `decInto` (pointer reuse, merging into existing structs, `null` leaving non-pointers untouched …)
  — only "decoding into a zero value is decoding" is assumed — and shows that both agree whenever no
  two members address the same field, in particular when the object's keys are distinct ignoring case.
-/
import ApiFu.C20.Props

namespace ApiFu.C20

/-! ### mapOpt -/

theorem mapOpt_cons_some {α β : Type} {f : α → Option β} {x : α} {xs : List α} {y : β} {ys : List β}
    (h1 : f x = some y) (h2 : mapOpt f xs = some ys) : mapOpt f (x :: xs) = some (y :: ys) := by
  simp [mapOpt, h1, h2]

theorem mapOpt_cons_eq_some {α β : Type} {f : α → Option β} {x : α} {xs : List α} {r : List β}
    (h : mapOpt f (x :: xs) = some r) : ∃ y ys, f x = some y ∧ mapOpt f xs = some ys ∧ r = y :: ys := by
  unfold mapOpt at h
  cases h1 : f x with
  | none => simp [h1] at h
  | some y =>
    cases h2 : mapOpt f xs with
    | none => simp [h1, h2] at h
    | some ys =>
      simp [h1, h2] at h
      exact ⟨y, ys, rfl, rfl, h.symm⟩

theorem mapOpt_none_of_mem {α β : Type} {f : α → Option β} : ∀ {l : List α} {x : α}, x ∈ l → f x = none →
    mapOpt f l = none := by
  intro l
  induction l with
  | nil => intro x hx; cases hx
  | cons a as ih =>
    intro x hx hf
    rcases List.mem_cons.mp hx with rfl | hx'
    · simp [mapOpt, hf]
    · have := ih hx' hf
      unfold mapOpt
      rw [this]
      cases f a <;> rfl

theorem mapOpt_eq_none {α β : Type} {f : α → Option β} : ∀ {l : List α}, mapOpt f l = none → ∃ x ∈ l, f x = none := by
  intro l
  induction l with
  | nil => intro h; simp [mapOpt] at h
  | cons a as ih =>
    intro h
    cases h1 : f a with
    | none => exact ⟨a, List.mem_cons_self, h1⟩
    | some y =>
      cases h2 : mapOpt f as with
      | none =>
        obtain ⟨x, hx, hf⟩ := ih h2
        exact ⟨x, List.mem_cons_of_mem _ hx, hf⟩
      | some ys => simp [mapOpt, h1, h2] at h

theorem mapOpt_congr {α β : Type} {f g : α → Option β} : ∀ {l : List α}, (∀ x ∈ l, f x = g x) → mapOpt f l = mapOpt g l := by
  intro l
  induction l with
  | nil => intro _; rfl
  | cons a as ih =>
    intro h
    unfold mapOpt
    rw [h a List.mem_cons_self, ih (fun x hx => h x (List.mem_cons_of_mem _ hx))]

theorem mapOpt_mem {α β : Type} {f : α → Option β} : ∀ {l : List α} {r : List β}, mapOpt f l = some r →
    ∀ y ∈ r, ∃ x ∈ l, f x = some y := by
  intro l
  induction l with
  | nil => intro r h y hy; simp [mapOpt] at h; subst h; cases hy
  | cons a as ih =>
    intro r h y hy
    obtain ⟨b, bs, h1, h2, rfl⟩ := mapOpt_cons_eq_some h
    rcases List.mem_cons.mp hy with rfl | hy'
    · exact ⟨a, List.mem_cons_self, h1⟩
    · obtain ⟨x, hx, hf⟩ := ih h2 y hy'
      exact ⟨x, List.mem_cons_of_mem _ hx, hf⟩

theorem mapOpt_comp {α β γ : Type} {h : α → Option β} {g : β → Option γ} : ∀ {l : List α} {l' : List β},
    mapOpt h l = some l' → mapOpt g l' = mapOpt (fun x => (h x).bind g) l := by
  intro l
  induction l with
  | nil => intro l' hl; simp [mapOpt] at hl; subst hl; rfl
  | cons a as ih =>
    intro l' hl
    obtain ⟨b, bs, h1, h2, rfl⟩ := mapOpt_cons_eq_some hl
    have := ih h2
    unfold mapOpt
    rw [this, h1]
    rfl

theorem mapOpt_some_id {α : Type} : ∀ (l : List α), mapOpt (fun x => some x) l = some l := by
  intro l
  induction l with
  | nil => rfl
  | cons a as ih => simp [mapOpt, ih]

/-! ### The member-by-member loop -/

/-- One member: find its field, decode the value into the field's current value. A key no field
    matches is skipped. -/
def seqStep (decInto : GoVal → GoTy → Json → Option GoVal) (fs : List GoField)
    (cur : List (GoField × GoVal)) (m : JMember) : Option (List (GoField × GoVal)) :=
  match targetName fs m.key with
  | none => some cur
  | some nm =>
    mapOpt (fun p => if p.1.name == nm then (decInto p.2 p.1.ty m.val).map (fun v => (p.1, v)) else some p) cur

def seqLoop (decInto : GoVal → GoTy → Json → Option GoVal) (fs : List GoField) :
    List (GoField × GoVal) → List JMember → Option (List (GoField × GoVal))
  | cur, [] => some cur
  | cur, m :: ms =>
    match seqStep decInto fs cur m with
    | none => none
    | some cur' => seqLoop decInto fs cur' ms

def toValField (p : GoField × GoVal) : GoValField := .mk p.1.name p.1.tag p.2

/-- `json.Unmarshal` of an object into a struct, as encoding/json does it: all fields start at their
    zero value, then the members are processed in order. -/
def decodeStructSeq (decInto : GoVal → GoTy → Json → Option GoVal) (zero : GoTy → GoVal) (fs : List GoField)
    (kvs : List JMember) : Option (List GoValField) :=
  (seqLoop decInto fs (fs.map fun f => (f, zero f.ty)) kvs).map (fun r => r.map toValField)

/-- No two members address the same struct field. -/
def TargetsDistinct (fs : List GoField) : List JMember → Prop
  | [] => True
  | m :: ms => (∀ m' ∈ ms, ∀ nm, targetName fs m.key = some nm → targetName fs m'.key ≠ some nm) ∧ TargetsDistinct fs ms

/-- The field-centric step of the model, on (field, value) pairs. -/
def fwOne (dec : GoTy → Json → Option GoVal) (fs : List GoField) (kvs : List JMember) (p : GoField × GoVal) :
    Option (GoField × GoVal) :=
  match lastFor fs p.1.name kvs with
  | none => some p
  | some j => (dec p.1.ty j).map (fun v => (p.1, v))

theorem lastFor_cons_of_ne {fs : List GoField} {name : Name} {m : JMember} {ms : List JMember}
    (h : targetName fs m.key ≠ some name) : lastFor fs name (m :: ms) = lastFor fs name ms := by
  simp only [lastFor]
  cases lastFor fs name ms with
  | some v => rfl
  | none => simp [h]

theorem lastFor_none_of_no_target {fs : List GoField} {name : Name} : ∀ {ms : List JMember},
    (∀ m' ∈ ms, targetName fs m'.key ≠ some name) → lastFor fs name ms = none := by
  intro ms h
  cases hl : lastFor fs name ms with
  | none => rfl
  | some v =>
    obtain ⟨m', hm', ht, _⟩ := lastFor_some hl
    exact absurd ht (h m' hm')

theorem lastFor_cons_target {fs : List GoField} {name : Name} {m : JMember} {ms : List JMember}
    (ht : targetName fs m.key = some name) (hn : lastFor fs name ms = none) :
    lastFor fs name (m :: ms) = some m.val := by
  simp only [lastFor]
  simp [hn, ht]

theorem seqLoop_eq {decInto : GoVal → GoTy → Json → Option GoVal} {dec : GoTy → Json → Option GoVal} {zero : GoTy → GoVal}
    (hzero : ∀ ty j, decInto (zero ty) ty j = dec ty j) (fs : List GoField) :
    ∀ (kvs : List JMember) (cur : List (GoField × GoVal)), TargetsDistinct fs kvs →
      (∀ m ∈ kvs, ∀ nm, targetName fs m.key = some nm → ∀ p ∈ cur, p.1.name = nm → p.2 = zero p.1.ty) →
      seqLoop decInto fs cur kvs = mapOpt (fwOne dec fs kvs) cur := by
  intro kvs
  induction kvs with
  | nil =>
    intro cur _ _
    simp only [seqLoop]
    have : fwOne dec fs [] = fun x => some x := by funext p; simp [fwOne, lastFor]
    rw [this, mapOpt_some_id]
  | cons m ms ih =>
    intro cur hd hz
    obtain ⟨hd1, hd2⟩ := hd
    simp only [seqLoop]
    cases ht : targetName fs m.key with
    | none =>
      have hs : seqStep decInto fs cur m = some cur := by simp [seqStep, ht]
      rw [hs]
      simp only
      rw [ih cur hd2 (fun m' hm' => hz m' (List.mem_cons_of_mem _ hm'))]
      apply mapOpt_congr
      intro p _
      unfold fwOne
      rw [lastFor_cons_of_ne (by rw [ht]; simp)]
    | some nm =>
      have hnone : lastFor fs nm ms = none :=
        lastFor_none_of_no_target (fun m' hm' => hd1 m' hm' nm ht)
      have hstep : seqStep decInto fs cur m =
          mapOpt (fun p => if p.1.name == nm then (decInto p.2 p.1.ty m.val).map (fun v => (p.1, v)) else some p) cur := by
        simp [seqStep, ht]
      rw [hstep]
      -- pointwise: the step followed by the field-centric rest is the field-centric whole
      have hpoint : ∀ p ∈ cur,
          ((if p.1.name == nm then (decInto p.2 p.1.ty m.val).map (fun v => (p.1, v)) else some p).bind (fwOne dec fs ms)) =
            fwOne dec fs (m :: ms) p := by
        intro p hp
        by_cases hn : p.1.name = nm
        · have hz' : p.2 = zero p.1.ty := hz m List.mem_cons_self nm ht p hp hn
          have hbeq : (p.1.name == nm) = true := by simpa using hn
          simp only [hbeq, if_true]
          rw [hz', hzero]
          unfold fwOne
          rw [hn, lastFor_cons_target ht hnone]
          cases hdv : dec p.1.ty m.val with
          | none => simp [hdv]
          | some v => simp [hn, hnone, hdv]
        · have hbeq : (p.1.name == nm) = false := by simpa using hn
          simp only [hbeq, Bool.false_eq_true, if_false, Option.bind]
          unfold fwOne
          rw [lastFor_cons_of_ne (by rw [ht]; intro h; injection h with h; exact hn h.symm)]
      cases hc : mapOpt (fun p => if p.1.name == nm then (decInto p.2 p.1.ty m.val).map (fun v => (p.1, v)) else some p) cur with
      | none =>
        simp only
        obtain ⟨p, hp, hf⟩ := mapOpt_eq_none hc
        have := hpoint p hp
        rw [hf] at this
        exact (mapOpt_none_of_mem hp this.symm).symm
      | some cur' =>
        simp only
        have hz' : ∀ m' ∈ ms, ∀ nm', targetName fs m'.key = some nm' → ∀ p' ∈ cur', p'.1.name = nm' → p'.2 = zero p'.1.ty := by
          intro m' hm' nm' ht' p' hp' hn'
          obtain ⟨p, hp, hf⟩ := mapOpt_mem hc p' hp'
          by_cases hn : p.1.name = nm
          · exfalso
            have hbeq : (p.1.name == nm) = true := by simpa using hn
            simp only [hbeq, if_true] at hf
            cases hd' : decInto p.2 p.1.ty m.val with
            | none => simp [hd'] at hf
            | some v =>
              simp [hd'] at hf
              subst hf
              simp only at hn'
              rw [hn] at hn'
              subst hn'
              exact hd1 m' hm' nm ht ht'
          · have hbeq : (p.1.name == nm) = false := by simpa using hn
            simp only [hbeq, Bool.false_eq_true, if_false] at hf
            injection hf with hf
            subst hf
            exact hz m' (List.mem_cons_of_mem _ hm') nm' ht' p hp hn'
        rw [ih cur' hd2 hz', mapOpt_comp hc]
        exact mapOpt_congr hpoint

theorem fieldwise_pairs (dec : GoTy → Json → Option GoVal) (zero : GoTy → GoVal) (all : List GoField) (kvs : List JMember) :
    ∀ (l : List GoField), (mapOpt (fwOne dec all kvs) (l.map fun f => (f, zero f.ty))).map (fun r => r.map toValField) =
      mapOpt (decodeFieldWith dec zero all kvs) l := by
  intro l
  induction l with
  | nil => rfl
  | cons f rest ih =>
    simp only [List.map_cons]
    unfold mapOpt
    rw [← ih]
    have h1 : (fwOne dec all kvs (f, zero f.ty)).map toValField = decodeFieldWith dec zero all kvs f := by
      unfold fwOne decodeFieldWith
      simp only
      cases lastFor all f.name kvs with
      | none => rfl
      | some j =>
        simp only
        cases dec f.ty j <;> rfl
    rw [← h1]
    cases fwOne dec all kvs (f, zero f.ty) with
    | none => rfl
    | some y =>
      cases mapOpt (fwOne dec all kvs) (rest.map fun f => (f, zero f.ty)) with
      | none => rfl
      | some ys => rfl

/-- Keys distinct ignoring case address distinct fields. -/
theorem targetsDistinct_of_fold {fs : List GoField} (hname : NameInj fs) : ∀ {kvs : List JMember},
    keysFoldDistinct kvs = true → TargetsDistinct fs kvs := by
  intro kvs
  induction kvs with
  | nil => intro _; trivial
  | cons m ms ih =>
    intro hk
    obtain ⟨hdist, hk'⟩ := keysFoldDistinct_cons hk
    refine ⟨?_, ih hk'⟩
    intro m' hm' nm ht ht'
    obtain ⟨g, hg, hgn, jn, hj, hl⟩ := targetName_some ht
    obtain ⟨g', hg', hgn', jn', hj', hl'⟩ := targetName_some ht'
    have : g = g' := hname g hg g' hg' (by rw [hgn, hgn'])
    subst this
    rw [hj] at hj'
    injection hj' with hj'
    subst hj'
    exact hdist m' hm' (by rw [← hl', hl])

end ApiFu.C20
