/-
  C20 — the declared identifiers of a run are pairwise distinct, under the naming assumptions.
-/
import ApiFu.C20.LemTop

namespace ApiFu.C20

/-- The identifiers `processQuery` declares for the definitions of a document, in order. -/
def defNames : List Def → List Name
  | [] => []
  | .op _ none _ :: rest => defNames rest
  | .op _ (some n) _ :: rest => (n ++ n_Data) :: defNames rest
  | .frag n _ _ :: rest => (n ++ n_Fragment) :: defNames rest

def docNames : List Doc → List Name
  | [] => []
  | d :: ds => defNames d.defs ++ docNames ds

theorem NamesHyp.mono {S : Schema} {a b : List Name} (h : NamesHyp S b) (hab : ∀ n ∈ a, n ∈ b) : NamesHyp S a :=
  ⟨h.enumNoSel, fun n hn => h.tdNoSel n (hab n hn), fun nm vs hvs hm => h.enumNotTd nm vs hvs (hab _ hm), h.enumEscInj⟩

theorem NameInv.mono {S : Schema} {a b : List Name} {st : St} (h : NameInv S a st) (hab : ∀ n ∈ a, n ∈ b) :
    NameInv S b st := by
  refine ⟨h.1, ?_⟩
  intro d hd
  have := h.2 d hd
  cases d with
  | sel n fs acts => exact this
  | enum n cs => exact this
  | typedef n t f => exact hab n this

section
variable {S : Schema} {ft : List (Name × Name)}

theorem envOK_nil : EnvOK ([] : List Decl) := by intro d hd; cases hd

/-- Emitting the typedef of one definition after `generateType` for its root. -/
theorem names_step (hS : schemaOK S = true) {all emitted : List Name} (hN : NamesHyp S all)
    {n : Name} {r : Name} {td : TypeDef} {sels : List Sel} {st st1 : St} {gen : GoTy}
    (hlk : S.lookup r = some td) (hcomp : isComposite td = true) (hok : setOK S ft td sels = true)
    (hg : genNamed S ft r sels true st = .ok (gen, st1)) (hinv : EnumInv st)
    (hsub : ∀ m ∈ emitted ++ [n], m ∈ all) (hnew : n ∉ emitted)
    (hni : NameInv S emitted st) :
    NameInv S (emitted ++ [n]) { st1 with decls := st1.decls ++ [typeDef n gen] } := by
  obtain ⟨_, _, hnm, _⟩ := genNamed_good (env := []) hS envOK_nil hlk hcomp hok hg hinv
  have hN1 : NamesHyp S emitted := hN.mono (fun m hm => hsub m (List.mem_append_left _ hm))
  have hN2 : NamesHyp S (emitted ++ [n]) := hN.mono hsub
  have h1 : NameInv S emitted st1 := hnm emitted hN1 hni
  have h2 : NameInv S (emitted ++ [n]) st1 := h1.mono (fun m hm => List.mem_append_left _ hm)
  refine nameInv_add_typedef hN2 h2 (by simp) ?_ gen (isBareIdent gen)
  intro d hd m t f hdm
  subst hdm
  have : m ∈ emitted := h1.2 _ hd
  intro heq
  exact hnew (heq ▸ this)

theorem processDefs_names (hS : schemaOK S = true) {all : List Name} (hN : NamesHyp S all) :
    ∀ (defs : List Def) (st : St) (emitted : List Name), (∀ df ∈ defs, defOK S ft df = true) →
      (processDefs S ft defs st).1 = [] → EnumInv st →
      (∀ m ∈ emitted ++ defNames defs, m ∈ all) → (emitted ++ defNames defs).Nodup →
      NameInv S emitted st →
      NameInv S (emitted ++ defNames defs) (processDefs S ft defs st).2 ∧ EnumInv (processDefs S ft defs st).2 := by
  intro defs
  induction defs with
  | nil =>
    intro st emitted _ _ hinv _ _ hni
    simp only [processDefs, defNames, List.append_nil]
    exact ⟨hni, hinv⟩
  | cons df rest ih =>
    intro st emitted hok herr hinv hsub hnd hni
    have hokd := hok df List.mem_cons_self
    have hokr : ∀ d ∈ rest, defOK S ft d = true := fun d hd => hok d (List.mem_cons_of_mem _ hd)
    cases df with
    | op kind name sels =>
      cases name with
      | none =>
        simp only [processDefs, defNames] at herr hsub hnd ⊢
        exact ih st emitted hokr herr hinv hsub hnd hni
      | some name =>
        simp only [defOK] at hokd
        cases hr : rootOf S kind with
        | none => simp [hr] at hokd
        | some r =>
          simp only [hr] at hokd
          cases hlk : S.lookup r with
          | none => simp [hlk] at hokd
          | some td =>
            simp only [hlk, Bool.and_eq_true] at hokd
            cases hg : genNamed S ft r sels true st with
            | error e => simp [processDefs, hr, hg] at herr
            | ok res =>
              obtain ⟨gen, st1⟩ := res
              simp only [processDefs, hr, hg, defNames] at herr hsub hnd ⊢
              obtain ⟨_, hinv1, _, _⟩ := genNamed_good (env := []) hS envOK_nil hlk hokd.1 hokd.2 hg hinv
              have hinv1' : EnumInv { st1 with decls := st1.decls ++ [typeDef (name ++ n_Data) gen] } := by
                intro m hm
                obtain ⟨cs, hcs⟩ := hinv1 m hm
                exact ⟨cs, by simp [hcs]⟩
              have hstep := names_step (n := name ++ n_Data) hS hN hlk hokd.1 hokd.2 hg hinv
                (fun m hm => hsub m (by
                  rcases List.mem_append.mp hm with h | h
                  · exact List.mem_append_left _ h
                  · simp at h; subst h; simp))
                (by
                  intro hmem
                  have := List.nodup_append.mp hnd
                  exact this.2.2 _ hmem _ List.mem_cons_self rfl)
                hni
              have := ih _ (emitted ++ [name ++ n_Data]) hokr herr hinv1'
                (by simpa [List.append_assoc] using hsub) (by simpa [List.append_assoc] using hnd) hstep
              simpa [List.append_assoc] using this
    | frag name cond sels =>
      simp only [defOK] at hokd
      cases hlk : S.lookup cond with
      | none => simp [hlk] at hokd
      | some td =>
        simp only [hlk, Bool.and_eq_true] at hokd
        cases hg : genNamed S ft cond sels true st with
        | error e => simp [processDefs, hg] at herr
        | ok res =>
          obtain ⟨gen, st1⟩ := res
          simp only [processDefs, hg, defNames] at herr hsub hnd ⊢
          obtain ⟨_, hinv1, _, _⟩ := genNamed_good (env := []) hS envOK_nil hlk hokd.1 hokd.2 hg hinv
          have hinv1' : EnumInv { st1 with decls := st1.decls ++ [typeDef (name ++ n_Fragment) gen] } := by
            intro m hm
            obtain ⟨cs, hcs⟩ := hinv1 m hm
            exact ⟨cs, by simp [hcs]⟩
          have hstep := names_step (n := name ++ n_Fragment) hS hN hlk hokd.1 hokd.2 hg hinv
            (fun m hm => hsub m (by
              rcases List.mem_append.mp hm with h | h
              · exact List.mem_append_left _ h
              · simp at h; subst h; simp))
            (by
              intro hmem
              have := List.nodup_append.mp hnd
              exact this.2.2 _ hmem _ List.mem_cons_self rfl)
            hni
          have := ih _ (emitted ++ [name ++ n_Fragment]) hokr herr hinv1'
            (by simpa [List.append_assoc] using hsub) (by simpa [List.append_assoc] using hnd) hstep
          simpa [List.append_assoc] using this

theorem processDocs_names (hS : schemaOK S = true) {all : List Name} (hN : NamesHyp S all) :
    ∀ (docs : List Doc) (st : St) (emitted : List Name),
      (∀ d ∈ docs, ∀ df ∈ d.defs, defOK S (fragTypesOf d.defs) df = true) →
      (processDocs S docs st).1 = [] → EnumInv st →
      (∀ m ∈ emitted ++ docNames docs, m ∈ all) → (emitted ++ docNames docs).Nodup →
      NameInv S emitted st →
      NameInv S (emitted ++ docNames docs) (processDocs S docs st).2 := by
  intro docs
  induction docs with
  | nil =>
    intro st emitted _ _ _ _ _ hni
    simpa [processDocs, docNames] using hni
  | cons doc rest ih =>
    intro st emitted hok herr hinv hsub hnd hni
    simp only [processDocs, List.append_eq_nil_iff] at herr ⊢
    obtain ⟨herr1, herr2⟩ := herr
    have hvalid := processDoc_valid herr1
    have hdoc : processDoc S doc st = processDefs S (fragTypesOf doc.defs) doc.defs st := by
      simp [processDoc, hvalid]
    rw [hdoc] at herr1 herr2 ⊢
    simp only [docNames] at hsub hnd ⊢
    obtain ⟨h1, h2⟩ := processDefs_names hS hN doc.defs st emitted (hok doc List.mem_cons_self) herr1 hinv
      (fun m hm => hsub m (by
        rcases List.mem_append.mp hm with h | h
        · exact List.mem_append_left _ h
        · exact List.mem_append_right _ (List.mem_append_left _ h)))
      (by
        rw [← List.append_assoc] at hnd
        exact (List.nodup_append.mp hnd).1)
      hni
    have := ih _ (emitted ++ defNames doc.defs) (fun d hd => hok d (List.mem_cons_of_mem _ hd)) herr2 h2
      (by simpa [List.append_assoc] using hsub) (by simpa [List.append_assoc] using hnd) h1
    simpa [List.append_assoc] using this

end

theorem processDocs_validation_mem (S : Schema) :
    ∀ (docs : List Doc) (st : St), (∃ d ∈ docs, d.valid = false) → Err.validation ∈ (processDocs S docs st).1 := by
  intro docs
  induction docs with
  | nil => intro st h; obtain ⟨d, hd, _⟩ := h; cases hd
  | cons d ds ih =>
    intro st h
    simp only [processDocs]
    obtain ⟨d', hd', hv⟩ := h
    rcases List.mem_cons.mp hd' with rfl | hd'
    · apply List.mem_append_left
      simp [processDoc, hv]
    · exact List.mem_append_right _ (ih _ ⟨d', hd', hv⟩)


/-- Declared names pairwise distinct ⇒ looking a declaration's name up finds that declaration. -/
theorem envOK_of_nodup {env : List Decl} (h : nodupB (env.map Decl.name) = true) : EnvOK env := by
  have hnd := (nodupB_iff _).mp h
  intro d hd
  unfold lookupDecl
  cases hf : env.find? (fun d' => match d' with
      | .enum m _ | .sel m _ _ | .typedef m _ _ => m == d.name) with
  | none =>
    have := List.find?_eq_none.mp hf d hd
    cases d <;> simp [Decl.name] at this
  | some g =>
    have hg := List.mem_of_find?_eq_some hf
    have hp := List.find?_some hf
    have hname : g.name = d.name := by
      cases g <;> simpa [Decl.name] using hp
    rw [inj_of_nodup_map Decl.name hnd g hg d hd hname]


end ApiFu.C20
