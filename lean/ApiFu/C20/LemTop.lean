/-
  C20 — from `generate` to the declarations of one operation: every definition of every document
  gets a `typedef` whose type is good, and the fragment typedefs satisfy the fragment hypothesis.
-/
import ApiFu.C20.LemMain

namespace ApiFu.C20

/-- A definition is inside the envelope: its root type exists and is composite, its selection set is
    inside the envelope. Anonymous operations generate nothing. -/
def defOK (S : Schema) (ft : List (Name × Name)) : Def → Bool
  | .op _ none _ => true
  | .op kind (some _) sels =>
    (match rootOf S kind with
     | some r =>
       (match S.lookup r with
        | some td => isComposite td && setOK S ft td sels
        | none => false)
     | none => false)
  | .frag _ cond sels =>
    (match S.lookup cond with
     | some td => isComposite td && setOK S ft td sels
     | none => false)

/-- The declaration generated for a definition is in `env` and its type is good. -/
def DefGood (S : Schema) (env : List Decl) (frag : Name → Name → List JMember → Option (List LeafAt)) : Def → Prop
  | .op _ none _ => True
  | .op kind (some name) sels =>
    ∃ r td ty fwd, rootOf S kind = some r ∧ S.lookup r = some td ∧
      lookupDecl env (name ++ n_Data) = some (.typedef (name ++ n_Data) ty fwd) ∧ LevelGood S env frag td sels ty
  | .frag name cond sels =>
    ∃ td ty fwd, S.lookup cond = some td ∧
      lookupDecl env (name ++ n_Fragment) = some (.typedef (name ++ n_Fragment) ty fwd) ∧ LevelGood S env frag td sels ty

def noFrag : Name → Name → List JMember → Option (List LeafAt) := fun _ _ _ => none

theorem fragHyp_noFrag (S : Schema) (ft : List (Name × Name)) (env : List Decl) : FragHyp S ft env noFrag := by
  intro f T kvs L h
  simp [noFrag] at h

section
variable {S : Schema} {ft : List (Name × Name)} {env : List Decl}

/-- The identifier declared for a definition is among the declarations. -/
def TypedefIn (decls : List Decl) : Def → Prop
  | .op _ none _ => True
  | .op _ (some name) _ => (name ++ n_Data) ∈ decls.map Decl.name
  | .frag name _ _ => (name ++ n_Fragment) ∈ decls.map Decl.name

/-- `generateType` for a definition's root. -/
theorem genNamed_good (hS : schemaOK S = true) (henv : EnvOK env) {n : Name} {td : TypeDef} {sels : List Sel}
    {st st' : St} {ty : GoTy}
    (hlk : S.lookup n = some td) (hcomp : isComposite td = true) (hok : setOK S ft td sels = true)
    (hgen : genNamed S ft n sels true st = .ok (ty, st')) (hinv : EnumInv st) :
    (∀ d ∈ st.decls, d ∈ st'.decls) ∧ EnumInv st' ∧
    (∀ tds, NamesHyp S tds → NameInv S tds st → NameInv S tds st') ∧
    ((∀ d ∈ st'.decls, d ∈ env) →
      (∀ frag, FragHyp S ft env frag → LevelGood S env frag td sels ty) ∧
      (FragNames ft (env.map Decl.name) → enumValuesOK S = true →
        tyOK (env.map Decl.name) ty = true ∧ (StOK (env.map Decl.name) st → StOK (env.map Decl.name) st'))) := by
  unfold genNamed at hgen
  obtain ⟨hmono, hinv', hnm, hsem0⟩ := level_statement hS henv (fragHyp_noFrag S ft env) (sizeOf sels) sels (Nat.le_refl _)
    n td true st ty st' hlk hcomp hgen hok hinv
  refine ⟨hmono, hinv', hnm, ?_⟩
  intro henv'
  refine ⟨?_, (hsem0 henv').2⟩
  intro frag hfrag
  obtain ⟨_, _, _, hsem⟩ := level_statement hS henv hfrag (sizeOf sels) sels (Nat.le_refl _)
    n td true st ty st' hlk hcomp hgen hok hinv
  obtain ⟨⟨tyB, hty, hgood⟩, _⟩ := hsem henv'
  simp only [ptrUnless, if_true] at hty
  rw [hty]
  exact hgood

theorem stOK_append {names : List Name} {st : St} {d : Decl} (h : StOK names st) (hd : declOK names d = true) :
    StOK names { st with decls := st.decls ++ [d] } := by
  intro d' hd'
  simp only [List.mem_append, List.mem_singleton] at hd'
  rcases hd' with hd' | rfl
  · exact h d' hd'
  · exact hd

theorem processDefs_good (hS : schemaOK S = true) (henv : EnvOK env) :
    ∀ (defs : List Def) (st : St), (∀ df ∈ defs, defOK S ft df = true) →
      (processDefs S ft defs st).1 = [] → EnumInv st →
      (∀ d ∈ st.decls, d ∈ (processDefs S ft defs st).2.decls) ∧ EnumInv (processDefs S ft defs st).2 ∧
      (∀ df ∈ defs, TypedefIn (processDefs S ft defs st).2.decls df) ∧
      ((∀ d ∈ (processDefs S ft defs st).2.decls, d ∈ env) →
        (∀ frag, FragHyp S ft env frag → ∀ df ∈ defs, DefGood S env frag df) ∧
        (FragNames ft (env.map Decl.name) → enumValuesOK S = true →
          StOK (env.map Decl.name) st → StOK (env.map Decl.name) (processDefs S ft defs st).2)) := by
  intro defs
  induction defs with
  | nil =>
    intro st _ _ hinv
    simp only [processDefs]
    exact ⟨fun d hd => hd, hinv, fun df hdf => (nomatch hdf), fun _ => ⟨fun _ _ df hdf => (nomatch hdf), fun _ _ h => h⟩⟩
  | cons df rest ih =>
    intro st hok herr hinv
    have hokd := hok df List.mem_cons_self
    have hokr : ∀ d ∈ rest, defOK S ft d = true := fun d hd => hok d (List.mem_cons_of_mem _ hd)
    cases df with
    | op kind name sels =>
      cases name with
      | none =>
        simp only [processDefs] at herr ⊢
        obtain ⟨h1, h2, ht, h3⟩ := ih st hokr herr hinv
        refine ⟨h1, h2, ?_, ?_⟩
        · intro d hd
          rcases List.mem_cons.mp hd with rfl | hd
          · trivial
          · exact ht d hd
        · intro henv'
          obtain ⟨g1, g2⟩ := h3 henv'
          refine ⟨?_, g2⟩
          intro frag hfrag d hd
          rcases List.mem_cons.mp hd with rfl | hd
          · trivial
          · exact g1 frag hfrag d hd
      | some name =>
        simp only [defOK] at hokd
        cases hr : rootOf S kind with
        | none => simp [hr] at hokd
        | some r =>
          simp only [hr] at hokd
          cases hlk : S.lookup r with
          | none => simp [hlk] at hokd
          | some td =>
            simp only [hlk, Bool.and_eq_true] at hokd
            cases hg : genNamed S ft r sels true st with
            | error e => simp [processDefs, hr, hg] at herr
            | ok res =>
              obtain ⟨gen, st1⟩ := res
              simp only [processDefs, hr, hg] at herr ⊢
              obtain ⟨hmono, hinv1, _, hsem⟩ := genNamed_good hS henv hlk hokd.1 hokd.2 hg hinv
              have hinv1' : EnumInv { st1 with decls := st1.decls ++ [typeDef (name ++ n_Data) gen] } := by
                intro m hm
                obtain ⟨cs, hcs⟩ := hinv1 m hm
                exact ⟨cs, by simp [hcs]⟩
              obtain ⟨h1, h2, ht, h3⟩ := ih _ hokr herr hinv1'
              refine ⟨fun d hd => h1 d (by simp [hmono d hd]), h2, ?_, ?_⟩
              · intro d hd
                rcases List.mem_cons.mp hd with rfl | hd
                · exact List.mem_map.mpr ⟨typeDef (name ++ n_Data) gen, h1 _ (by simp), rfl⟩
                · exact ht d hd
              · intro henv'
                obtain ⟨g1, g2⟩ := h3 henv'
                obtain ⟨s1, s2⟩ := hsem (fun d hd => henv' d (h1 d (by simp [hd])))
                constructor
                · intro frag hfrag d hd
                  rcases List.mem_cons.mp hd with rfl | hd
                  · have hin : typeDef (name ++ n_Data) gen ∈ env := henv' _ (h1 _ (by simp))
                    have hlook := henv _ hin
                    exact ⟨r, td, gen, isBareIdent gen, hr, hlk, hlook, s1 frag hfrag⟩
                  · exact g1 frag hfrag d hd
                · intro hfn hec hst
                  obtain ⟨t1, t2⟩ := s2 hfn hec
                  exact g2 hfn hec (stOK_append (t2 hst) (by simpa [typeDef, declOK] using t1))
    | frag name cond sels =>
      simp only [defOK] at hokd
      cases hlk : S.lookup cond with
      | none => simp [hlk] at hokd
      | some td =>
        simp only [hlk, Bool.and_eq_true] at hokd
        cases hg : genNamed S ft cond sels true st with
        | error e => simp [processDefs, hg] at herr
        | ok res =>
          obtain ⟨gen, st1⟩ := res
          simp only [processDefs, hg] at herr ⊢
          obtain ⟨hmono, hinv1, _, hsem⟩ := genNamed_good hS henv hlk hokd.1 hokd.2 hg hinv
          have hinv1' : EnumInv { st1 with decls := st1.decls ++ [typeDef (name ++ n_Fragment) gen] } := by
            intro m hm
            obtain ⟨cs, hcs⟩ := hinv1 m hm
            exact ⟨cs, by simp [hcs]⟩
          obtain ⟨h1, h2, ht, h3⟩ := ih _ hokr herr hinv1'
          refine ⟨fun d hd => h1 d (by simp [hmono d hd]), h2, ?_, ?_⟩
          · intro d hd
            rcases List.mem_cons.mp hd with rfl | hd
            · exact List.mem_map.mpr ⟨typeDef (name ++ n_Fragment) gen, h1 _ (by simp), rfl⟩
            · exact ht d hd
          · intro henv'
            obtain ⟨g1, g2⟩ := h3 henv'
            obtain ⟨s1, s2⟩ := hsem (fun d hd => henv' d (h1 d (by simp [hd])))
            constructor
            · intro frag hfrag d hd
              rcases List.mem_cons.mp hd with rfl | hd
              · have hin : typeDef (name ++ n_Fragment) gen ∈ env := henv' _ (h1 _ (by simp))
                have hlook := henv _ hin
                exact ⟨td, gen, isBareIdent gen, hlk, hlook, s1 frag hfrag⟩
              · exact g1 frag hfrag d hd
            · intro hfn hec hst
              obtain ⟨t1, t2⟩ := s2 hfn hec
              exact g2 hfn hec (stOK_append (t2 hst) (by simpa [typeDef, declOK] using t1))

theorem processDoc_valid {d : Doc} {st : St} (h : (processDoc S d st).1 = []) : d.valid = true := by
  unfold processDoc at h
  cases hv : d.valid with
  | true => rfl
  | false => simp [hv] at h

theorem typedefIn_mono {a b : List Decl} (h : ∀ d ∈ a, d ∈ b) {df : Def} (ht : TypedefIn a df) : TypedefIn b df := by
  cases df with
  | op k n ss =>
    cases n with
    | none => trivial
    | some nm =>
      obtain ⟨d, hd, hn⟩ := List.mem_map.mp ht
      exact List.mem_map.mpr ⟨d, h d hd, hn⟩
  | frag nm c ss =>
    obtain ⟨d, hd, hn⟩ := List.mem_map.mp ht
    exact List.mem_map.mpr ⟨d, h d hd, hn⟩

theorem processDocs_good (hS : schemaOK S = true) (henv : EnvOK env) :
    ∀ (docs : List Doc) (st : St),
      (∀ d ∈ docs, ∀ df ∈ d.defs, defOK S (fragTypesOf d.defs) df = true) →
      (processDocs S docs st).1 = [] → EnumInv st →
      (∀ d ∈ st.decls, d ∈ (processDocs S docs st).2.decls) ∧ EnumInv (processDocs S docs st).2 ∧
      (∀ doc ∈ docs, ∀ df ∈ doc.defs, TypedefIn (processDocs S docs st).2.decls df) ∧
      ((∀ d ∈ (processDocs S docs st).2.decls, d ∈ env) →
        (∀ doc ∈ docs, ∀ frag, FragHyp S (fragTypesOf doc.defs) env frag → ∀ df ∈ doc.defs, DefGood S env frag df) ∧
        ((∀ doc ∈ docs, FragNames (fragTypesOf doc.defs) (env.map Decl.name)) → enumValuesOK S = true →
          StOK (env.map Decl.name) st → StOK (env.map Decl.name) (processDocs S docs st).2)) := by
  intro docs
  induction docs with
  | nil =>
    intro st _ _ hinv
    simp only [processDocs]
    exact ⟨fun d hd => hd, hinv, fun doc hdoc => (nomatch hdoc),
      fun _ => ⟨fun doc hdoc => (nomatch hdoc), fun _ _ h => h⟩⟩
  | cons doc rest ih =>
    intro st hok herr hinv
    simp only [processDocs, List.append_eq_nil_iff] at herr ⊢
    obtain ⟨herr1, herr2⟩ := herr
    have hvalid := processDoc_valid herr1
    have hdoc : processDoc S doc st = processDefs S (fragTypesOf doc.defs) doc.defs st := by
      simp [processDoc, hvalid]
    rw [hdoc] at herr1 herr2 ⊢
    obtain ⟨h1, h2, ht, h3⟩ := processDefs_good hS henv doc.defs st (hok doc List.mem_cons_self) herr1 hinv
    obtain ⟨g1, g2, gt, g3⟩ := ih _ (fun d hd => hok d (List.mem_cons_of_mem _ hd)) herr2 h2
    refine ⟨fun d hd => g1 d (h1 d hd), g2, ?_, ?_⟩
    · intro doc' hdoc' df hdf
      rcases List.mem_cons.mp hdoc' with rfl | hdoc'
      · exact typedefIn_mono g1 (ht df hdf)
      · exact gt doc' hdoc' df hdf
    · intro henv'
      obtain ⟨a1, a2⟩ := h3 (fun d hd => henv' d (g1 d hd))
      obtain ⟨b1, b2⟩ := g3 henv'
      constructor
      · intro doc' hdoc' frag hfrag df hdf
        rcases List.mem_cons.mp hdoc' with rfl | hdoc'
        · exact a1 frag hfrag df hdf
        · exact b1 doc' hdoc' frag hfrag df hdf
      · intro hfn hec hst
        exact b2 (fun d hd => hfn d (List.mem_cons_of_mem _ hd)) hec (a2 (hfn doc List.mem_cons_self) hec hst)

end

theorem fragTypes_any {defs : List Def} {f : Name} (h : (fragTypesOf defs).any (fun p => p.1 == f) = true) :
    ∃ c ss, Def.frag f c ss ∈ defs := by
  obtain ⟨p, hp, hpf⟩ := List.any_eq_true.mp h
  unfold fragTypesOf at hp
  obtain ⟨df, hdf, hm⟩ := List.mem_filterMap.mp hp
  cases df with
  | op k n ss => simp at hm
  | frag n c ss =>
    simp at hm
    subst hm
    simp at hpf
    subst hpf
    exact ⟨c, ss, hdf⟩

/-! ### Named fragments -/

theorem fragDefs_find {defs : List Def} {f : Name} {d : Name × Name × List Sel}
    (h : (fragDefsOf defs).find? (fun d => d.1 == f) = some d) :
    d.1 = f ∧ Def.frag f d.2.1 d.2.2 ∈ defs ∧ lookupFrag (fragTypesOf defs) f = d.2.1 := by
  induction defs with
  | nil => simp [fragDefsOf] at h
  | cons df rest ih =>
    cases df with
    | op k n ss =>
      have h' : (fragDefsOf rest).find? (fun d => d.1 == f) = some d := by simpa [fragDefsOf] using h
      obtain ⟨h1, h2, h3⟩ := ih h'
      refine ⟨h1, List.mem_cons_of_mem _ h2, ?_⟩
      simpa [fragTypesOf] using h3
    | frag n c ss =>
      by_cases hn : n = f
      · subst hn
        have : d = (n, c, ss) := by
          have h' := h
          simp [fragDefsOf] at h'
          exact h'.symm
        subst this
        refine ⟨rfl, List.mem_cons_self, ?_⟩
        simp [fragTypesOf, lookupFrag]
      · have hne : (n == f) = false := by simpa using hn
        have h' : (fragDefsOf rest).find? (fun d => d.1 == f) = some d := by
          simpa [fragDefsOf, List.find?, hne] using h
        obtain ⟨h1, h2, h3⟩ := ih h'
        refine ⟨h1, List.mem_cons_of_mem _ h2, ?_⟩
        have : lookupFrag (fragTypesOf (Def.frag n c ss :: rest)) f = lookupFrag (fragTypesOf rest) f := by
          simp [fragTypesOf, lookupFrag, hne]
        rw [this]
        exact h3

/-- The fragment hypothesis holds of the specification's fragment unfolding, at every depth. -/
theorem fragHyp_fragLeaves {S : Schema} {env : List Decl} {defs : List Def}
    (hgood : ∀ frag, FragHyp S (fragTypesOf defs) env frag → ∀ df ∈ defs, DefGood S env frag df) :
    ∀ fuel, FragHyp S (fragTypesOf defs) env (fragLeaves S (fragDefsOf defs) fuel) := by
  intro fuel
  induction fuel with
  | zero =>
    intro f T kvs L h
    simp [fragLeaves] at h
  | succ fuel ih =>
    intro f T kvs L h hkd hko
    unfold fragLeaves at h
    cases hfind : (fragDefsOf defs).find? (fun d => d.1 == f) with
    | none => simp [hfind] at h
    | some d =>
      simp only [hfind] at h
      obtain ⟨_, hmem, hcond⟩ := fragDefs_find hfind
      cases hlk : S.lookup d.2.1 with
      | none => simp [hlk] at h
      | some ctd =>
        simp only [hlk] at h
        rw [hcond]
        obtain ⟨td, ty, fwd, hlk', hdecl, hlevel⟩ := hgood _ ih _ hmem
        rw [hlk] at hlk'
        injection hlk' with hlk'
        subst hlk'
        cases happ : (possible S d.2.1).contains T with
        | true =>
          simp only [happ, if_true] at h ⊢
          have hcn : ctd.name = d.2.1 := Schema.lookup_name hlk
          obtain ⟨ws, hd, hcov⟩ := hlevel T kvs L (fun _ => by rw [hcn]; exact happ) h hkd hko
          exact ⟨ws, Decodes.typedef hdecl hd, hcov⟩
        | false =>
          simp only [happ, Bool.false_eq_true, if_false] at h ⊢
          injection h with h
          exact h.symm

end ApiFu.C20
