/-
  C20 — the level lemma: `MemberGood` for every member of a selection set ⇒ `LevelGood` for the type
  generated for the set.
-/
import ApiFu.C20.LemLevel

namespace ApiFu.C20

/-- The pair a fragment selection records in `typeConditions`. -/
def FragPair (ft : List (Name × Name)) (tbl : HolderTable) (td : TypeDef) : Sel → Name → Name → Prop
  | .inline cond ss, c, f => c = cond.getD td.name ∧ f = memberKey tbl td (.inline cond ss)
  | .spread g, c, f => c = lookupFrag ft g ∧ f = memberKey tbl td (.spread g)
  | .field _ _ _, _, _ => False

/-- What the generator recorded in `fields` for one selection, and why that is good. -/
def MemberGood (S : Schema) (env : List Decl) (frag : Name → Name → List JMember → Option (List LeafAt))
    (tbl : HolderTable) (td : TypeDef) (s : Sel) (e : FieldEntry) : Prop :=
  e.key = memberKey tbl td s ∧
  match s with
  | .field _ name subs =>
    e.dash = false ∧
    (if name == n_typename then e.ty = .string
     else ∃ ftype, fieldTypeOf td name = some ftype ∧
       ∀ v L, v.keysOK = true →
         wrapLeaves (specBase S frag (shape ftype false).2.1 subs) (shape ftype false).2.2 (shape ftype false).1 v = some L →
         Holds env e.ty v L)
  | .inline cond subs =>
    e.dash = true ∧ ∃ ctd tyB, S.lookup (cond.getD td.name) = some ctd ∧ e.ty = .ptr tyB ∧ LevelGood S env frag ctd subs tyB
  | .spread f => e.dash = true ∧ e.ty = .ptr (.named (f ++ n_Fragment))

/-- What is assumed about named fragments: the type declared for a fragment decodes every object the
    fragment applies to and holds the fragment's leaves; where it does not apply it selects nothing. -/
def FragHyp (S : Schema) (ft : List (Name × Name)) (env : List Decl)
    (frag : Name → Name → List JMember → Option (List LeafAt)) : Prop :=
  ∀ f T kvs L, frag f T kvs = some L → keysFoldDistinct kvs = true → keysOKMembers kvs = true →
    if (possible S (lookupFrag ft f)).contains T then
      ∃ ws, Decodes env (.named (f ++ n_Fragment)) (.obj kvs) (.struct ws) ∧ ∀ x ∈ L, x ∈ leavesVFields ws
    else L = []

theorem membersOK_mem {S : Schema} {ft : List (Name × Name)} {td : TypeDef} :
    ∀ {sels : List Sel}, membersOK S ft td sels = true → ∀ s ∈ sels, selOK S ft td s = true := by
  intro sels
  induction sels with
  | nil => intro _ s hs; cases hs
  | cons a as ih =>
    intro h s hs
    simp only [membersOK, Bool.and_eq_true] at h
    rcases List.mem_cons.mp hs with rfl | hs
    · exact h.1
    · exact ih h.2 s hs

theorem forall2_keys {S : Schema} {env : List Decl} {frag : Name → Name → List JMember → Option (List LeafAt)}
    {tbl : HolderTable} {td : TypeDef} : ∀ {sels : List Sel} {es : List FieldEntry}, Forall2 (MemberGood S env frag tbl td) sels es →
      es.map (fun e => fieldName e.key) = sels.map (fun s => fieldName (memberKey tbl td s)) := by
  intro sels es h
  induction h with
  | nil => rfl
  | cons hab _ ih => simp [ih, hab.1]

theorem zeroWith_ptr (u : Name → Option GoTy) (n : Nat) (t : GoTy) : zeroWith u n (.ptr t) = .nil := by
  cases n <;> simp [zeroWith]

/-- A struct-like value list in which Go names identify fields. -/
def ValNameInj (vs : List GoValField) : Prop := ∀ a ∈ vs, ∀ b ∈ vs, a.name = b.name → a = b

theorem baseStr_of_mem {vs : List GoValField} (hinj : ValNameInj vs) {n : Name} {t : Tag} {s : Name}
    (hm : GoValField.mk n t (.str s) ∈ vs) : baseStr vs n = some s := by
  unfold baseStr
  cases h : vs.find? (fun f => f.name == n) with
  | none =>
    have := List.find?_eq_none.mp h _ hm
    simp [GoValField.name] at this
  | some g =>
    have hg := List.mem_of_find?_eq_some h
    have hp := List.find?_some h
    simp at hp
    have : g = GoValField.mk n t (.str s) := hinj g hg _ hm (by simpa [GoValField.name] using hp)
    subst this
    rfl

theorem forall2_names {R : GoField → GoValField → Prop} (hR : ∀ g v, R g v → v.name = g.name) :
    ∀ {fs : List GoField} {vs : List GoValField}, Forall2 R fs vs → vs.map GoValField.name = fs.map GoField.name := by
  intro fs vs h
  induction h with
  | nil => rfl
  | cons hab _ ih => simp [ih, hR _ _ hab]

theorem valNameInj_of_nodup {vs : List GoValField} (h : (vs.map GoValField.name).Nodup) : ValNameInj vs :=
  fun a ha b hb heq => inj_of_nodup_map GoValField.name h a ha b hb heq

end ApiFu.C20
