/-
  C20 — bookkeeping lemmas about the generator's two maps (`fields`, `typeConditions`), the emitted
  statements, and the schema functions used by generator and specification.
-/
import ApiFu.C20.LemStruct

namespace ApiFu.C20

/-! ### `fields[k] = v` -/

theorem Fields.set_of_fresh {fs : Fields} {e : FieldEntry} (h : ∀ x ∈ fs, x.key ≠ e.key) : fs.set e = fs ++ [e] := by
  unfold Fields.set
  have : fs.any (fun x => x.key == e.key) = false := by
    apply List.any_eq_false.mpr
    intro x hx
    simpa using h x hx
  simp [this]

/-! ### `typeConditions[c] = append(typeConditions[c], f)` -/

/-- The pair (type condition, holder key) is recorded. -/
def Conds.has (cs : Conds) (c f : Name) : Prop := ∃ e ∈ cs, e.1 = c ∧ f ∈ e.2

theorem Conds.has_nil (c f : Name) : ¬ Conds.has [] c f := by
  rintro ⟨e, he, _⟩
  cases he

theorem Conds.has_add {cs : Conds} {c f c' f' : Name} :
    Conds.has (cs.add c f) c' f' ↔ Conds.has cs c' f' ∨ (c' = c ∧ f' = f) := by
  unfold Conds.add
  split
  · rename_i hany
    constructor
    · rintro ⟨e, he, hc, hf⟩
      obtain ⟨x, hx, hxe⟩ := List.mem_map.mp he
      by_cases hxc : x.1 = c
      · simp [hxc] at hxe
        subst hxe
        simp at hc hf
        rcases hf with hf | hf
        · left; exact ⟨x, hx, by rw [hxc, hc], hf⟩
        · right; exact ⟨hc.symm, hf⟩
      · have : (x.1 == c) = false := by simpa using hxc
        simp [this] at hxe
        subst hxe
        left; exact ⟨x, hx, hc, hf⟩
    · rintro (⟨e, he, hc, hf⟩ | ⟨hc, hf⟩)
      · by_cases hec : e.1 = c
        · refine ⟨(e.1, e.2 ++ [f]), List.mem_map.mpr ⟨e, he, by simp [hec]⟩, hc, ?_⟩
          simp [hf]
        · have : (e.1 == c) = false := by simpa using hec
          exact ⟨e, List.mem_map.mpr ⟨e, he, by simp [this]⟩, hc, hf⟩
      · obtain ⟨x, hx, hxc⟩ := List.any_eq_true.mp hany
        simp at hxc
        refine ⟨(x.1, x.2 ++ [f]), List.mem_map.mpr ⟨x, hx, by simp [hxc]⟩, by simp [hxc, hc], ?_⟩
        simp [hf]
  · constructor
    · rintro ⟨e, he, hc, hf⟩
      rcases List.mem_append.mp he with he | he
      · left; exact ⟨e, he, hc, hf⟩
      · simp at he
        subst he
        simp at hc hf
        right; exact ⟨hc.symm, hf⟩
    · rintro (⟨e, he, hc, hf⟩ | ⟨hc, hf⟩)
      · exact ⟨e, List.mem_append_left _ he, hc, hf⟩
      · exact ⟨(c, [f]), by simp, hc.symm, by simp [hf]⟩

theorem Conds.add_ne_nil (cs : Conds) (c f : Name) : (cs.add c f).isEmpty = false := by
  unfold Conds.add
  split
  · rename_i hany
    obtain ⟨x, hx, _⟩ := List.any_eq_true.mp hany
    cases cs with
    | nil => cases hx
    | cons a as => simp
  · cases cs <;> simp

theorem Conds.isEmpty_imp_not_has {cs : Conds} (h : cs.isEmpty = true) (c f : Name) : ¬ Conds.has cs c f := by
  cases cs with
  | nil => exact Conds.has_nil c f
  | cons a as => simp at h

/-- The statement emitted for one recorded pair (main.go:187-226). -/
def actionFor (S : Schema) (td : TypeDef) (tn c f : Name) : Action :=
  if isKnown S td c then .uncond (fieldName f) else .switch tn (okTypes S c) (fieldName f)

theorem mem_actionsOf {S : Schema} {td : TypeDef} {tn : Name} {conds : Conds} {a : Action} :
    a ∈ actionsOf S td tn conds ↔ ∃ c f, Conds.has conds c f ∧ a = actionFor S td tn c f := by
  unfold actionsOf
  simp only [List.mem_flatten, List.mem_map]
  constructor
  · rintro ⟨l, ⟨e, he, rfl⟩, ha⟩
    by_cases hk : isKnown S td e.1
    · simp [hk] at ha
      obtain ⟨f, hf, rfl⟩ := ha
      exact ⟨e.1, f, ⟨e, he, rfl, hf⟩, by simp [actionFor, hk]⟩
    · simp [hk] at ha
      obtain ⟨f, hf, rfl⟩ := ha
      exact ⟨e.1, f, ⟨e, he, rfl, hf⟩, by simp [actionFor, hk]⟩
  · rintro ⟨c, f, ⟨e, he, rfl, hf⟩, rfl⟩
    refine ⟨_, ⟨e, he, rfl⟩, ?_⟩
    by_cases hk : isKnown S td e.1
    · simp [hk, actionFor]; exact ⟨f, hf, rfl⟩
    · simp [hk, actionFor]; exact ⟨f, hf, rfl⟩

theorem actionFor_field (S : Schema) (td : TypeDef) (tn c f : Name) : (actionFor S td tn c f).field = fieldName f := by
  unfold actionFor
  split <;> rfl

/-! ### Schema facts shared by generator and specification -/

theorem Schema.lookup_name {S : Schema} {n : Name} {td : TypeDef} (h : S.lookup n = some td) : td.name = n := by
  unfold Schema.lookup at h
  have := List.find?_some h
  simpa using this

theorem Schema.lookup_mem {S : Schema} {n : Name} {td : TypeDef} (h : S.lookup n = some td) : td ∈ S.types :=
  List.mem_of_find?_eq_some h

/-- The switch's case list is exactly the set of object types the type condition covers. -/
theorem okTypes_eq_possible (S : Schema) (c : Name) : okTypes S c = possible S c := by
  unfold okTypes possible
  cases h : S.lookup c with
  | none => rfl
  | some td =>
    cases td with
    | iface n fs => rfl
    | object n fs is => rfl
    | union n ms => rfl
    | _ => rfl

/-- Interfaces an object type lists are declared interfaces (part of schema validity). -/
def schemaOK (S : Schema) : Bool :=
  S.types.all fun
    | .object _ _ is => is.all fun i =>
        match S.lookup i with
        | some (.iface _ _) => true
        | _ => false
    | _ => true

theorem mem_implementations {S : Schema} {n c : Name} {fs : List (Name × TypeRef)} {is : List Name}
    (hm : TypeDef.object n fs is ∈ S.types) (hc : is.contains c = true) : n ∈ S.implementations c := by
  unfold Schema.implementations
  apply List.mem_filterMap.mpr
  exact ⟨_, hm, by simp [List.contains_iff_mem.mp hc]⟩

/-- A fragment the generator treats as always matching does cover the enclosing object type. -/
theorem possible_of_isKnown_object {S : Schema} (hS : schemaOK S = true) {n : Name} {fs : List (Name × TypeRef)}
    {is : List Name} {c : Name}
    (hlk : S.lookup n = some (.object n fs is)) (hk : isKnown S (.object n fs is) c = true) :
    (possible S c).contains n = true := by
  unfold isKnown at hk
  simp only [TypeDef.name, Bool.or_eq_true, beq_iff_eq] at hk
  rcases hk with hk | hk | hk
  · subst hk
    simp [possible, hlk]
  · -- an implemented interface
    have hm := Schema.lookup_mem hlk
    have := List.all_eq_true.mp hS _ hm
    simp only at this
    have hci := List.all_eq_true.mp this c (by simpa using hk)
    unfold possible
    cases hc : S.lookup c with
    | none => simp [hc] at hci
    | some ctd =>
      cases ctd with
      | iface m ifs =>
        have hmn : m = c := Schema.lookup_name hc
        subst hmn
        simp only [List.contains_iff_mem]
        exact mem_implementations hm hk
      | _ => simp [hc] at hci
  · cases hc : S.lookup c with
    | none => simp [hc] at hk
    | some ctd =>
      cases ctd with
      | union m ms => simp [hc] at hk; simp [possible, hc, hk]
      | _ => simp [hc] at hk

end ApiFu.C20
