/-
  C20 — the envelope in the property's own words (session 3).

  The envelope of `gen_wf` / `decode_preserves_leaves` (`defOK` / `setOK` / `selOK`) contains, at every
  selection set, the conjunct "the Go names of the fields are pairwise distinct" (`nodupB (takenOf sels)`
  in `keysNodup`) — a statement about the generator's naming function, not about the operation.
  `defOKW` is the same envelope with that conjunct replaced by the explicit exclusion
  `!typenameClash` (the unaliased `__typename` next to a key whose Go name is `Typename__`, finding
  F-20j); everything else in it is the property's wording (keys begin with a letter or are
  `__typename`, keys distinct ignoring case, no fragment twice) or what validation guarantees.
  `defOKW_imp` shows `defOKW ⇒ defOK` at every depth, so the main theorems hold with `defOKW`.
-/
import ApiFu.C20.PropsNames

namespace ApiFu.C20

/-- `keysNodup` without the assumption on Go names. -/
def keysNodupW (td : TypeDef) (sels : List Sel) : Bool :=
  !typenameClash (selFieldKeys sels) &&
  nodupB (sels.filterMap (fragIdOf td)) &&
  nodupB ((sels.filter isFieldSel).map fun s => lowerAll (memberKey [] td s))

mutual
def selOKW (S : Schema) (ft : List (Name × Name)) (td : TypeDef) : Sel → Bool
  | .field alias name subs =>
    keyOK (alias.getD name) &&
    (name == n_typename ||
      (!td.isUnion &&
        (match fieldTypeOf td name with
         | some ftype =>
           (match S.lookup (shape ftype false).2.1 with
            | some td' => if isComposite td' then membersOKW S ft td' subs && keysNodupW td' subs else isLeafKind td'
            | none => false)
         | none => true)))
  | .inline cond subs =>
    startsWithLetter (cond.getD td.name) &&
    (!td.isObject || isKnown S td (cond.getD td.name)) &&
    (match S.lookup (cond.getD td.name) with
     | some ctd => isComposite ctd && membersOKW S ft ctd subs && keysNodupW ctd subs
     | none => true)
  | .spread f => startsWithLetter f && (!td.isObject || isKnown S td (lookupFrag ft f)) && ft.any (fun p => p.1 == f)
def membersOKW (S : Schema) (ft : List (Name × Name)) (td : TypeDef) : List Sel → Bool
  | [] => true
  | s :: rest => selOKW S ft td s && membersOKW S ft td rest
end

def setOKW (S : Schema) (ft : List (Name × Name)) (td : TypeDef) (sels : List Sel) : Bool :=
  membersOKW S ft td sels && keysNodupW td sels

def defOKW (S : Schema) (ft : List (Name × Name)) : Def → Bool
  | .op _ none _ => true
  | .op kind (some _) sels =>
    (match rootOf S kind with
     | some r =>
       (match S.lookup r with
        | some td => isComposite td && setOKW S ft td sels
        | none => false)
     | none => false)
  | .frag _ cond sels =>
    (match S.lookup cond with
     | some td => isComposite td && setOKW S ft td sels
     | none => false)

theorem fieldKeys_lower (td : TypeDef) : ∀ sels : List Sel,
    ((sels.filter isFieldSel).map fun s => lowerAll (memberKey [] td s)) = (selFieldKeys sels).map lowerAll := by
  intro sels
  induction sels with
  | nil => rfl
  | cons s rest ih =>
    cases s with
    | field a n ss =>
      simp only [List.filter, isFieldSel, List.map_cons, selFieldKeys]
      rw [ih]
      rfl
    | inline c ss => simpa [List.filter, isFieldSel, selFieldKeys] using ih
    | spread f => simpa [List.filter, isFieldSel, selFieldKeys] using ih

theorem membersOK_keyOK {S : Schema} {ft : List (Name × Name)} {td : TypeDef} : ∀ {sels : List Sel},
    membersOK S ft td sels = true → ∀ k ∈ selFieldKeys sels, keyOK k = true := by
  intro sels
  induction sels with
  | nil => intro _ k hk; cases hk
  | cons s rest ih =>
    intro h k hk
    simp only [membersOK, Bool.and_eq_true] at h
    cases s with
    | field a n ss =>
      simp only [selFieldKeys, List.mem_cons] at hk
      rcases hk with rfl | hk
      · have := h.1
        simp only [selOK, Bool.and_eq_true] at this
        exact this.1
      · exact ih h.2 k hk
    | inline c ss => exact ih h.2 k (by simpa [selFieldKeys] using hk)
    | spread f => exact ih h.2 k (by simpa [selFieldKeys] using hk)

/-- One level: with admissible keys, the wording-level condition gives the Go-name condition. -/
theorem keysNodupW_imp {S : Schema} {ft : List (Name × Name)} {td : TypeDef} {sels : List Sel}
    (hm : membersOK S ft td sels = true) (h : keysNodupW td sels = true) : keysNodup td sels = true := by
  simp only [keysNodupW, Bool.and_eq_true, Bool.not_eq_true'] at h
  obtain ⟨⟨h1, h2⟩, h3⟩ := h
  simp only [keysNodup, Bool.and_eq_true]
  refine ⟨⟨?_, h2⟩, h3⟩
  rw [fieldKeys_lower] at h3
  exact struct_field_names_distinct sels (membersOK_keyOK hm) h3 h1

theorem membersOKW_imp (S : Schema) (ft : List (Name × Name)) :
    ∀ (k : Nat) (sels : List Sel), sizeOf sels ≤ k → ∀ (td : TypeDef),
      membersOKW S ft td sels = true → membersOK S ft td sels = true := by
  intro k
  induction k with
  | zero =>
    intro sels hk
    cases sels with
    | nil => simp at hk
    | cons a as => simp at hk
  | succ k ih =>
    intro sels
    induction sels with
    | nil => intro _ td _; rfl
    | cons s rest ihr =>
      intro hk td h
      have hsub : ∀ subs, subs = subsOf s → sizeOf subs ≤ k := by
        intro subs hs
        have := sizeOf_subsOf_lt (s := s) (sels := s :: rest) List.mem_cons_self
        rw [hs]; omega
      have hrest : sizeOf rest ≤ k + 1 := by
        simp only [List.cons.sizeOf_spec] at hk; omega
      simp only [membersOKW, Bool.and_eq_true] at h
      simp only [membersOK, Bool.and_eq_true]
      refine ⟨?_, ihr hrest td h.2⟩
      have hs := h.1
      cases s with
      | spread f => simpa [selOKW, selOK] using hs
      | inline cond subs =>
        simp only [selOKW, Bool.and_eq_true] at hs
        simp only [selOK, Bool.and_eq_true]
        refine ⟨hs.1, ?_⟩
        cases hl : S.lookup (cond.getD td.name) with
        | none => rfl
        | some ctd =>
          have h3 := hs.2
          simp only [hl, Bool.and_eq_true] at h3 ⊢
          have hm := ih subs (hsub subs rfl) ctd h3.1.2
          exact ⟨⟨h3.1.1, hm⟩, keysNodupW_imp hm h3.2⟩
      | field alias name subs =>
        simp only [selOKW, Bool.and_eq_true] at hs
        simp only [selOK, Bool.and_eq_true]
        refine ⟨hs.1, ?_⟩
        have h2 := hs.2
        by_cases htn : (name == n_typename) = true
        · simp [htn]
        · have htn' : (name == n_typename) = false := by simpa using htn
          simp only [htn', Bool.false_or, Bool.and_eq_true] at h2 ⊢
          refine ⟨h2.1, ?_⟩
          have h3 := h2.2
          cases hft : fieldTypeOf td name with
          | none => rfl
          | some ftype =>
            simp only [hft] at h3 ⊢
            cases hl : S.lookup (shape ftype false).2.1 with
            | none => simp [hl] at h3
            | some td' =>
              simp only [hl] at h3 ⊢
              by_cases hc : isComposite td' = true
              · simp only [hc, if_true, Bool.and_eq_true] at h3 ⊢
                have hm := ih subs (hsub subs rfl) td' h3.1
                exact ⟨hm, keysNodupW_imp hm h3.2⟩
              · simp only [hc, Bool.false_eq_true, if_false] at h3 ⊢
                exact h3

theorem setOKW_imp {S : Schema} {ft : List (Name × Name)} {td : TypeDef} {sels : List Sel}
    (h : setOKW S ft td sels = true) : setOK S ft td sels = true := by
  simp only [setOKW, Bool.and_eq_true] at h
  simp only [setOK, Bool.and_eq_true]
  have hm := membersOKW_imp S ft _ sels (Nat.le_refl _) td h.1
  exact ⟨hm, keysNodupW_imp hm h.2⟩

/-- **defOKW_imp** — the envelope stated without any assumption on the Go names of fields implies
    the envelope the main theorems use, at every depth of the selections. -/
theorem defOKW_imp (S : Schema) (ft : List (Name × Name)) (df : Def) (h : defOKW S ft df = true) :
    defOK S ft df = true := by
  cases df with
  | op kind name sels =>
    cases name with
    | none => rfl
    | some nm =>
      simp only [defOKW] at h
      simp only [defOK]
      cases hr : rootOf S kind with
      | none => simp [hr] at h
      | some r =>
        simp only [hr] at h ⊢
        cases hl : S.lookup r with
        | none => simp [hl] at h
        | some td =>
          simp only [hl, Bool.and_eq_true] at h ⊢
          exact ⟨h.1, setOKW_imp h.2⟩
  | frag name cond sels =>
    simp only [defOKW] at h
    simp only [defOK]
    cases hl : S.lookup cond with
    | none => simp [hl] at h
    | some td =>
      simp only [hl, Bool.and_eq_true] at h ⊢
      exact ⟨h.1, setOKW_imp h.2⟩

/-- **gen_compiles_in_wording** — the model-level "the output compiles", with every hypothesis a
    decidable condition on the *inputs* in the property's own words plus explicit exclusions: the schema
    lists interfaces that exist (`schemaOK`) and enums with distinct values; every definition of the run
    (as `generateType` sees it) is inside `defOKW` — keys begin with a letter or are `__typename`,
    are distinct ignoring case, no fragment twice in one set, no `__typename`/`typename__` clash, field
    and fragment types as validation guarantees —; and the names pass `identsOK`. Then every declared
    identifier is declared once, referenced identifiers are declared, struct fields are exported and
    distinct at every depth, the generated methods mention declared fields only (`declsWF`), and the
    whole package scope — types and enum constants — is collision-free and free of reserved or shadowed
    names (`pkgScopeWF`). -/
theorem gen_compiles_in_wording (S : Schema) (docs : List Doc) (out : Output)
    (hS : schemaOK S = true) (hec : enumValuesOK S = true)
    (hgen : generate S docs = .ok out)
    (hdocs : ∀ d ∈ docs.map (normalizeDoc S), ∀ df ∈ d.defs, defOKW S (fragTypesOf d.defs) df = true)
    (hI : identsOK S (docNames docs) = true) :
    declsWF out.decls = true ∧ pkgScopeWF out.decls = true :=
  gen_wf_checked S docs out hS hec hgen (fun d hd df hdf => defOKW_imp S _ df (hdocs d hd df hdf)) hI

/-- **decode_preserves_leaves_in_wording** — `decode_preserves_leaves` under the same input-level
    hypotheses. -/
theorem decode_preserves_leaves_in_wording (S : Schema) (docs : List Doc) (out : Output)
    (hS : schemaOK S = true)
    (hgen : generate S docs = .ok out)
    (hdocs : ∀ d ∈ docs.map (normalizeDoc S), ∀ df ∈ d.defs, defOKW S (fragTypesOf d.defs) df = true)
    (hI : identsOK S (docNames docs) = true)
    (doc : Doc) (hdoc : doc ∈ docs) (kind : OpKind) (name : Name) (sels : List Sel)
    (hop : Def.op kind (some name) sels ∈ doc.defs)
    (root : Name) (hroot : rootOf S kind = some root)
    (fuel : Nat) (data : Json) (L : List LeafAt)
    (hL : opLeaves S (fragDefsOf doc.defs) fuel root sels data = some L)
    (hkeys : data.keysOK = true) :
    ∃ v, Decodes out.decls (.named (name ++ n_Data)) data v ∧ ∀ x ∈ L, x ∈ leavesV v :=
  decode_preserves_leaves_checked S docs out hS hgen (fun d hd df hdf => defOKW_imp S _ df (hdocs d hd df hdf)) hI
    doc hdoc kind name sels hop root hroot fuel data L hL hkeys

/-- Non-vacuity: the example operation of Props.lean is inside `defOKW`; the F-20j operation is not. -/
example : (Example.doc.defs.all (defOKW Example.S (fragTypesOf Example.doc.defs))) = true := by decide
example : defOKW Example.S [] (.op .query (some Example.Q)
    [.field none Example.u [.field none n_typename [], .field (some [116, 121, 112, 101, 110, 97, 109, 101, 95, 95]) n_typename []]]) = false := by decide

/-- `..._` (a fragment named `_`) and `... on _` (a type named `_`) are outside `defOKW`: the holder would
    be Go's blank identifier (finding F-20l). `startsWithLetter` also excludes names like `_F`, which the
    tool handles (unexported holders); the harness runs those (corpus `scope-underscore-and-digit-names`). -/
example : selOKW Example.S [([95], Example.A)] (.union Example.U [Example.A, Example.B]) (.spread [95]) = false := by decide
example : selOKW Example.S [] (.union Example.U [Example.A, Example.B]) (.inline (some [95]) []) = false := by decide

end ApiFu.C20
