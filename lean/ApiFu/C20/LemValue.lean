/-
  C20 — decoding a (possibly list-wrapped, possibly nullable) field value: if the base type decodes
  every non-null base value and holds its leaves, the wrapped type `[]…[]*T` does so for every
  value the specification admits.
-/
import ApiFu.C20.LemGen

namespace ApiFu.C20

theorem mem_under {e : PElem} {ls : List LeafAt} {x : LeafAt} : x ∈ under e ls ↔ ∃ y ∈ ls, x = (e :: y.1, y.2) := by
  unfold under
  simp only [List.mem_map]
  constructor
  · rintro ⟨y, hy, rfl⟩; exact ⟨y, hy, rfl⟩
  · rintro ⟨y, hy, rfl⟩; exact ⟨y, hy, rfl⟩

theorem under_subset {e : PElem} {a b : List LeafAt} (h : ∀ x ∈ a, x ∈ b) : ∀ x ∈ under e a, x ∈ under e b := by
  intro x hx
  obtain ⟨y, hy, rfl⟩ := mem_under.mp hx
  exact mem_under.mpr ⟨y, h y hy, rfl⟩

theorem keysOKList_mem {xs : List Json} (h : keysOKList xs = true) : ∀ x ∈ xs, x.keysOK = true := by
  induction xs with
  | nil => intro x hx; cases hx
  | cons y ys ih =>
    simp only [keysOKList, Bool.and_eq_true] at h
    intro x hx
    rcases List.mem_cons.mp hx with rfl | hx
    · exact h.1
    · exact ih h.2 x hx

/-- The decoding goal for one value: it decodes, and the decoded value holds the leaves `L`. -/
def Holds (env : List Decl) (ty : GoTy) (v : Json) (L : List LeafAt) : Prop :=
  ∃ w, Decodes env ty v w ∧ ∀ x ∈ L, x ∈ leavesV w

/-- Elements of a list: decoded pointwise, leaves under their indices. -/
theorem list_holds {env : List Decl} {ty : GoTy} {f : Json → Option (List LeafAt)} :
    ∀ (xs : List Json) (i : Nat) (L : List LeafAt),
      (∀ x ∈ xs, ∀ Lx, f x = some Lx → Holds env ty x Lx) →
      listLeaves f i xs = some L →
      ∃ ws, Forall2 (fun x w => Decodes env ty x w) xs ws ∧ ∀ y ∈ L, y ∈ leavesVList i ws := by
  intro xs
  induction xs with
  | nil =>
    intro i L _ h
    simp [listLeaves] at h
    subst h
    exact ⟨[], .nil, fun y hy => by cases hy⟩
  | cons x xs ih =>
    intro i L hall h
    unfold listLeaves at h
    cases hx : f x with
    | none => simp [hx] at h
    | some a =>
      cases hxs : listLeaves f (i + 1) xs with
      | none => simp [hx, hxs] at h
      | some b =>
        simp [hx, hxs] at h
        subst h
        obtain ⟨w, hw, hcov⟩ := hall x List.mem_cons_self a hx
        obtain ⟨ws, hws, hcovs⟩ := ih (i + 1) b (fun y hy => hall y (List.mem_cons_of_mem _ hy)) hxs
        refine ⟨w :: ws, .cons hw hws, ?_⟩
        intro y hy
        simp only [leavesVList]
        rcases List.mem_append.mp hy with hy | hy
        · exact List.mem_append_left _ (under_subset hcov y hy)
        · exact List.mem_append_right _ (hcovs y hy)

theorem forall2_length {α β : Type} {R : α → β → Prop} : ∀ {xs : List α} {ys : List β}, Forall2 R xs ys → xs.length = ys.length := by
  intro xs ys h
  induction h with
  | nil => rfl
  | cons _ _ ih => simp [ih]

/-- `[]…[]T'` where `T'` is the base type as generated (`T` or `*T`). -/
theorem wrapped_holds {env : List Decl} {base : Json → Option (List LeafAt)} {nonNull : Bool} {tyB : GoTy}
    (hbase : ∀ j L, j.isNull = false → j.keysOK = true → base j = some L → Holds env tyB j L) :
    ∀ (d : Nat) (v : Json) (L : List LeafAt), v.keysOK = true → wrapLeaves base nonNull d v = some L →
      Holds env (wrapSlices d (ptrUnless nonNull tyB)) v L := by
  intro d
  induction d with
  | zero =>
    intro v L hk h
    unfold wrapLeaves at h
    simp only [wrapSlices]
    cases v with
    | null =>
      simp only at h
      cases nonNull with
      | true => simp at h
      | false =>
        simp at h
        subst h
        exact ⟨.nil, by simpa [ptrUnless] using Decodes.ptr_null env tyB, by simp [leavesV]⟩
    | bool b =>
      obtain ⟨w, hw, hc⟩ := hbase _ L rfl hk h
      cases nonNull with
      | true => exact ⟨w, by simpa [ptrUnless] using hw, hc⟩
      | false => exact ⟨.ptr w, by simpa [ptrUnless] using Decodes.ptr hw rfl, by simpa [leavesV] using hc⟩
    | num i t =>
      obtain ⟨w, hw, hc⟩ := hbase _ L rfl hk h
      cases nonNull with
      | true => exact ⟨w, by simpa [ptrUnless] using hw, hc⟩
      | false => exact ⟨.ptr w, by simpa [ptrUnless] using Decodes.ptr hw rfl, by simpa [leavesV] using hc⟩
    | str s =>
      obtain ⟨w, hw, hc⟩ := hbase _ L rfl hk h
      cases nonNull with
      | true => exact ⟨w, by simpa [ptrUnless] using hw, hc⟩
      | false => exact ⟨.ptr w, by simpa [ptrUnless] using Decodes.ptr hw rfl, by simpa [leavesV] using hc⟩
    | arr xs =>
      obtain ⟨w, hw, hc⟩ := hbase _ L rfl hk h
      cases nonNull with
      | true => exact ⟨w, by simpa [ptrUnless] using hw, hc⟩
      | false => exact ⟨.ptr w, by simpa [ptrUnless] using Decodes.ptr hw rfl, by simpa [leavesV] using hc⟩
    | obj ms =>
      obtain ⟨w, hw, hc⟩ := hbase _ L rfl hk h
      cases nonNull with
      | true => exact ⟨w, by simpa [ptrUnless] using hw, hc⟩
      | false => exact ⟨.ptr w, by simpa [ptrUnless] using Decodes.ptr hw rfl, by simpa [leavesV] using hc⟩
  | succ d ih =>
    intro v L hk h
    unfold wrapLeaves at h
    simp only [wrapSlices]
    cases v with
    | null =>
      simp at h
      subst h
      exact ⟨.nil, Decodes.slice_null env _, by simp [leavesV]⟩
    | arr xs =>
      simp only at h
      by_cases hempty : xs.isEmpty = true
      · simp [hempty] at h
        subst h
        have : xs = [] := by simpa using hempty
        subst this
        exact ⟨.slice [], Decodes.slice .nil, by simp [leavesV]⟩
      · simp only [hempty] at h
        have hkl : keysOKList xs = true := by simpa [Json.keysOK] using hk
        obtain ⟨ws, hws, hcov⟩ := list_holds xs 0 L
          (fun x hx Lx hfx => ih x Lx (keysOKList_mem hkl x hx) hfx) (by simpa using h)
        refine ⟨.slice ws, Decodes.slice hws, ?_⟩
        have hne : ws.isEmpty = false := by
          have hl := forall2_length hws
          cases xs with
          | nil => simp at hempty
          | cons a as => cases ws with
            | nil => simp at hl
            | cons b bs => rfl
        simpa [leavesV, hne] using hcov
    | bool b => simp at h
    | num i t => simp at h
    | str s => simp at h
    | obj ms => simp at h

end ApiFu.C20
