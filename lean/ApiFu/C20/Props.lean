/-
  C20 — property theorems about the model of gql-client-gen (`generate`) and of encoding/json into
  the generated types (`decode`), for every schema and every document set inside the envelope.

  Envelope, on the model's syntax (all decidable, see LemCore/LemTop):
    * `schemaOK S`      interfaces listed by object types are declared interfaces;
    * `defOK S ft df`   the definition's root/condition type exists and is composite and its
                        selection set is `setOK`: recursively, every response key begins with a letter
                        (or is the unaliased `__typename`), the Go field names of the members of one
                        selection set are distinct (this excludes the findings F-20d/F-20e) and
                        the response keys are distinct ignoring letter case, a fragment inside an
                        object selection has a type condition the object satisfies, field types are
                        declared (what validation guarantees);
    * `data.keysOK`     in every object of the response, keys are distinct ignoring letter case;
    * `nodupB (out.decls.map Decl.name)`  every declared identifier of the output is declared once
                        (a decidable check on the output; operation, fragment, enum and `sel…`
                        names do not collide — see `gen_wf` below for what is proved about it).
  "`__typename` is selected wherever fragments are applied to an interface or union" needs no
  hypothesis: without it `generate` reports an error (`typename_required`).
-/
import ApiFu.C20.LemTop2

namespace ApiFu.C20

/-! ### Operations that fail validation produce no output -/

/-- **invalid_no_output** — if any `gql(...)` document of the run fails validation (the verdict of
    `graphql.ParseAndValidate` is a parameter of the model), `Generate` returns errors, among them a
    validation error, and — by the type of the result — no output at all, not even for the valid
    documents of the same run. -/
theorem invalid_no_output (S : Schema) (docs : List Doc) (h : ∃ d ∈ docs, d.valid = false) :
    ∃ errs, generate S docs = .error errs ∧ Err.validation ∈ errs := by
  have hm := processDocs_validation_mem S docs {} h
  unfold generate
  cases he : (processDocs S docs {}).1 with
  | nil => rw [he] at hm; cases hm
  | cons e es => exact ⟨e :: es, by simp [he], by rw [← he]; exact hm⟩

/-- Non-vacuity: a run with one valid and one invalid document yields exactly the validation error. -/
example :
    (match generate { types := [.object [81] [([97], .named n_Int)] [], .scalar n_Int], query := [81], mutation := none, subscription := none }
        [{ valid := true, defs := [.op .query (some [65]) [.field none [97] []]] }, { valid := false, defs := [] }] with
     | .error es => es == [.validation]
     | .ok _ => false) = true := by decide

/-- **errors_no_output** — more generally: whenever any definition of the run is refused (validation
    error, missing `__typename`), nothing is emitted. -/
theorem errors_no_output (S : Schema) (docs : List Doc) (h : (processDocs S docs {}).1 ≠ []) :
    generate S docs = .error (processDocs S docs {}).1 := by
  unfold generate
  cases he : (processDocs S docs {}).1 with
  | nil => exact absurd he h
  | cons e es => simp [he]

/-- **typename_required** — a selection set on an interface or union that applies a fragment without
    selecting `__typename` directly is refused by the generator (so the envelope's "selects
    `__typename` wherever it applies fragments to an interface or union" is what the tool itself
    demands; nothing uncompilable is emitted for such operations). -/
theorem typename_required (S : Schema) (ft : List (Name × Name)) (td : TypeDef) (hobj : td.isObject = false)
    (sels : List Sel) (htn : typenameFieldOf sels = none) (hfrag : ∃ s ∈ sels, isFieldSel s = false)
    (fields : Fields) (conds : Conds) (st : St) :
    ∃ e, genSels S ft td (typenameFieldOf sels).isSome sels fields conds st = .error e := by
  rw [htn]
  simp only [Option.isSome_none]
  induction sels generalizing fields conds st with
  | nil => obtain ⟨s, hs, _⟩ := hfrag; cases hs
  | cons s rest ih =>
    unfold genSels
    cases hstep : genSel S ft td false s fields conds st with
    | error e => exact ⟨e, rfl⟩
    | ok r =>
      obtain ⟨f1, c1, st1⟩ := r
      simp only
      obtain ⟨s', hs', hf'⟩ := hfrag
      rcases List.mem_cons.mp hs' with rfl | hs'
      · exfalso
        cases s' with
        | field a n ss => simp [isFieldSel] at hf'
        | inline c ss => simp [genSel, hobj] at hstep
        | spread f => simp [genSel, hobj] at hstep
      · have htn' : typenameFieldOf rest = none := by
          cases s with
          | field a n ss =>
            unfold typenameFieldOf at htn
            split at htn
            · cases htn
            · exact htn
          | inline c ss => unfold typenameFieldOf at htn; exact htn
          | spread f => unfold typenameFieldOf at htn; exact htn
        exact ih htn' ⟨s', hs', hf'⟩ f1 c1 st1

/-! ### Decoding the server's response -/

/-- **decode_preserves_leaves** — for every schema, every run of the generator over documents inside
    the envelope that produced output `out`, every named operation `name` of the run, and every JSON
    value `data` that is a response to that operation (`opLeaves … = some L`: the shape the selection
    demands, nulls only where the type allows them, `__typename` naming a possible type, fragments
    unfolded to any depth `fuel`), whose objects have keys distinct ignoring letter case:

      `json.Unmarshal(data, &v)` with `v : <name>Data` succeeds in the model of encoding/json over the
      generated declarations, and the decoded value holds *every selected leaf* of the response —
      scalars, enum values, nulls, empty lists, list items by index, and the fields of every
      type-conditioned fragment (inline or named) whose type condition covers the object's
      `__typename` — at its path, with the value the server sent.

    (The full statement `leaves v = leaves data` of DESIGN.md is restricted to the *selected* leaves:
    a response object may carry members merged in from sibling fragments that a given struct has no
    field for; they are held by the sibling's holder, which this theorem covers as well.) -/
theorem decode_preserves_leaves (S : Schema) (docs : List Doc) (out : Output)
    (hS : schemaOK S = true)
    (hgen : generate S docs = .ok out)
    (hdocs : ∀ d ∈ docs, ∀ df ∈ d.defs, defOK S (fragTypesOf d.defs) df = true)
    (hnames : nodupB (out.decls.map Decl.name) = true)
    (doc : Doc) (hdoc : doc ∈ docs) (kind : OpKind) (name : Name) (sels : List Sel)
    (hop : Def.op kind (some name) sels ∈ doc.defs)
    (root : Name) (hroot : rootOf S kind = some root)
    (fuel : Nat) (data : Json) (L : List LeafAt)
    (hL : opLeaves S (fragDefsOf doc.defs) fuel root sels data = some L)
    (hkeys : data.keysOK = true) :
    ∃ v, Decodes out.decls (.named (name ++ n_Data)) data v ∧ ∀ x ∈ L, x ∈ leavesV v := by
  have henv : EnvOK out.decls := envOK_of_nodup hnames
  -- the run had no errors and `out.decls` is the final state
  unfold generate at hgen
  simp only at hgen
  split at hgen
  · rename_i herr
    injection hgen with hgen
    have hdecls : out.decls = (processDocs S docs {}).2.decls := by rw [← hgen]
    have herr' : (processDocs S docs {}).1 = [] := by simpa using herr
    have hinv0 : EnumInv ({} : St) := by intro n hn; cases hn
    obtain ⟨_, _, _, hsem⟩ := processDocs_good hS henv docs {} hdocs herr' hinv0
    have hall := (hsem (by intro d hd; rw [hdecls]; exact hd)).1 doc hdoc
    have hfragHyp := fragHyp_fragLeaves (S := S) (env := out.decls) (defs := doc.defs) hall fuel
    obtain ⟨r, td, ty, fwd, hr, hlk, hdecl, hlevel⟩ := hall _ hfragHyp _ hop
    rw [hroot] at hr
    injection hr with hr
    subst hr
    unfold opLeaves at hL
    rw [hlk] at hL
    cases td with
    | object n fs is =>
      cases data with
      | obj kvs =>
        simp only at hL
        have hn : n = root := Schema.lookup_name hlk
        subst hn
        obtain ⟨hkd, hko⟩ := keysOK_obj hkeys
        obtain ⟨ws, hd, hcov⟩ := hlevel n kvs L (fun _ => by simp [possible, TypeDef.name, hlk]) hL hkd hko
        exact ⟨.struct ws, Decodes.typedef hdecl hd, by simpa [leavesV] using hcov⟩
      | _ => simp at hL
    | _ => simp at hL
  · cases hgen

/-! ### The output is well-formed (the model-level "compiles") -/

/-- **gen_wf_partial** — for every run over documents inside the envelope that produced output, with
    enum constants that do not collide (`enumValuesOK`, excludes F-20f) and provided the declared
    identifiers of the output are pairwise distinct (`hnames`), the output is well-formed
    (`declsWF`): every identifier a type expression mentions — enum types, `sel…` types, the
    `<F>Fragment` type of every spread fragment — is declared; in every struct (of every `sel…` type,
    of every `<Op>Data`/`<F>Fragment` type, at every nesting depth) the field names are exported and
    pairwise distinct; and every statement of every generated `UnmarshalJSON` unmarshals into a
    declared field and, when it is a `switch`, switches on a declared field of type `string` (the
    field `__typename` was selected into, whatever its alias).

    Full statement (DESIGN.md `gen_wf`): the same without `hnames`, see `gen_wf`, which needs
    hypotheses on the names (operation/fragment names distinct, no enum/operation/fragment-derived
    name beginning with `sel`). `hnames` is a decidable check on the output. -/
theorem gen_wf_partial (S : Schema) (docs : List Doc) (out : Output)
    (hS : schemaOK S = true) (hec : enumValuesOK S = true)
    (hgen : generate S docs = .ok out)
    (hdocs : ∀ d ∈ docs, ∀ df ∈ d.defs, defOK S (fragTypesOf d.defs) df = true)
    (hnames : nodupB (out.decls.map Decl.name) = true) :
    declsWF out.decls = true := by
  have henv : EnvOK out.decls := envOK_of_nodup hnames
  unfold generate at hgen
  simp only at hgen
  split at hgen
  · rename_i herr
    injection hgen with hgen
    have hdecls : out.decls = (processDocs S docs {}).2.decls := by rw [← hgen]
    have herr' : (processDocs S docs {}).1 = [] := by simpa using herr
    have hinv0 : EnumInv ({} : St) := by intro n hn; cases hn
    obtain ⟨_, _, htd, hsem⟩ := processDocs_good hS henv docs {} hdocs herr' hinv0
    have hstatic := (hsem (by intro d hd; rw [hdecls]; exact hd)).2
    have hfn : ∀ doc ∈ docs, FragNames (fragTypesOf doc.defs) (out.decls.map Decl.name) := by
      intro doc hdoc f hf
      obtain ⟨c, ss, hmem⟩ := fragTypes_any hf
      have := htd doc hdoc _ hmem
      rw [hdecls]
      exact this
    have hst := hstatic hfn hec (by intro d hd; cases hd)
    simp only [declsWF, Bool.and_eq_true, hnames, true_and]
    apply List.all_eq_true.mpr
    intro d hd
    rw [hdecls] at hd
    exact hst d hd
  · cases hgen

/-- **gen_names_unique** — under the naming assumptions `NamesHyp` (no enum name and no
    `<Op>Data`/`<F>Fragment` name begins with `sel`; enum names differ from the `…Data`/`…Fragment`
    names) and with the `…Data`/`…Fragment` names of the run pairwise distinct, every identifier of the
    output is declared exactly once. The proof needs that `"sel" + typeName + "_" + itoa(counter)` is
    injective in the counter (`sel_name_inj`): the separator of fix 04 makes it so for *all* type names;
    before the fix it failed for type names ending in a digit (finding F-20g: `Node`, `Node1` both gave
    `selNode10`), which the first attempt at this proof exposed. -/
theorem gen_names_unique (S : Schema) (docs : List Doc) (out : Output)
    (hS : schemaOK S = true)
    (hgen : generate S docs = .ok out)
    (hdocs : ∀ d ∈ docs, ∀ df ∈ d.defs, defOK S (fragTypesOf d.defs) df = true)
    (hN : NamesHyp S (docNames docs)) (hnd : (docNames docs).Nodup) :
    nodupB (out.decls.map Decl.name) = true := by
  unfold generate at hgen
  simp only at hgen
  split at hgen
  · rename_i herr
    injection hgen with hgen
    have hdecls : out.decls = (processDocs S docs {}).2.decls := by rw [← hgen]
    have herr' : (processDocs S docs {}).1 = [] := by simpa using herr
    have hinv0 : EnumInv ({} : St) := by intro n hn; cases hn
    have h0 : NameInv S [] ({} : St) := ⟨List.nodup_nil, fun d hd => (nomatch hd)⟩
    have := processDocs_names hS hN docs {} [] hdocs herr' hinv0 (by simp) (by simpa using hnd) h0
    rw [hdecls]
    exact (nodupB_iff _).mpr this.1
  · cases hgen

/-- **gen_wf** — the generated declarations are well-formed (the model-level "the output compiles"),
    for every run over documents inside the envelope under the naming assumptions: every declared
    identifier is declared exactly once, every referenced identifier is declared, struct fields are
    exported and pairwise distinct at every depth, and every statement of every generated
    `UnmarshalJSON` names a declared field and switches on a declared `string` field. -/
theorem gen_wf (S : Schema) (docs : List Doc) (out : Output)
    (hS : schemaOK S = true) (hec : enumValuesOK S = true)
    (hgen : generate S docs = .ok out)
    (hdocs : ∀ d ∈ docs, ∀ df ∈ d.defs, defOK S (fragTypesOf d.defs) df = true)
    (hN : NamesHyp S (docNames docs)) (hnd : (docNames docs).Nodup) :
    declsWF out.decls = true :=
  gen_wf_partial S docs out hS hec hgen hdocs (gen_names_unique S docs out hS hgen hdocs hN hnd)

/-- **decode_preserves_leaves_of_naming** — `decode_preserves_leaves` with the distinctness of the declared
    identifiers discharged from the naming assumptions. -/
theorem decode_preserves_leaves_of_naming (S : Schema) (docs : List Doc) (out : Output)
    (hS : schemaOK S = true)
    (hgen : generate S docs = .ok out)
    (hdocs : ∀ d ∈ docs, ∀ df ∈ d.defs, defOK S (fragTypesOf d.defs) df = true)
    (hN : NamesHyp S (docNames docs)) (hnd : (docNames docs).Nodup)
    (doc : Doc) (hdoc : doc ∈ docs) (kind : OpKind) (name : Name) (sels : List Sel)
    (hop : Def.op kind (some name) sels ∈ doc.defs)
    (root : Name) (hroot : rootOf S kind = some root)
    (fuel : Nat) (data : Json) (L : List LeafAt)
    (hL : opLeaves S (fragDefsOf doc.defs) fuel root sels data = some L)
    (hkeys : data.keysOK = true) :
    ∃ v, Decodes out.decls (.named (name ++ n_Data)) data v ∧ ∀ x ∈ L, x ∈ leavesV v :=
  decode_preserves_leaves S docs out hS hgen hdocs (gen_names_unique S docs out hS hgen hdocs hN hnd)
    doc hdoc kind name sels hop root hroot fuel data L hL hkeys

/-- F-20g before fix 04, in the model: without a separator the names of the 11th sel type on `Node`
    and of the first one on `Node1` coincide; with the separator they differ. -/
example : n_sel ++ [78, 111, 100, 101] ++ natDigits 10 = n_sel ++ [78, 111, 100, 101, 49] ++ natDigits 0 := by decide
example : n_sel ++ [78, 111, 100, 101] ++ [95] ++ natDigits 10 ≠ n_sel ++ [78, 111, 100, 101, 49] ++ [95] ++ natDigits 0 := by decide

/-- F-20f after fix 05, in the model: `RED` and `red` get distinct constants `ColorRed`, `Color_red`. -/
example : (enumConsts [67] [[114, 101, 100], [82, 69, 68]]).map (fun c => c.1) = [[67, 82, 101, 100], [67, 95, 114, 101, 100]] := by decide

/-! ### Non-vacuity of `decode_preserves_leaves`

  `query Q { u { t: __typename ... on A { x } ...F } }  fragment F on B { y }` over
  `union U = A | B`, `A { x: Int }`, `B { y: [String!] }`, with the response
  `{"u": {"t": "B", "y": ["s"]}}`: every hypothesis of the theorem holds, and the selected leaves are
  the aliased type name and the list item reached through the *named* fragment. -/

namespace Example

def A : Name := [65]
def B : Name := [66]
def U : Name := [85]
def Q : Name := [81]
def F : Name := [70]
def u : Name := [117]
def x : Name := [120]
def y : Name := [121]
def t : Name := [116]

def S : Schema :=
  { types := [ .object Q [(u, .named U)] [],
               .union U [A, B],
               .object A [(x, .named n_Int)] [],
               .object B [(y, .list (.nonNull (.named n_String)))] [],
               .scalar n_Int, .scalar n_String ],
    query := Q, mutation := none, subscription := none }

def sels : List Sel :=
  [.field none u [.field (some t) n_typename [], .inline (some A) [.field none x []], .spread F]]

def doc : Doc := { valid := true, defs := [.op .query (some Q) sels, .frag F B [.field none y []]] }

def data : Json := .obj [.mk u (.obj [.mk t (.str B), .mk y (.arr [.str [115]])])]

def expected : List LeafAt :=
  [([.key u, .key t], .str B), ([.key u, .key y, .idx 0], .str [115])]

example : schemaOK S = true := by decide
example : (doc.defs.all (defOK S (fragTypesOf doc.defs))) = true := by decide
example : (match generate S [doc] with
    | .ok out => nodupB (out.decls.map Decl.name) && out.decls.length == 3
    | .error _ => false) = true := by decide
example : enumValuesOK S = true := by decide
example : (match generate S [doc] with
    | .ok out => declsWF out.decls
    | .error _ => false) = true := by decide
example : (docNames [doc]).Nodup := by decide
example : NamesHyp S (docNames [doc]) where
  enumNoSel := by intro nm vs h; simp [S] at h
  tdNoSel := by decide
  enumNotTd := by intro nm vs h; simp [S] at h
example : data.keysOK = true := by decide
example : opLeaves S (fragDefsOf doc.defs) 1 Q sels data = some expected := by decide

end Example

end ApiFu.C20
