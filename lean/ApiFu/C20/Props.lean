/-
  C20 — property theorems about the model of gql-client-gen (`generate`) and of encoding/json into
  the generated types (`decode`), for every schema and every document set inside the envelope.

  Envelope, on the model's syntax (all decidable, see LemCore/LemTop):
    * `schemaOK S`      interfaces listed by object types are declared interfaces;
    * `defOK S ft df`   the definition's root/condition type exists and is composite and its
                        selection set is `setOK`: recursively, every response key begins with a letter
                        (or is the unaliased `__typename`), the Go field names of the members of one
                        selection set are distinct — since fix 06 this is asked of the *fields* only, the holders' names are
                        kept apart by the generator (`holders_distinct`); no fragment is spread twice in one set — and
                        the response keys are distinct ignoring letter case, a fragment inside an
                        object selection has a type condition the object satisfies, field types are
                        declared (what validation guarantees);
    * `data.keysOK`     in every object of the response, keys are distinct ignoring letter case;
    * `nodupB (out.decls.map Decl.name)`  every declared identifier of the output is declared once
                        (a decidable check on the output; operation, fragment, enum and `sel…`
                        names do not collide — see `gen_wf` below for what is proved about it).
  "`__typename` is selected wherever fragments are applied to an interface or union" needs no
  hypothesis: without it `generate` reports an error (`typename_required`).
-/
import ApiFu.C20.LemFinal
import ApiFu.C20.LemMerge

namespace ApiFu.C20

/-! ### Operations that fail validation produce no output -/

/-- **invalid_no_output** — if any `gql(...)` document of the run fails validation (the verdict of
    `graphql.ParseAndValidate` is a parameter of the model), `Generate` returns errors, among them a
    validation error, and — by the type of the result — no output at all, not even for the valid
    documents of the same run. -/
theorem invalid_no_output (S : Schema) (docs : List Doc) (h : ∃ d ∈ docs, d.valid = false) :
    ∃ errs, generate S docs = .error errs ∧ Err.validation ∈ errs := by
  obtain ⟨d, hd, hv⟩ := h
  exact invalid_no_output_merged S _ ⟨normalizeDoc S d, List.mem_map.mpr ⟨d, hd, rfl⟩, by simpa [normalizeDoc] using hv⟩

/-- Non-vacuity: a run with one valid and one invalid document yields exactly the validation error. -/
example :
    (match generate { types := [.object [81] [([97], .named n_Int)] [], .scalar n_Int], query := [81], mutation := none, subscription := none }
        [{ valid := true, defs := [.op .query (some [65]) [.field none [97] []]] }, { valid := false, defs := [] }] with
     | .error es => es == [.validation]
     | .ok _ => false) = true := by decide

/-- **errors_no_output** — more generally: whenever any definition of the run is refused (validation
    error, missing `__typename`), nothing is emitted. -/
theorem errors_no_output (S : Schema) (docs : List Doc)
    (h : (processDocs S (docs.map (normalizeDoc S)) {}).1 ≠ []) :
    generate S docs = .error (processDocs S (docs.map (normalizeDoc S)) {}).1 :=
  errors_no_output_merged S _ h

/-- **typename_required** — a selection set on an interface or union that applies a fragment without
    selecting `__typename` directly is refused by the generator (so the envelope's "selects
    `__typename` wherever it applies fragments to an interface or union" is what the tool itself
    demands; nothing uncompilable is emitted for such operations). -/
theorem typename_required (S : Schema) (ft : List (Name × Name)) (td : TypeDef) (tbl : HolderTable) (hobj : td.isObject = false)
    (sels : List Sel) (htn : typenameFieldOf sels = none) (hfrag : ∃ s ∈ sels, isFieldSel s = false)
    (fields : Fields) (conds : Conds) (st : St) :
    ∃ e, genSels S ft td tbl (typenameFieldOf sels).isSome sels fields conds st = .error e := by
  rw [htn]
  simp only [Option.isSome_none]
  induction sels generalizing fields conds st with
  | nil => obtain ⟨s, hs, _⟩ := hfrag; cases hs
  | cons s rest ih =>
    unfold genSels
    cases hstep : genSel S ft td tbl false s fields conds st with
    | error e => exact ⟨e, rfl⟩
    | ok r =>
      obtain ⟨f1, c1, st1⟩ := r
      simp only
      obtain ⟨s', hs', hf'⟩ := hfrag
      rcases List.mem_cons.mp hs' with rfl | hs'
      · exfalso
        cases s' with
        | field a n ss => simp [isFieldSel] at hf'
        | inline c ss => simp [genSel, hobj] at hstep
        | spread f => simp [genSel, hobj] at hstep
      · have htn' : typenameFieldOf rest = none := by
          cases s with
          | field a n ss =>
            unfold typenameFieldOf at htn
            split at htn
            · cases htn
            · exact htn
          | inline c ss => unfold typenameFieldOf at htn; exact htn
          | spread f => unfold typenameFieldOf at htn; exact htn
        exact ih htn' ⟨s', hs', hf'⟩ f1 c1 st1

/-! ### The output is well-formed (the model-level "compiles")

  Hypotheses are stated on the documents *as `generateType` sees them* (`normalizeDoc`: inline
  fragments with the same type condition merged, fix 07); they are decidable. -/

/-- **gen_names_unique** — under the naming assumptions `NamesHyp` (no enum name and no
    `<Op>Data`/`<F>Fragment` name begins with `sel`; enum names differ from the `…Data`/`…Fragment`
    names) and with the `…Data`/`…Fragment` names of the run pairwise distinct, every identifier of the
    output is declared exactly once. The proof needs that `"sel" + typeName + "_" + itoa(counter)` is
    injective in the counter (`sel_name_inj`): the separator of fix 04 makes it so for *all* type names;
    before the fix it failed for type names ending in a digit (finding F-20g: `Node`, `Node1` both gave
    `selNode10`), which the first attempt at this proof exposed. -/
theorem gen_names_unique (S : Schema) (docs : List Doc) (out : Output)
    (hS : schemaOK S = true)
    (hgen : generate S docs = .ok out)
    (hdocs : ∀ d ∈ docs.map (normalizeDoc S), ∀ df ∈ d.defs, defOK S (fragTypesOf d.defs) df = true)
    (hN : NamesHyp S (docNames docs)) (hnd : (docNames docs).Nodup) :
    nodupB (out.decls.map Decl.name) = true :=
  gen_names_unique_merged S _ out hS hgen hdocs (by rw [docNames_normalize]; exact hN) (by rw [docNames_normalize]; exact hnd)

/-- **gen_wf** — the generated declarations are well-formed (the model-level "the output compiles"),
    for every run over documents inside the envelope under the naming assumptions: every declared
    identifier is declared exactly once, every referenced identifier (enum, `sel…`, `<F>Fragment`) is
    declared, struct fields are exported and pairwise distinct at every depth — including the fragment
    holders, whose names fix 06 keeps apart from the fields' (`holders_distinct`) —, enum constants are
    pairwise distinct (fix 05, `enumConsts_nodup`), and every statement of every generated
    `UnmarshalJSON` names a declared field and switches on a declared `string` field. -/
theorem gen_wf (S : Schema) (docs : List Doc) (out : Output)
    (hS : schemaOK S = true) (hec : enumValuesOK S = true)
    (hgen : generate S docs = .ok out)
    (hdocs : ∀ d ∈ docs.map (normalizeDoc S), ∀ df ∈ d.defs, defOK S (fragTypesOf d.defs) df = true)
    (hN : NamesHyp S (docNames docs)) (hnd : (docNames docs).Nodup) :
    declsWF out.decls = true :=
  gen_wf_merged S _ out hS hec hgen hdocs (by rw [docNames_normalize]; exact hN) (by rw [docNames_normalize]; exact hnd)

/-- **gen_wf_partial** — `gen_wf` with "the declared identifiers are pairwise distinct" as a
    (decidable) hypothesis on the output instead of the naming assumptions. -/
theorem gen_wf_partial (S : Schema) (docs : List Doc) (out : Output)
    (hS : schemaOK S = true) (hec : enumValuesOK S = true)
    (hgen : generate S docs = .ok out)
    (hdocs : ∀ d ∈ docs.map (normalizeDoc S), ∀ df ∈ d.defs, defOK S (fragTypesOf d.defs) df = true)
    (hnames : nodupB (out.decls.map Decl.name) = true) :
    declsWF out.decls = true :=
  gen_wf_partial_merged S _ out hS hec hgen hdocs hnames

/-! ### Decoding the server's response -/

/-- **decode_preserves_leaves_normalized** — for every schema, every run of the generator over
    documents inside the envelope that produced output `out`, every named operation `name` of the run
    with its selections `sels` as merged by fix 07, and every JSON value `data` that is a response to
    it (`opLeaves … = some L`) whose objects have keys distinct ignoring letter case:
    `json.Unmarshal(data, &v)` with `v : <name>Data` succeeds in the model of encoding/json over the
    generated declarations and the decoded value holds every selected leaf — scalars, enum values,
    nulls, empty lists, list items by index, and the fields of every type-conditioned fragment (inline
    or named) whose type condition covers the object's `__typename` — at its path, with the value the
    server sent. -/
theorem decode_preserves_leaves_normalized (S : Schema) (docs : List Doc) (out : Output)
    (hS : schemaOK S = true)
    (hgen : generate S docs = .ok out)
    (hdocs : ∀ d ∈ docs.map (normalizeDoc S), ∀ df ∈ d.defs, defOK S (fragTypesOf d.defs) df = true)
    (hN : NamesHyp S (docNames docs)) (hnd : (docNames docs).Nodup)
    (doc : Doc) (hdoc : doc ∈ docs.map (normalizeDoc S)) (kind : OpKind) (name : Name) (sels : List Sel)
    (hop : Def.op kind (some name) sels ∈ doc.defs)
    (root : Name) (hroot : rootOf S kind = some root)
    (fuel : Nat) (data : Json) (L : List LeafAt)
    (hL : opLeaves S (fragDefsOf doc.defs) fuel root sels data = some L)
    (hkeys : data.keysOK = true) :
    ∃ v, Decodes out.decls (.named (name ++ n_Data)) data v ∧ ∀ x ∈ L, x ∈ leavesV v :=
  decode_preserves_leaves_of_naming_merged S _ out hS hgen hdocs
    (by rw [docNames_normalize]; exact hN) (by rw [docNames_normalize]; exact hnd)
    doc hdoc kind name sels hop root hroot fuel data L hL hkeys

/-- **decode_preserves_leaves** — the property, for the operation *as written*: for every schema,
    every run of the generator over documents inside the envelope that produced output `out`, every
    named operation `name` of a document of the run with selections `sels`, and every JSON value `data`
    that is a response to it (`opLeaves … = some L` on the original selections and the original
    fragment definitions: the shape the selection demands, nulls only where the type allows them,
    `__typename` naming a possible type, fragments unfolded to any depth `fuel`), whose objects have
    keys distinct ignoring letter case: `json.Unmarshal(data, &v)` with `v : <name>Data` succeeds in the
    model of encoding/json over the generated declarations, and the decoded value holds *every
    selected leaf* of the response — scalars, enum values, nulls, empty lists, list items by index, and
    the fields of every type-conditioned fragment (inline or named, also several inline fragments on
    the same type — fix 07) whose type condition covers the object's `__typename` — at its path, with
    the value the server sent.

    The envelope hypotheses `hdocs` are decidable conditions on the documents as `generateType` sees
    them (`normalizeDoc`). (The full statement `leaves v = leaves data` of DESIGN.md is restricted to
    the *selected* leaves: a response object may carry members merged in from sibling fragments that
    a given struct has no field for; they are held by the sibling's holder, which this theorem covers.) -/
theorem decode_preserves_leaves (S : Schema) (docs : List Doc) (out : Output)
    (hS : schemaOK S = true)
    (hgen : generate S docs = .ok out)
    (hdocs : ∀ d ∈ docs.map (normalizeDoc S), ∀ df ∈ d.defs, defOK S (fragTypesOf d.defs) df = true)
    (hN : NamesHyp S (docNames docs)) (hnd : (docNames docs).Nodup)
    (doc : Doc) (hdoc : doc ∈ docs) (kind : OpKind) (name : Name) (sels : List Sel)
    (hop : Def.op kind (some name) sels ∈ doc.defs)
    (root : Name) (hroot : rootOf S kind = some root)
    (fuel : Nat) (data : Json) (L : List LeafAt)
    (hL : opLeaves S (fragDefsOf doc.defs) fuel root sels data = some L)
    (hkeys : data.keysOK = true) :
    ∃ v, Decodes out.decls (.named (name ++ n_Data)) data v ∧ ∀ x ∈ L, x ∈ leavesV v := by
  obtain ⟨td, L', hlk, hL', hsub⟩ := opLeaves_normalize doc.defs fuel root sels data L hL
  have hop' : Def.op kind (some name) (normalize S (selsDepth sels + 1) td sels) ∈ (normalizeDoc S doc).defs := by
    simp only [normalizeDoc]
    refine List.mem_map.mpr ⟨_, hop, ?_⟩
    simp [normalizeDef, hroot, hlk]
  obtain ⟨v, hv, hcov⟩ := decode_preserves_leaves_normalized S docs out hS hgen hdocs hN hnd
    (normalizeDoc S doc) (List.mem_map.mpr ⟨doc, hdoc, rfl⟩) kind name _ hop' root hroot fuel data L'
    (by simpa [normalizeDoc] using hL') hkeys
  exact ⟨v, hv, fun x hx => hcov x (hsub x hx)⟩

/-- **enum_type_names_not_reserved** — the Go identifier of an enum type (fix 08) is never a Go keyword,
    a predeclared identifier or `json`: a generated `type int string` can no longer shadow the `int`
    the struct fields of GraphQL `Int` fields refer to, and `type type string` is no longer emitted.
    (All other generated identifiers contain an upper-case letter or end in `Data`, `Fragment` or
    `_<n>`, hence are never reserved; this is what makes the model's distinction between the built-in
    types and `GoTy.named` faithful.) -/
theorem enum_type_names_not_reserved (n : Name) : goReserved.contains (goTypeName n) = false := by
  unfold goTypeName
  by_cases h : goReserved.contains n = true
  · simp only [h, if_true]
    have hall : goReserved.all (fun r => !goReserved.contains (r ++ [95])) = true := by decide
    have := List.all_eq_true.mp hall n (by simpa using h)
    simpa using this
  · have h' : goReserved.contains n = false := by simpa using h
    rw [if_neg h]
    exact h'

/-- `type`, `int` and `json` are escaped, `Color` is not. -/
example : goTypeName [116, 121, 112, 101] = [116, 121, 112, 101, 95] ∧ goTypeName [105, 110, 116] = [105, 110, 116, 95] ∧
    goTypeName [106, 115, 111, 110] = [106, 115, 111, 110, 95] ∧ goTypeName [67, 111, 108, 111, 114] = [67, 111, 108, 111, 114] := by
  decide

/-- F-20g before fix 04, in the model: without a separator the names of the 11th sel type on `Node`
    and of the first one on `Node1` coincide; with the separator they differ. -/
example : n_sel ++ [78, 111, 100, 101] ++ natDigits 10 = n_sel ++ [78, 111, 100, 101, 49] ++ natDigits 0 := by decide
example : n_sel ++ [78, 111, 100, 101] ++ [95] ++ natDigits 10 ≠ n_sel ++ [78, 111, 100, 101, 49] ++ [95] ++ natDigits 0 := by decide

/-- F-20f after fix 05, in the model: `RED` and `red` get distinct constants `ColorRed`, `Color_red`. -/
example : (enumConsts [67] [[114, 101, 100], [82, 69, 68]]).map (fun c => c.1) = [[67, 82, 101, 100], [67, 95, 114, 101, 100]] := by decide

/-! ### Non-vacuity of `decode_preserves_leaves`

  `query Q { u { t: __typename ... on A { x } ...F } }  fragment F on B { y }` over
  `union U = A | B`, `A { x: Int }`, `B { y: [String!] }`, with the response
  `{"u": {"t": "B", "y": ["s"]}}`: every hypothesis of the theorem holds, and the selected leaves are
  the aliased type name and the list item reached through the *named* fragment. -/

namespace Example

def A : Name := [65]
def B : Name := [66]
def U : Name := [85]
def Q : Name := [81]
def F : Name := [70]
def u : Name := [117]
def x : Name := [120]
def y : Name := [121]
def t : Name := [116]

def S : Schema :=
  { types := [ .object Q [(u, .named U)] [],
               .union U [A, B],
               .object A [(x, .named n_Int)] [],
               .object B [(y, .list (.nonNull (.named n_String)))] [],
               .scalar n_Int, .scalar n_String ],
    query := Q, mutation := none, subscription := none }

def sels : List Sel :=
  [.field none u [.field (some t) n_typename [], .inline (some A) [.field none x []], .spread F]]

def doc : Doc := { valid := true, defs := [.op .query (some Q) sels, .frag F B [.field none y []]] }

def data : Json := .obj [.mk u (.obj [.mk t (.str B), .mk y (.arr [.str [115]])])]

def expected : List LeafAt :=
  [([.key u, .key t], .str B), ([.key u, .key y, .idx 0], .str [115])]

example : schemaOK S = true := by decide
example : (doc.defs.all (defOK S (fragTypesOf doc.defs))) = true := by decide
example : (match generate S [doc] with
    | .ok out => nodupB (out.decls.map Decl.name) && out.decls.length == 3
    | .error _ => false) = true := by decide
example : enumValuesOK S = true := by decide
example : (match generate S [doc] with
    | .ok out => declsWF out.decls
    | .error _ => false) = true := by decide
example : (docNames [doc]).Nodup := by decide
example : NamesHyp S (docNames [doc]) where
  enumNoSel := by intro nm vs h; simp [S] at h
  tdNoSel := by decide
  enumNotTd := by intro nm vs h; simp [S] at h
  enumEscInj := by intro nm vs nm' vs' h; simp [S] at h
example : data.keysOK = true := by decide
example : opLeaves S (fragDefsOf doc.defs) 1 Q sels data = some expected := by decide

/-! The former findings F-20d and F-20e are inside the theorems' hypotheses now:
    `query Q { u { __typename ... on A { x } a: __typename } }` (the key `a` and the holder of
    `... on A` both want the Go name `A`; the holder becomes `A_`) and
    `query Q { u { __typename ... on A { x } ... on A { z: x } } }` (merged into one holder). -/

def docD : Doc := { valid := true, defs := [.op .query (some Q)
  [.field none u [.field none n_typename [], .inline (some A) [.field none x []], .field (some [97]) n_typename []]]] }

def docE : Doc := { valid := true, defs := [.op .query (some Q)
  [.field none u [.field none n_typename [], .inline (some A) [.field none x []], .inline (some A) [.field (some [122]) x []]]]] }

example : ((normalizeDoc S docD).defs.all (defOK S (fragTypesOf (normalizeDoc S docD).defs))) = true := by decide
example : ((normalizeDoc S docE).defs.all (defOK S (fragTypesOf (normalizeDoc S docE).defs))) = true := by decide
example : (match generate S [docD] with
    | .ok out => declsWF out.decls
    | .error _ => false) = true := by decide
example : (match generate S [docE] with
    | .ok out => declsWF out.decls
    | .error _ => false) = true := by decide
example : (normalizeDoc S docE).defs = [.op .query (some Q)
    [.field none u [.field none n_typename [], .inline (some A) [.field none x [], .field (some [122]) x []]]]] := by rfl

/-- The F-20e operation as written, a response to it, and the leaves it selects — both fragments'. -/
def dataE : Json := .obj [.mk u (.obj [.mk n_typename (.str A), .mk x (.num true [49]), .mk [122] (.num true [49])])]

example : dataE.keysOK = true := by decide
example : (match docE.defs with
    | [.op _ _ sels] => opLeaves S (fragDefsOf docE.defs) 0 Q sels dataE
    | _ => none) =
    some [([.key u, .key n_typename], .str A), ([.key u, .key x], .num [49]), ([.key u, .key [122]], .num [49])] := by decide

end Example

end ApiFu.C20
