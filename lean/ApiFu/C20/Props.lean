/-
  C20 — property theorems about the model of gql-client-gen (`generate`) and of encoding/json into
  the generated types (`decode`), for every schema and every document set inside the envelope.

  Envelope, on the model's syntax (all decidable, see LemCore/LemTop):
    * `schemaOK S`      interfaces listed by object types are declared interfaces;
    * `defOK S ft df`   the definition's root/condition type exists and is composite and its
                        selection set is `setOK`: recursively, every response key begins with a letter
                        (or is the unaliased `__typename`), the Go field names of the members of one
                        selection set are distinct (this excludes the open findings F-20d/F-20e) and
                        the response keys are distinct ignoring letter case, a fragment inside an
                        object selection has a type condition the object satisfies, field types are
                        declared (what validation guarantees);
    * `data.keysOK`     in every object of the response, keys are distinct ignoring letter case;
    * `nodupB (out.decls.map Decl.name)`  every declared identifier of the output is declared once
                        (a decidable check on the output; operation, fragment, enum and `sel…`
                        names do not collide — see `gen_wf` below for what is proved about it).
  "`__typename` is selected wherever fragments are applied to an interface or union" needs no
  hypothesis: without it `generate` reports an error (`typename_required`).
-/
import ApiFu.C20.LemTop

namespace ApiFu.C20

/-! ### Operations that fail validation produce no output -/

theorem processDocs_validation_mem (S : Schema) :
    ∀ (docs : List Doc) (st : St), (∃ d ∈ docs, d.valid = false) → Err.validation ∈ (processDocs S docs st).1 := by
  intro docs
  induction docs with
  | nil => intro st h; obtain ⟨d, hd, _⟩ := h; cases hd
  | cons d ds ih =>
    intro st h
    simp only [processDocs]
    obtain ⟨d', hd', hv⟩ := h
    rcases List.mem_cons.mp hd' with rfl | hd'
    · apply List.mem_append_left
      simp [processDoc, hv]
    · exact List.mem_append_right _ (ih _ ⟨d', hd', hv⟩)

/-- **invalid_no_output** — if any `gql(...)` document of the run fails validation (the verdict of
    `graphql.ParseAndValidate` is a parameter of the model), `Generate` returns errors, among them a
    validation error, and — by the type of the result — no output at all, not even for the valid
    documents of the same run. -/
theorem invalid_no_output (S : Schema) (docs : List Doc) (h : ∃ d ∈ docs, d.valid = false) :
    ∃ errs, generate S docs = .error errs ∧ Err.validation ∈ errs := by
  have hm := processDocs_validation_mem S docs {} h
  unfold generate
  cases he : (processDocs S docs {}).1 with
  | nil => rw [he] at hm; cases hm
  | cons e es => exact ⟨e :: es, by simp [he], by rw [← he]; exact hm⟩

/-- Non-vacuity: a run with one valid and one invalid document yields exactly the validation error. -/
example :
    (match generate { types := [.object [81] [([97], .named n_Int)] [], .scalar n_Int], query := [81], mutation := none, subscription := none }
        [{ valid := true, defs := [.op .query (some [65]) [.field none [97] []]] }, { valid := false, defs := [] }] with
     | .error es => es == [.validation]
     | .ok _ => false) = true := by decide

/-- **errors_no_output** — more generally: whenever any definition of the run is refused (validation
    error, missing `__typename`), nothing is emitted. -/
theorem errors_no_output (S : Schema) (docs : List Doc) (h : (processDocs S docs {}).1 ≠ []) :
    generate S docs = .error (processDocs S docs {}).1 := by
  unfold generate
  cases he : (processDocs S docs {}).1 with
  | nil => exact absurd he h
  | cons e es => simp [he]

/-- **typename_required** — a selection set on an interface or union that applies a fragment without
    selecting `__typename` directly is refused by the generator (so the envelope's "selects
    `__typename` wherever it applies fragments to an interface or union" is what the tool itself
    demands; nothing uncompilable is emitted for such operations). -/
theorem typename_required (S : Schema) (ft : List (Name × Name)) (td : TypeDef) (hobj : td.isObject = false)
    (sels : List Sel) (htn : typenameFieldOf sels = none) (hfrag : ∃ s ∈ sels, isFieldSel s = false)
    (fields : Fields) (conds : Conds) (st : St) :
    ∃ e, genSels S ft td (typenameFieldOf sels).isSome sels fields conds st = .error e := by
  rw [htn]
  simp only [Option.isSome_none]
  induction sels generalizing fields conds st with
  | nil => obtain ⟨s, hs, _⟩ := hfrag; cases hs
  | cons s rest ih =>
    unfold genSels
    cases hstep : genSel S ft td false s fields conds st with
    | error e => exact ⟨e, rfl⟩
    | ok r =>
      obtain ⟨f1, c1, st1⟩ := r
      simp only
      obtain ⟨s', hs', hf'⟩ := hfrag
      rcases List.mem_cons.mp hs' with rfl | hs'
      · exfalso
        cases s' with
        | field a n ss => simp [isFieldSel] at hf'
        | inline c ss => simp [genSel, hobj] at hstep
        | spread f => simp [genSel, hobj] at hstep
      · have htn' : typenameFieldOf rest = none := by
          cases s with
          | field a n ss =>
            unfold typenameFieldOf at htn
            split at htn
            · cases htn
            · exact htn
          | inline c ss => unfold typenameFieldOf at htn; exact htn
          | spread f => unfold typenameFieldOf at htn; exact htn
        exact ih htn' ⟨s', hs', hf'⟩ f1 c1 st1

/-! ### Decoding the server's response -/

/-- Declared names pairwise distinct ⇒ looking a declaration's name up finds that declaration. -/
theorem envOK_of_nodup {env : List Decl} (h : nodupB (env.map Decl.name) = true) : EnvOK env := by
  have hnd := (nodupB_iff _).mp h
  intro d hd
  unfold lookupDecl
  cases hf : env.find? (fun d' => match d' with
      | .enum m _ | .sel m _ _ | .typedef m _ _ => m == d.name) with
  | none =>
    have := List.find?_eq_none.mp hf d hd
    cases d <;> simp [Decl.name] at this
  | some g =>
    have hg := List.mem_of_find?_eq_some hf
    have hp := List.find?_some hf
    have hname : g.name = d.name := by
      cases g <;> simpa [Decl.name] using hp
    rw [inj_of_nodup_map Decl.name hnd g hg d hd hname]

/-- **decode_preserves_leaves** — for every schema, every run of the generator over documents inside
    the envelope that produced output `out`, every named operation `name` of the run, and every JSON
    value `data` that is a response to that operation (`opLeaves … = some L`: the shape the selection
    demands, nulls only where the type allows them, `__typename` naming a possible type, fragments
    unfolded to any depth `fuel`), whose objects have keys distinct ignoring letter case:

      `json.Unmarshal(data, &v)` with `v : <name>Data` succeeds in the model of encoding/json over the
      generated declarations, and the decoded value holds *every selected leaf* of the response —
      scalars, enum values, nulls, empty lists, list items by index, and the fields of every
      type-conditioned fragment (inline or named) whose type condition covers the object's
      `__typename` — at its path, with the value the server sent.

    (The full statement `leaves v = leaves data` of DESIGN.md is restricted to the *selected* leaves:
    a response object may carry members merged in from sibling fragments that a given struct has no
    field for; they are held by the sibling's holder, which this theorem covers as well.) -/
theorem decode_preserves_leaves (S : Schema) (docs : List Doc) (out : Output)
    (hS : schemaOK S = true)
    (hgen : generate S docs = .ok out)
    (hdocs : ∀ d ∈ docs, ∀ df ∈ d.defs, defOK S (fragTypesOf d.defs) df = true)
    (hnames : nodupB (out.decls.map Decl.name) = true)
    (doc : Doc) (hdoc : doc ∈ docs) (kind : OpKind) (name : Name) (sels : List Sel)
    (hop : Def.op kind (some name) sels ∈ doc.defs)
    (root : Name) (hroot : rootOf S kind = some root)
    (fuel : Nat) (data : Json) (L : List LeafAt)
    (hL : opLeaves S (fragDefsOf doc.defs) fuel root sels data = some L)
    (hkeys : data.keysOK = true) :
    ∃ v, Decodes out.decls (.named (name ++ n_Data)) data v ∧ ∀ x ∈ L, x ∈ leavesV v := by
  have henv : EnvOK out.decls := envOK_of_nodup hnames
  -- the run had no errors and `out.decls` is the final state
  unfold generate at hgen
  simp only at hgen
  split at hgen
  · rename_i herr
    injection hgen with hgen
    have hdecls : out.decls = (processDocs S docs {}).2.decls := by rw [← hgen]
    have herr' : (processDocs S docs {}).1 = [] := by simpa using herr
    have hinv0 : EnumInv ({} : St) := by intro n hn; cases hn
    obtain ⟨_, _, hsem⟩ := processDocs_good hS henv docs {} hdocs herr' hinv0
    have hall := hsem (by intro d hd; rw [hdecls]; exact hd) doc hdoc
    have hfragHyp := fragHyp_fragLeaves (S := S) (env := out.decls) (defs := doc.defs) hall fuel
    obtain ⟨r, td, ty, fwd, hr, hlk, hdecl, hlevel⟩ := hall _ hfragHyp _ hop
    rw [hroot] at hr
    injection hr with hr
    subst hr
    unfold opLeaves at hL
    rw [hlk] at hL
    cases td with
    | object n fs is =>
      cases data with
      | obj kvs =>
        simp only at hL
        have hn : n = root := Schema.lookup_name hlk
        subst hn
        obtain ⟨hkd, hko⟩ := keysOK_obj hkeys
        obtain ⟨ws, hd, hcov⟩ := hlevel n kvs L (fun _ => by simp [possible, TypeDef.name, hlk]) hL hkd hko
        exact ⟨.struct ws, Decodes.typedef hdecl hd, by simpa [leavesV] using hcov⟩
      | _ => simp at hL
    | _ => simp at hL
  · cases hgen

/-! ### Non-vacuity of `decode_preserves_leaves`

  `query Q { u { t: __typename ... on A { x } ...F } }  fragment F on B { y }` over
  `union U = A | B`, `A { x: Int }`, `B { y: [String!] }`, with the response
  `{"u": {"t": "B", "y": ["s"]}}`: every hypothesis of the theorem holds, and the selected leaves are
  the aliased type name and the list item reached through the *named* fragment. -/

namespace Example

def A : Name := [65]
def B : Name := [66]
def U : Name := [85]
def Q : Name := [81]
def F : Name := [70]
def u : Name := [117]
def x : Name := [120]
def y : Name := [121]
def t : Name := [116]

def S : Schema :=
  { types := [ .object Q [(u, .named U)] [],
               .union U [A, B],
               .object A [(x, .named n_Int)] [],
               .object B [(y, .list (.nonNull (.named n_String)))] [],
               .scalar n_Int, .scalar n_String ],
    query := Q, mutation := none, subscription := none }

def sels : List Sel :=
  [.field none u [.field (some t) n_typename [], .inline (some A) [.field none x []], .spread F]]

def doc : Doc := { valid := true, defs := [.op .query (some Q) sels, .frag F B [.field none y []]] }

def data : Json := .obj [.mk u (.obj [.mk t (.str B), .mk y (.arr [.str [115]])])]

def expected : List LeafAt :=
  [([.key u, .key t], .str B), ([.key u, .key y, .idx 0], .str [115])]

example : schemaOK S = true := by decide
example : (doc.defs.all (defOK S (fragTypesOf doc.defs))) = true := by decide
example : (match generate S [doc] with
    | .ok out => nodupB (out.decls.map Decl.name) && out.decls.length == 3
    | .error _ => false) = true := by decide
example : data.keysOK = true := by decide
example : opLeaves S (fragDefsOf doc.defs) 1 Q sels data = some expected := by decide

end Example

end ApiFu.C20
