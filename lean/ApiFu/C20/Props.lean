/-
  C20 — property theorems (placeholder while the end-to-end check is being built).
-/
import ApiFu.C20.Model

namespace ApiFu.C20

end ApiFu.C20
