/-
  C20 — the theorems for `generateMerged` (generation from documents whose selection sets are already
  merged); Props.lean instantiates them with the normalised documents.
-/
import ApiFu.C20.LemTop2

namespace ApiFu.C20

/-! ### Operations that fail validation produce no output -/

/-- invalid_no_output_merged — if any `gql(...)` document of the run fails validation (the verdict of
    `graphql.ParseAndValidate` is a parameter of the model), `Generate` returns errors, among them a
    validation error, and — by the type of the result — no output at all, not even for the valid
    documents of the same run. -/
theorem invalid_no_output_merged (S : Schema) (docs : List Doc) (h : ∃ d ∈ docs, d.valid = false) :
    ∃ errs, generateMerged S docs = .error errs ∧ Err.validation ∈ errs := by
  have hm := processDocs_validation_mem S docs {} h
  unfold generateMerged
  cases he : (processDocs S docs {}).1 with
  | nil => rw [he] at hm; cases hm
  | cons e es => exact ⟨e :: es, by simp [he], by rw [← he]; exact hm⟩

/-- errors_no_output_merged — more generally: whenever any definition of the run is refused (validation
    error, missing `__typename`), nothing is emitted. -/
theorem errors_no_output_merged (S : Schema) (docs : List Doc) (h : (processDocs S docs {}).1 ≠ []) :
    generateMerged S docs = .error (processDocs S docs {}).1 := by
  unfold generateMerged
  cases he : (processDocs S docs {}).1 with
  | nil => exact absurd he h
  | cons e es => simp [he]

/-! ### Decoding the server's response -/

/-- decode_preserves_leaves_merged — for every schema, every run of the generator over documents inside
    the envelope that produced output `out`, every named operation `name` of the run, and every JSON
    value `data` that is a response to that operation (`opLeaves … = some L`: the shape the selection
    demands, nulls only where the type allows them, `__typename` naming a possible type, fragments
    unfolded to any depth `fuel`), whose objects have keys distinct ignoring letter case:

      `json.Unmarshal(data, &v)` with `v : <name>Data` succeeds in the model of encoding/json over the
      generated declarations, and the decoded value holds *every selected leaf* of the response —
      scalars, enum values, nulls, empty lists, list items by index, and the fields of every
      type-conditioned fragment (inline or named) whose type condition covers the object's
      `__typename` — at its path, with the value the server sent.

    (The full statement `leaves v = leaves data` of DESIGN.md is restricted to the *selected* leaves:
    a response object may carry members merged in from sibling fragments that a given struct has no
    field for; they are held by the sibling's holder, which this theorem covers as well.) -/
theorem decode_preserves_leaves_merged (S : Schema) (docs : List Doc) (out : Output)
    (hS : schemaOK S = true)
    (hgen : generateMerged S docs = .ok out)
    (hdocs : ∀ d ∈ docs, ∀ df ∈ d.defs, defOK S (fragTypesOf d.defs) df = true)
    (hnames : nodupB (out.decls.map Decl.name) = true)
    (doc : Doc) (hdoc : doc ∈ docs) (kind : OpKind) (name : Name) (sels : List Sel)
    (hop : Def.op kind (some name) sels ∈ doc.defs)
    (root : Name) (hroot : rootOf S kind = some root)
    (fuel : Nat) (data : Json) (L : List LeafAt)
    (hL : opLeaves S (fragDefsOf doc.defs) fuel root sels data = some L)
    (hkeys : data.keysOK = true) :
    ∃ v, Decodes out.decls (.named (name ++ n_Data)) data v ∧ ∀ x ∈ L, x ∈ leavesV v := by
  have henv : EnvOK out.decls := envOK_of_nodup hnames
  -- the run had no errors and `out.decls` is the final state
  unfold generateMerged at hgen
  simp only at hgen
  split at hgen
  · rename_i herr
    injection hgen with hgen
    have hdecls : out.decls = (processDocs S docs {}).2.decls := by rw [← hgen]
    have herr' : (processDocs S docs {}).1 = [] := by simpa using herr
    have hinv0 : EnumInv ({} : St) := by intro n hn; cases hn
    obtain ⟨_, _, _, hsem⟩ := processDocs_good hS henv docs {} hdocs herr' hinv0
    have hall := (hsem (by intro d hd; rw [hdecls]; exact hd)).1 doc hdoc
    have hfragHyp := fragHyp_fragLeaves (S := S) (env := out.decls) (defs := doc.defs) hall fuel
    obtain ⟨r, td, ty, fwd, hr, hlk, hdecl, hlevel⟩ := hall _ hfragHyp _ hop
    rw [hroot] at hr
    injection hr with hr
    subst hr
    unfold opLeaves at hL
    rw [hlk] at hL
    cases td with
    | object n fs is =>
      cases data with
      | obj kvs =>
        simp only at hL
        have hn : n = root := Schema.lookup_name hlk
        subst hn
        obtain ⟨hkd, hko⟩ := keysOK_obj hkeys
        obtain ⟨ws, hd, hcov⟩ := hlevel n kvs L (fun _ => by simp [possible, TypeDef.name, hlk]) hL hkd hko
        exact ⟨.struct ws, Decodes.typedef hdecl hd, by simpa [leavesV] using hcov⟩
      | _ => simp at hL
    | _ => simp at hL
  · cases hgen

/-! ### The output is well-formed (the model-level "compiles") -/

/-- gen_wf_partial_merged — for every run over documents inside the envelope that produced output, with
    enum constants that do not collide (`enumValuesOK`, excludes F-20f) and provided the declared
    identifiers of the output are pairwise distinct (`hnames`), the output is well-formed
    (`declsWF`): every identifier a type expression mentions — enum types, `sel…` types, the
    `<F>Fragment` type of every spread fragment — is declared; in every struct (of every `sel…` type,
    of every `<Op>Data`/`<F>Fragment` type, at every nesting depth) the field names are exported and
    pairwise distinct; and every statement of every generated `UnmarshalJSON` unmarshals into a
    declared field and, when it is a `switch`, switches on a declared field of type `string` (the
    field `__typename` was selected into, whatever its alias).

    Full statement (DESIGN.md `gen_wf_merged`): the same without `hnames`, see `gen_wf_merged`, which needs
    hypotheses on the names (operation/fragment names distinct, no enum/operation/fragment-derived
    name beginning with `sel`). `hnames` is a decidable check on the output. -/
theorem gen_wf_partial_merged (S : Schema) (docs : List Doc) (out : Output)
    (hS : schemaOK S = true) (hec : enumValuesOK S = true)
    (hgen : generateMerged S docs = .ok out)
    (hdocs : ∀ d ∈ docs, ∀ df ∈ d.defs, defOK S (fragTypesOf d.defs) df = true)
    (hnames : nodupB (out.decls.map Decl.name) = true) :
    declsWF out.decls = true := by
  have henv : EnvOK out.decls := envOK_of_nodup hnames
  unfold generateMerged at hgen
  simp only at hgen
  split at hgen
  · rename_i herr
    injection hgen with hgen
    have hdecls : out.decls = (processDocs S docs {}).2.decls := by rw [← hgen]
    have herr' : (processDocs S docs {}).1 = [] := by simpa using herr
    have hinv0 : EnumInv ({} : St) := by intro n hn; cases hn
    obtain ⟨_, _, htd, hsem⟩ := processDocs_good hS henv docs {} hdocs herr' hinv0
    have hstatic := (hsem (by intro d hd; rw [hdecls]; exact hd)).2
    have hfn : ∀ doc ∈ docs, FragNames (fragTypesOf doc.defs) (out.decls.map Decl.name) := by
      intro doc hdoc f hf
      obtain ⟨c, ss, hmem⟩ := fragTypes_any hf
      have := htd doc hdoc _ hmem
      rw [hdecls]
      exact this
    have hst := hstatic hfn hec (by intro d hd; cases hd)
    simp only [declsWF, Bool.and_eq_true, hnames, true_and]
    apply List.all_eq_true.mpr
    intro d hd
    rw [hdecls] at hd
    exact hst d hd
  · cases hgen

/-- gen_names_unique_merged — under the naming assumptions `NamesHyp` (no enum name and no
    `<Op>Data`/`<F>Fragment` name begins with `sel`; enum names differ from the `…Data`/`…Fragment`
    names) and with the `…Data`/`…Fragment` names of the run pairwise distinct, every identifier of the
    output is declared exactly once. The proof needs that `"sel" + typeName + "_" + itoa(counter)` is
    injective in the counter (`sel_name_inj`): the separator of fix 04 makes it so for *all* type names;
    before the fix it failed for type names ending in a digit (finding F-20g: `Node`, `Node1` both gave
    `selNode10`), which the first attempt at this proof exposed. -/
theorem gen_names_unique_merged (S : Schema) (docs : List Doc) (out : Output)
    (hS : schemaOK S = true)
    (hgen : generateMerged S docs = .ok out)
    (hdocs : ∀ d ∈ docs, ∀ df ∈ d.defs, defOK S (fragTypesOf d.defs) df = true)
    (hN : NamesHyp S (docNames docs)) (hnd : (docNames docs).Nodup) :
    nodupB (out.decls.map Decl.name) = true := by
  unfold generateMerged at hgen
  simp only at hgen
  split at hgen
  · rename_i herr
    injection hgen with hgen
    have hdecls : out.decls = (processDocs S docs {}).2.decls := by rw [← hgen]
    have herr' : (processDocs S docs {}).1 = [] := by simpa using herr
    have hinv0 : EnumInv ({} : St) := by intro n hn; cases hn
    have h0 : NameInv S [] ({} : St) := ⟨List.nodup_nil, fun d hd => (nomatch hd)⟩
    have := processDocs_names hS hN docs {} [] hdocs herr' hinv0 (by simp) (by simpa using hnd) h0
    rw [hdecls]
    exact (nodupB_iff _).mpr this.1
  · cases hgen

/-- gen_wf_merged — the generated declarations are well-formed (the model-level "the output compiles"),
    for every run over documents inside the envelope under the naming assumptions: every declared
    identifier is declared exactly once, every referenced identifier is declared, struct fields are
    exported and pairwise distinct at every depth, and every statement of every generated
    `UnmarshalJSON` names a declared field and switches on a declared `string` field. -/
theorem gen_wf_merged (S : Schema) (docs : List Doc) (out : Output)
    (hS : schemaOK S = true) (hec : enumValuesOK S = true)
    (hgen : generateMerged S docs = .ok out)
    (hdocs : ∀ d ∈ docs, ∀ df ∈ d.defs, defOK S (fragTypesOf d.defs) df = true)
    (hN : NamesHyp S (docNames docs)) (hnd : (docNames docs).Nodup) :
    declsWF out.decls = true :=
  gen_wf_partial_merged S docs out hS hec hgen hdocs (gen_names_unique_merged S docs out hS hgen hdocs hN hnd)

/-- decode_preserves_leaves_of_naming_merged — `decode_preserves_leaves_merged` with the distinctness of the declared
    identifiers discharged from the naming assumptions. -/
theorem decode_preserves_leaves_of_naming_merged (S : Schema) (docs : List Doc) (out : Output)
    (hS : schemaOK S = true)
    (hgen : generateMerged S docs = .ok out)
    (hdocs : ∀ d ∈ docs, ∀ df ∈ d.defs, defOK S (fragTypesOf d.defs) df = true)
    (hN : NamesHyp S (docNames docs)) (hnd : (docNames docs).Nodup)
    (doc : Doc) (hdoc : doc ∈ docs) (kind : OpKind) (name : Name) (sels : List Sel)
    (hop : Def.op kind (some name) sels ∈ doc.defs)
    (root : Name) (hroot : rootOf S kind = some root)
    (fuel : Nat) (data : Json) (L : List LeafAt)
    (hL : opLeaves S (fragDefsOf doc.defs) fuel root sels data = some L)
    (hkeys : data.keysOK = true) :
    ∃ v, Decodes out.decls (.named (name ++ n_Data)) data v ∧ ∀ x ∈ L, x ∈ leavesV v :=
  decode_preserves_leaves_merged S docs out hS hgen hdocs (gen_names_unique_merged S docs out hS hgen hdocs hN hnd)
    doc hdoc kind name sels hop root hroot fuel data L hL hkeys


/-! ### Normalisation keeps names and validity -/

theorem defNames_normalize (S : Schema) : ∀ defs : List Def, defNames (defs.map (normalizeDef S)) = defNames defs := by
  intro defs
  induction defs with
  | nil => rfl
  | cons df rest ih =>
    cases df with
    | op k n ss =>
      cases n with
      | none =>
        simp only [List.map_cons, normalizeDef]
        split <;> simp [defNames, ih]
      | some nm =>
        simp only [List.map_cons, normalizeDef]
        split <;> simp [defNames, ih]
    | frag n c ss =>
      simp only [List.map_cons, normalizeDef]
      split <;> simp [defNames, ih]

theorem docNames_normalize (S : Schema) : ∀ docs : List Doc, docNames (docs.map (normalizeDoc S)) = docNames docs := by
  intro docs
  induction docs with
  | nil => rfl
  | cons d ds ih => simp [docNames, normalizeDoc, defNames_normalize, ih]


end ApiFu.C20
