/-
  C20 — the specification is monotone under the normalisation of fix 07: every leaf an operation
  selects from a response is also selected by the merged operation (and the response conforms to it).
-/
import ApiFu.C20.LemMain

namespace ApiFu.C20

/-- Every leaf of `L` is a leaf of `L'`. -/
def Sub (L L' : List LeafAt) : Prop := ∀ x ∈ L, x ∈ L'

theorem Sub.refl (L : List LeafAt) : Sub L L := fun _ h => h
theorem Sub.trans {a b c : List LeafAt} (h1 : Sub a b) (h2 : Sub b c) : Sub a c := fun x hx => h2 x (h1 x hx)
theorem Sub.append {a a' b b' : List LeafAt} (h1 : Sub a a') (h2 : Sub b b') : Sub (a ++ b) (a' ++ b') := by
  intro x hx
  rcases List.mem_append.mp hx with h | h
  · exact List.mem_append_left _ (h1 x h)
  · exact List.mem_append_right _ (h2 x h)

/-- `g` admits at least what `f` admits, with at least its leaves. -/
def LeFun {α : Type} (f g : α → Option (List LeafAt)) : Prop :=
  ∀ a L, f a = some L → ∃ L', g a = some L' ∧ Sub L L'

def FragLe (frag frag' : Name → Name → List JMember → Option (List LeafAt)) : Prop :=
  ∀ f T kvs L, frag f T kvs = some L → ∃ L', frag' f T kvs = some L' ∧ Sub L L'

section
variable {S : Schema}

theorem sels_cons_some {frag : Name → Name → List JMember → Option (List LeafAt)} {T : Name} {td : TypeDef}
    {kvs : List JMember} {s : Sel} {rest : List Sel} {L : List LeafAt}
    (h : selLeavesSels S frag T td kvs (s :: rest) = some L) :
    ∃ a b, selLeavesSel S frag T td kvs s = some a ∧ selLeavesSels S frag T td kvs rest = some b ∧ L = a ++ b := by
  unfold selLeavesSels at h
  cases hs : selLeavesSel S frag T td kvs s with
  | none => simp [hs] at h
  | some a =>
    cases hr : selLeavesSels S frag T td kvs rest with
    | none => simp [hs, hr] at h
    | some b =>
      simp [hs, hr] at h
      exact ⟨a, b, rfl, rfl, h.symm⟩

theorem sels_cons_intro {frag : Name → Name → List JMember → Option (List LeafAt)} {T : Name} {td : TypeDef}
    {kvs : List JMember} {s : Sel} {rest : List Sel} {a b : List LeafAt}
    (hs : selLeavesSel S frag T td kvs s = some a) (hr : selLeavesSels S frag T td kvs rest = some b) :
    selLeavesSels S frag T td kvs (s :: rest) = some (a ++ b) := by
  unfold selLeavesSels
  simp [hs, hr]

theorem sels_append {frag : Name → Name → List JMember → Option (List LeafAt)} {T : Name} {td : TypeDef}
    {kvs : List JMember} : ∀ {X Y : List Sel} {a b : List LeafAt},
    selLeavesSels S frag T td kvs X = some a → selLeavesSels S frag T td kvs Y = some b →
    selLeavesSels S frag T td kvs (X ++ Y) = some (a ++ b) := by
  intro X
  induction X with
  | nil =>
    intro Y a b ha hb
    simp [selLeavesSels] at ha
    subst ha
    simpa using hb
  | cons s rest ih =>
    intro Y a b ha hb
    obtain ⟨a1, a2, h1, h2, rfl⟩ := sels_cons_some ha
    rw [List.cons_append, sels_cons_intro h1 (ih h2 hb), List.append_assoc]

/-- Member by member. -/
theorem sels_mono_map {frag frag' : Name → Name → List JMember → Option (List LeafAt)} {T : Name} {td : TypeDef}
    {kvs : List JMember} (g : Sel → Sel) : ∀ (l : List Sel),
    (∀ s ∈ l, ∀ Ls, selLeavesSel S frag T td kvs s = some Ls →
      ∃ Ls', selLeavesSel S frag' T td kvs (g s) = some Ls' ∧ Sub Ls Ls') →
    ∀ L, selLeavesSels S frag T td kvs l = some L →
    ∃ L', selLeavesSels S frag' T td kvs (l.map g) = some L' ∧ Sub L L' := by
  intro l
  induction l with
  | nil =>
    intro _ L h
    simp [selLeavesSels] at h
    subst h
    exact ⟨[], by simp [selLeavesSels], Sub.refl _⟩
  | cons s rest ih =>
    intro hmem L h
    obtain ⟨a, b, h1, h2, rfl⟩ := sels_cons_some h
    obtain ⟨a', ha', hsa⟩ := hmem s List.mem_cons_self a h1
    obtain ⟨b', hb', hsb⟩ := ih (fun s' hs' => hmem s' (List.mem_cons_of_mem _ hs')) b h2
    exact ⟨a' ++ b', by rw [List.map_cons, sels_cons_intro ha' hb'], Sub.append hsa hsb⟩

/-! ### Wrappers are monotone in the base -/

theorem under_sub {e : PElem} {a b : List LeafAt} (h : Sub a b) : Sub (under e a) (under e b) := under_subset h

theorem listLeaves_mono {f g : Json → Option (List LeafAt)} (h : LeFun f g) : ∀ (xs : List Json) (i : Nat) (L : List LeafAt),
    listLeaves f i xs = some L → ∃ L', listLeaves g i xs = some L' ∧ Sub L L' := by
  intro xs
  induction xs with
  | nil => intro i L hl; simp [listLeaves] at hl; subst hl; exact ⟨[], by simp [listLeaves], Sub.refl _⟩
  | cons x xs ih =>
    intro i L hl
    unfold listLeaves at hl
    cases hx : f x with
    | none => simp [hx] at hl
    | some a =>
      cases hxs : listLeaves f (i + 1) xs with
      | none => simp [hx, hxs] at hl
      | some b =>
        simp [hx, hxs] at hl
        subst hl
        obtain ⟨a', ha', hsa⟩ := h x a hx
        obtain ⟨b', hb', hsb⟩ := ih (i + 1) b hxs
        refine ⟨under (.idx i) a' ++ b', ?_, Sub.append (under_sub hsa) hsb⟩
        unfold listLeaves
        simp [ha', hb']

theorem wrapLeaves_mono {f g : Json → Option (List LeafAt)} (h : LeFun f g) (nn : Bool) :
    ∀ d, LeFun (wrapLeaves f nn d) (wrapLeaves g nn d) := by
  intro d
  induction d with
  | zero =>
    intro j L hl
    unfold wrapLeaves at hl ⊢
    cases j with
    | null => exact ⟨L, hl, Sub.refl _⟩
    | bool b => exact h _ L hl
    | num i t => exact h _ L hl
    | str s => exact h _ L hl
    | arr xs => exact h _ L hl
    | obj ms => exact h _ L hl
  | succ d ih =>
    intro j L hl
    unfold wrapLeaves at hl ⊢
    cases j with
    | null => exact ⟨L, hl, Sub.refl _⟩
    | arr xs =>
      simp only at hl ⊢
      by_cases he : xs.isEmpty = true
      · simp only [he, if_true] at hl ⊢
        exact ⟨L, hl, Sub.refl _⟩
      · simp only [he] at hl ⊢
        exact listLeaves_mono ih xs 0 L (by simpa using hl)
    | bool b => simp at hl
    | num i t => simp at hl
    | str s => simp at hl
    | obj ms => simp at hl

/-! ### The first `__typename` key depends on the field selections only -/

def fieldKeys : List Sel → List (Option Name × Name)
  | [] => []
  | .field a n _ :: rest => (a, n) :: fieldKeys rest
  | _ :: rest => fieldKeys rest

def tkOf : List (Option Name × Name) → Option Name
  | [] => none
  | (a, n) :: rest => if n == n_typename then some (a.getD n) else tkOf rest

theorem typenameKeyOf_eq : ∀ sels : List Sel, typenameKeyOf sels = tkOf (fieldKeys sels) := by
  intro sels
  induction sels with
  | nil => rfl
  | cons s rest ih =>
    cases s with
    | field a n ss => simp [typenameKeyOf, fieldKeys, tkOf, ih]
    | inline c ss => simp [typenameKeyOf, fieldKeys, ih]
    | spread f => simp [typenameKeyOf, fieldKeys, ih]

theorem fieldKeys_append (a b : List Sel) : fieldKeys (a ++ b) = fieldKeys a ++ fieldKeys b := by
  induction a with
  | nil => rfl
  | cons s rest ih => cases s <;> simp [fieldKeys, ih]

theorem fieldKeys_absorb (tdn c : Name) (more : List Sel) : ∀ acc, fieldKeys (absorb tdn c more acc) = fieldKeys acc := by
  intro acc
  induction acc with
  | nil => rfl
  | cons s rest ih =>
    cases s with
    | field a n ss => simp [absorb, fieldKeys, ih]
    | spread f => simp [absorb, fieldKeys, ih]
    | inline c' ss =>
      simp only [absorb]
      split <;> simp [fieldKeys, ih]

theorem fieldKeys_mergeAux (tdn : Name) : ∀ rest acc, fieldKeys (mergeInlineAux tdn rest acc) = fieldKeys acc ++ fieldKeys rest := by
  intro rest
  induction rest with
  | nil => intro acc; simp [mergeInlineAux, fieldKeys]
  | cons s rest ih =>
    intro acc
    cases s with
    | field a n ss => simp [mergeInlineAux, ih, fieldKeys_append, fieldKeys]
    | spread f => simp [mergeInlineAux, ih, fieldKeys_append, fieldKeys]
    | inline c ss =>
      simp only [mergeInlineAux]
      split
      · simp [ih, fieldKeys_absorb, fieldKeys]
      · simp [ih, fieldKeys_append, fieldKeys]

theorem fieldKeys_map (g : Sel → Sel)
    (hf : ∀ a n ss, ∃ ss', g (.field a n ss) = .field a n ss')
    (hi : ∀ c ss, ∃ ss', g (.inline c ss) = .inline c ss') (hs : ∀ f, g (.spread f) = .spread f) :
    ∀ l : List Sel, fieldKeys (l.map g) = fieldKeys l := by
  intro l
  induction l with
  | nil => rfl
  | cons s rest ih =>
    cases s with
    | field a n ss => obtain ⟨ss', h⟩ := hf a n ss; simp [h, fieldKeys, ih]
    | inline c ss => obtain ⟨ss', h⟩ := hi c ss; simp [h, fieldKeys, ih]
    | spread f => simp [hs f, fieldKeys, ih]

/-! ### One level: `mergeInlineFragments` -/

theorem inline_leaves {frag : Name → Name → List JMember → Option (List LeafAt)} {T : Name} {td : TypeDef}
    {kvs : List JMember} (c : Option Name) (ss : List Sel) :
    selLeavesSel S frag T td kvs (.inline c ss) =
      (match S.lookup (c.getD td.name) with
       | none => none
       | some ctd => if (possible S (c.getD td.name)).contains T then selLeavesSels S frag T ctd kvs ss else some []) := by
  rw [selLeavesSel]
  cases S.lookup (c.getD td.name) <;> rfl

/-- Appending `more` to the first inline fragment on `c` keeps all leaves and adds those of `more`. -/
theorem absorb_leaves {frag : Name → Name → List JMember → Option (List LeafAt)} {T : Name} {td : TypeDef}
    {kvs : List JMember} {c : Name} {c0 : Option Name} (hc0 : c0.getD td.name = c) {more : List Sel} {Lm : List LeafAt}
    (hm : selLeavesSel S frag T td kvs (.inline c0 more) = some Lm) :
    ∀ (acc : List Sel) (La : List LeafAt), hasInline td.name c acc = true →
      selLeavesSels S frag T td kvs acc = some La →
      ∃ L', selLeavesSels S frag T td kvs (absorb td.name c more acc) = some L' ∧ Sub La L' ∧ Sub Lm L' := by
  intro acc
  induction acc with
  | nil => intro La h; simp [hasInline] at h
  | cons s rest ih =>
    intro La hhas ha
    obtain ⟨a, b, h1, h2, rfl⟩ := sels_cons_some ha
    cases s with
    | field a' n ss =>
      simp only [hasInline] at hhas
      obtain ⟨L', hL', hs1, hs2⟩ := ih b hhas h2
      exact ⟨a ++ L', by simp only [absorb]; exact sels_cons_intro h1 hL',
        Sub.append (Sub.refl _) hs1, fun x hx => List.mem_append_right _ (hs2 x hx)⟩
    | spread f =>
      simp only [hasInline] at hhas
      obtain ⟨L', hL', hs1, hs2⟩ := ih b hhas h2
      exact ⟨a ++ L', by simp only [absorb]; exact sels_cons_intro h1 hL',
        Sub.append (Sub.refl _) hs1, fun x hx => List.mem_append_right _ (hs2 x hx)⟩
    | inline c' ss =>
      simp only [absorb]
      by_cases hcc : c'.getD td.name = c
      · simp only [hcc, beq_self_eq_true, if_true]
        -- the merged fragment
        rw [inline_leaves] at h1 hm
        rw [hc0] at hm
        rw [hcc] at h1
        cases hl : S.lookup c with
        | none => simp [hl] at hm
        | some ctd =>
          simp only [hl] at h1 hm
          by_cases happ : (possible S c).contains T = true
          · simp only [happ, if_true] at h1 hm
            have hmerged : selLeavesSel S frag T td kvs (.inline c' (ss ++ more)) = some (a ++ Lm) := by
              rw [inline_leaves, hcc, hl]
              simp only [happ, if_true]
              exact sels_append h1 hm
            refine ⟨(a ++ Lm) ++ b, sels_cons_intro hmerged h2, ?_, ?_⟩
            · intro x hx
              rcases List.mem_append.mp hx with h | h
              · exact List.mem_append_left _ (List.mem_append_left _ h)
              · exact List.mem_append_right _ h
            · intro x hx
              exact List.mem_append_left _ (List.mem_append_right _ hx)
          · simp only [happ, Bool.false_eq_true, if_false] at h1 hm
            injection h1 with h1
            injection hm with hm
            subst h1 hm
            have hmerged : selLeavesSel S frag T td kvs (.inline c' (ss ++ more)) = some [] := by
              rw [inline_leaves, hcc, hl]
              simp only [happ, Bool.false_eq_true, if_false]
            exact ⟨[] ++ b, sels_cons_intro hmerged h2, fun x hx => hx, fun x hx => nomatch hx⟩
      · have hne : (c'.getD td.name == c) = false := by simpa using hcc
        simp only [hne, Bool.false_eq_true, if_false]
        simp only [hasInline, hne, Bool.false_or] at hhas
        obtain ⟨L', hL', hs1, hs2⟩ := ih b hhas h2
        exact ⟨a ++ L', sels_cons_intro h1 hL', Sub.append (Sub.refl _) hs1,
          fun x hx => List.mem_append_right _ (hs2 x hx)⟩

theorem mergeAux_leaves {frag : Name → Name → List JMember → Option (List LeafAt)} {T : Name} {td : TypeDef}
    {kvs : List JMember} : ∀ (rest acc : List Sel) (Lr La : List LeafAt),
    selLeavesSels S frag T td kvs rest = some Lr → selLeavesSels S frag T td kvs acc = some La →
    ∃ L', selLeavesSels S frag T td kvs (mergeInlineAux td.name rest acc) = some L' ∧ Sub La L' ∧ Sub Lr L' := by
  intro rest
  induction rest with
  | nil =>
    intro acc Lr La hr ha
    simp [selLeavesSels] at hr
    subst hr
    exact ⟨La, by simpa [mergeInlineAux] using ha, Sub.refl _, fun x hx => nomatch hx⟩
  | cons s rest ih =>
    intro acc Lr La hr ha
    obtain ⟨a, b, h1, h2, rfl⟩ := sels_cons_some hr
    have happend : selLeavesSels S frag T td kvs (acc ++ [s]) = some (La ++ a) := by
      have : selLeavesSels S frag T td kvs [s] = some (a ++ []) := sels_cons_intro h1 (by simp [selLeavesSels])
      simpa using sels_append ha this
    have hdefault : ∃ L', selLeavesSels S frag T td kvs (mergeInlineAux td.name rest (acc ++ [s])) = some L' ∧
        Sub La L' ∧ Sub (a ++ b) L' := by
      obtain ⟨L', hL', hs1, hs2⟩ := ih (acc ++ [s]) b (La ++ a) h2 happend
      refine ⟨L', hL', fun x hx => hs1 x (List.mem_append_left _ hx), ?_⟩
      intro x hx
      rcases List.mem_append.mp hx with h | h
      · exact hs1 x (List.mem_append_right _ h)
      · exact hs2 x h
    cases s with
    | field a' n ss => simpa [mergeInlineAux] using hdefault
    | spread f => simpa [mergeInlineAux] using hdefault
    | inline c ss =>
      simp only [mergeInlineAux]
      by_cases hhas : hasInline td.name (c.getD td.name) acc = true
      · simp only [hhas, if_true]
        obtain ⟨L1, hL1, hs1, hs2⟩ := absorb_leaves (c0 := c) rfl h1 acc La hhas ha
        obtain ⟨L', hL', ht1, ht2⟩ := ih _ b L1 h2 hL1
        refine ⟨L', hL', Sub.trans hs1 ht1, ?_⟩
        intro x hx
        rcases List.mem_append.mp hx with h | h
        · exact ht1 x (hs2 x h)
        · exact ht2 x h
      · simp only [hhas, Bool.false_eq_true, if_false]
        exact hdefault

theorem merge_leaves {frag : Name → Name → List JMember → Option (List LeafAt)} {T : Name} {td : TypeDef}
    {kvs : List JMember} {sels : List Sel} {L : List LeafAt} (h : selLeavesSels S frag T td kvs sels = some L) :
    ∃ L', selLeavesSels S frag T td kvs (mergeInline td.name sels) = some L' ∧ Sub L L' := by
  obtain ⟨L', hL', _, hs⟩ := mergeAux_leaves sels [] L [] h (by simp [selLeavesSels])
  exact ⟨L', hL', hs⟩

theorem concreteOf_congr (td : TypeDef) {sels sels' : List Sel} (h : typenameKeyOf sels = typenameKeyOf sels')
    (kvs : List JMember) : concreteOf S td sels kvs = concreteOf S td sels' kvs := by
  cases td <;> simp [concreteOf, h]

/-- The base-value specification is monotone in the sub-selections. -/
theorem specBase_mono {frag frag' : Name → Name → List JMember → Option (List LeafAt)} (n : Name) {subs subs' : List Sel}
    (htk : typenameKeyOf subs = typenameKeyOf subs')
    (hsubs : ∀ ctd, S.lookup n = some ctd → ∀ T' kvs' L, selLeavesSels S frag T' ctd kvs' subs = some L →
      ∃ L', selLeavesSels S frag' T' ctd kvs' subs' = some L' ∧ Sub L L') :
    LeFun (specBase S frag n subs) (specBase S frag' n subs') := by
  intro j L hj
  unfold specBase at hj ⊢
  cases hl : S.lookup n with
  | none => simp [hl] at hj
  | some ctd =>
    simp only [hl] at hj ⊢
    by_cases hc : isComposite ctd = true
    · simp only [hc, if_true] at hj ⊢
      cases j with
      | obj kvs' =>
        simp only at hj ⊢
        rw [← concreteOf_congr ctd htk kvs']
        cases hco : concreteOf S ctd subs kvs' with
        | none => simp [hco] at hj
        | some T' =>
          simp only [hco] at hj ⊢
          exact hsubs ctd hl T' kvs' L hj
      | null => simp at hj
      | bool b => simp at hj
      | num i t => simp at hj
      | str s' => simp at hj
      | arr xs => simp at hj
    · simp only [hc, Bool.false_eq_true, if_false] at hj ⊢
      exact ⟨L, hj, Sub.refl _⟩

/-- A field selection is monotone in its sub-selections. -/
theorem field_mono {frag frag' : Name → Name → List JMember → Option (List LeafAt)} {T : Name} {td : TypeDef}
    {kvs : List JMember} (a : Option Name) (n : Name) {subs subs' : List Sel}
    (hb : ∀ ft, fieldTypeOf td n = some ft →
      LeFun (specBase S frag (shape ft false).2.1 subs) (specBase S frag' (shape ft false).2.1 subs'))
    {Ls : List LeafAt} (h : selLeavesSel S frag T td kvs (.field a n subs) = some Ls) :
    ∃ Ls', selLeavesSel S frag' T td kvs (.field a n subs') = some Ls' ∧ Sub Ls Ls' := by
  rw [selLeavesSel_field] at h ⊢
  cases hlook : lookupMember kvs (a.getD n) with
  | none => simp [hlook] at h
  | some v =>
    simp only [hlook] at h ⊢
    by_cases hn : (n == n_typename) = true
    · simp only [hn, if_true] at h ⊢
      exact ⟨Ls, h, Sub.refl _⟩
    · simp only [hn, Bool.false_eq_true, if_false] at h ⊢
      cases hft : fieldTypeOf td n with
      | none => simp [hft] at h
      | some ft =>
        simp only [hft] at h ⊢
        cases hw : wrapLeaves (specBase S frag (shape ft false).2.1 subs) (shape ft false).2.2 (shape ft false).1 v with
        | none => simp [hw] at h
        | some ls =>
          simp only [hw] at h
          injection h with h
          subst h
          obtain ⟨ls', hls', hsub⟩ := wrapLeaves_mono (hb ft hft) _ _ v ls hw
          exact ⟨under (.key (lowerAll (a.getD n))) ls', by simp [hls'], under_sub hsub⟩

/-- The specification is monotone in the named-fragment oracle. -/
theorem sels_mono_frag {frag frag' : Name → Name → List JMember → Option (List LeafAt)} (hle : FragLe frag frag') :
    ∀ (k : Nat) (sels : List Sel), sizeOf sels ≤ k → ∀ T td kvs L, selLeavesSels S frag T td kvs sels = some L →
      ∃ L', selLeavesSels S frag' T td kvs sels = some L' ∧ Sub L L' := by
  intro k
  induction k with
  | zero =>
    intro sels hk
    cases sels <;> simp at hk
  | succ k ih =>
    intro sels hk T td kvs L hL
    have := sels_mono_map (frag := frag) (frag' := frag') (T := T) (td := td) (kvs := kvs) id sels ?_ L hL
    · simpa using this
    · intro s hs Ls hLs
      have hsz := sizeOf_subsOf_lt hs
      cases s with
      | field a n ss =>
        exact field_mono a n (fun ft _ => specBase_mono _ rfl
          (fun ctd _ T' kvs' L' h' => ih ss (by simp only [subsOf] at hsz; omega) T' ctd kvs' L' h')) hLs
      | inline c ss =>
        simp only [id]
        rw [inline_leaves] at hLs ⊢
        cases hl : S.lookup (c.getD td.name) with
        | none => simp [hl] at hLs
        | some ctd =>
          simp only [hl] at hLs ⊢
          by_cases happ : (possible S (c.getD td.name)).contains T = true
          · simp only [happ, if_true] at hLs ⊢
            exact ih ss (by simp only [subsOf] at hsz; omega) T ctd kvs Ls hLs
          · simp only [happ, Bool.false_eq_true, if_false] at hLs ⊢
            exact ⟨Ls, hLs, Sub.refl _⟩
      | spread f =>
        simp only [id]
        rw [selLeavesSel] at hLs
        rw [selLeavesSel]
        exact hle f T kvs Ls hLs

/-! ### All levels: `normalize` -/

/-- One member of a merged level: its sub-selections are normalised. -/
def normStep (S : Schema) (rec : TypeDef → List Sel → List Sel) (td : TypeDef) : Sel → Sel
  | .field a n ss =>
    (match fieldTypeOf td n with
     | some ft =>
       (match S.lookup (shape ft false).2.1 with
        | some td' => .field a n (rec td' ss)
        | none => .field a n ss)
     | none => .field a n ss)
  | .inline c ss =>
    (match S.lookup (c.getD td.name) with
     | some ctd => .inline c (rec ctd ss)
     | none => .inline c ss)
  | .spread f => .spread f

theorem normalize_succ (fuel : Nat) (td : TypeDef) (sels : List Sel) :
    normalize S (fuel + 1) td sels = (mergeInline td.name sels).map (normStep S (normalize S fuel) td) := by
  rw [normalize]
  apply List.map_congr_left
  intro s _
  cases s <;> rfl

theorem typenameKeyOf_normalize : ∀ (fuel : Nat) (td : TypeDef) (sels : List Sel),
    typenameKeyOf (normalize S fuel td sels) = typenameKeyOf sels := by
  intro fuel td sels
  cases fuel with
  | zero => rfl
  | succ fuel =>
    rw [normalize_succ, typenameKeyOf_eq, typenameKeyOf_eq]
    rw [fieldKeys_map (normStep S (normalize S fuel) td)]
    · simp [mergeInline, fieldKeys_mergeAux, fieldKeys]
    · intro a n ss
      simp only [normStep]
      split
      · split
        · exact ⟨_, rfl⟩
        · exact ⟨_, rfl⟩
      · exact ⟨_, rfl⟩
    · intro c ss
      simp only [normStep]
      split
      · exact ⟨_, rfl⟩
      · exact ⟨_, rfl⟩
    · intro f; rfl

/-- Every leaf the operation selects is selected by the normalised operation (same fragment oracle). -/
theorem normalize_mono {frag : Name → Name → List JMember → Option (List LeafAt)} :
    ∀ (fuel : Nat) (td : TypeDef) (sels : List Sel) (T : Name) (kvs : List JMember) (L : List LeafAt),
      selLeavesSels S frag T td kvs sels = some L →
      ∃ L', selLeavesSels S frag T td kvs (normalize S fuel td sels) = some L' ∧ Sub L L' := by
  intro fuel
  induction fuel with
  | zero => intro td sels T kvs L h; exact ⟨L, h, Sub.refl _⟩
  | succ fuel ih =>
    intro td sels T kvs L h
    obtain ⟨L1, hL1, hs1⟩ := merge_leaves h
    rw [normalize_succ]
    suffices hmem : ∀ s ∈ mergeInline td.name sels, ∀ Ls, selLeavesSel S frag T td kvs s = some Ls →
        ∃ Ls', selLeavesSel S frag T td kvs (normStep S (normalize S fuel) td s) = some Ls' ∧ Sub Ls Ls' by
      obtain ⟨L2, hL2, hs2⟩ := sels_mono_map (frag := frag) (frag' := frag) (T := T) (td := td) (kvs := kvs)
        (normStep S (normalize S fuel) td) (mergeInline td.name sels) hmem L1 hL1
      exact ⟨L2, hL2, Sub.trans hs1 hs2⟩
    · intro s _ Ls hLs
      cases s with
      | field a n ss =>
        simp only [normStep]
        cases hft : fieldTypeOf td n with
        | none => exact ⟨Ls, hLs, Sub.refl _⟩
        | some ft =>
          simp only
          cases hl : S.lookup (shape ft false).2.1 with
          | none => exact ⟨Ls, hLs, Sub.refl _⟩
          | some td' =>
            simp only
            refine field_mono a n ?_ hLs
            intro ft' hft'
            rw [hft] at hft'
            injection hft' with hft'
            subst hft'
            refine specBase_mono _ (typenameKeyOf_normalize fuel td' ss).symm ?_
            intro ctd hctd T' kvs' L' h'
            rw [hl] at hctd
            injection hctd with hctd
            subst hctd
            exact ih _ ss T' kvs' L' h'
      | inline c ss =>
        simp only [normStep]
        cases hl : S.lookup (c.getD td.name) with
        | none => exact ⟨Ls, hLs, Sub.refl _⟩
        | some ctd =>
          simp only
          rw [inline_leaves] at hLs ⊢
          simp only [hl] at hLs ⊢
          by_cases happ : (possible S (c.getD td.name)).contains T = true
          · simp only [happ, if_true] at hLs ⊢
            exact ih ctd ss T kvs Ls hLs
          · simp only [happ, Bool.false_eq_true, if_false] at hLs ⊢
            exact ⟨Ls, hLs, Sub.refl _⟩
      | spread f => exact ⟨Ls, hLs, Sub.refl _⟩

/-! ### Named fragments and whole operations -/

/-- The body of a fragment definition after normalisation. -/
def normBody (S : Schema) (cond : Name) (body : List Sel) : List Sel :=
  match S.lookup cond with
  | some td => normalize S (selsDepth body + 1) td body
  | none => body

theorem fragDefs_find_normalize {f : Name} : ∀ {defs : List Def} {d : Name × Name × List Sel},
    (fragDefsOf defs).find? (fun d => d.1 == f) = some d →
    (fragDefsOf (defs.map (normalizeDef S))).find? (fun d => d.1 == f) = some (d.1, d.2.1, normBody S d.2.1 d.2.2) := by
  intro defs
  induction defs with
  | nil => intro d h; simp [fragDefsOf] at h
  | cons df rest ih =>
    intro d h
    cases df with
    | op k n ss =>
      have h' : (fragDefsOf rest).find? (fun d => d.1 == f) = some d := by simpa [fragDefsOf] using h
      have := ih h'
      simp only [List.map_cons, normalizeDef]
      split <;> simpa [fragDefsOf] using this
    | frag n c ss =>
      have hnd : normalizeDef S (.frag n c ss) = .frag n c (normBody S c ss) := by
        simp only [normalizeDef, normBody]
        cases S.lookup c <;> rfl
      simp only [List.map_cons, hnd]
      by_cases hn : n = f
      · subst hn
        have : d = (n, c, ss) := by
          have h' := h
          simp [fragDefsOf] at h'
          exact h'.symm
        subst this
        simp [fragDefsOf]
      · have hne : (n == f) = false := by simpa using hn
        have h' : (fragDefsOf rest).find? (fun d => d.1 == f) = some d := by
          simpa [fragDefsOf, List.find?, hne] using h
        have := ih h'
        simpa [fragDefsOf, List.find?, hne] using this

theorem fragLeaves_normalize (defs : List Def) :
    ∀ fuel, FragLe (fragLeaves S (fragDefsOf defs) fuel) (fragLeaves S (fragDefsOf (defs.map (normalizeDef S))) fuel) := by
  intro fuel
  induction fuel with
  | zero => intro f T kvs L h; simp [fragLeaves] at h
  | succ fuel ih =>
    intro f T kvs L h
    unfold fragLeaves at h ⊢
    cases hfind : (fragDefsOf defs).find? (fun d => d.1 == f) with
    | none => simp [hfind] at h
    | some d =>
      simp only [hfind] at h
      rw [fragDefs_find_normalize hfind]
      simp only
      cases hl : S.lookup d.2.1 with
      | none => simp [hl] at h
      | some ctd =>
        simp only [hl] at h ⊢
        by_cases happ : (possible S d.2.1).contains T = true
        · simp only [happ, if_true] at h ⊢
          obtain ⟨L1, hL1, hs1⟩ := sels_mono_frag ih (sizeOf d.2.2) d.2.2 (Nat.le_refl _) T ctd kvs L h
          have hnb : normBody S d.2.1 d.2.2 = normalize S (selsDepth d.2.2 + 1) ctd d.2.2 := by
            simp [normBody, hl]
          rw [hnb]
          obtain ⟨L2, hL2, hs2⟩ := normalize_mono (selsDepth d.2.2 + 1) ctd d.2.2 T kvs L1 hL1
          exact ⟨L2, hL2, Sub.trans hs1 hs2⟩
        · simp only [happ, Bool.false_eq_true, if_false] at h ⊢
          exact ⟨L, h, Sub.refl _⟩

/-- A response to an operation is a response to the normalised operation, which selects at least the
    same leaves. -/
theorem opLeaves_normalize (defs : List Def) (fuel : Nat) (root : Name) (sels : List Sel) (data : Json) (L : List LeafAt)
    (h : opLeaves S (fragDefsOf defs) fuel root sels data = some L) :
    ∃ td L', S.lookup root = some td ∧
      opLeaves S (fragDefsOf (defs.map (normalizeDef S))) fuel root (normalize S (selsDepth sels + 1) td sels) data = some L' ∧
      Sub L L' := by
  unfold opLeaves at h
  cases hl : S.lookup root with
  | none => simp [hl] at h
  | some td =>
    cases td with
    | object n fs is =>
      cases data with
      | obj kvs =>
        simp only [hl] at h
        obtain ⟨L1, hL1, hs1⟩ := sels_mono_frag (fragLeaves_normalize defs fuel) (sizeOf sels) sels (Nat.le_refl _)
          n (.object n fs is) kvs L h
        obtain ⟨L2, hL2, hs2⟩ := normalize_mono (selsDepth sels + 1) (.object n fs is) sels n kvs L1 hL1
        refine ⟨_, L2, rfl, ?_, Sub.trans hs1 hs2⟩
        unfold opLeaves
        simp only [hl]
        exact hL2
      | null => simp [hl] at h
      | bool b => simp [hl] at h
      | num i t => simp [hl] at h
      | str s' => simp [hl] at h
      | arr xs => simp [hl] at h
    | scalar n => simp [hl] at h
    | enum n vs => simp [hl] at h
    | iface n fs => simp [hl] at h
    | union n ms => simp [hl] at h
    | input n => simp [hl] at h

end

end ApiFu.C20
