/-
  C20 — reference semantics, written from the GraphQL response format (not from the generator):

    * `leavesV`     what a decoded Go value holds: (path, leaf) pairs, where a path is the list of
                    object keys (case-folded, as encoding/json matches them) and list indices; a
                    `json:"-"` fragment holder is transparent (its fields sit at the level of the
                    enclosing object), a nil holder holds nothing;
    * `selLeaves…`  the leaves an operation *selects* from a response object, together with the check
                    that the response has the shape the selection demands (`none` = the value is not
                    a response to this selection): every directly selected key is present, a null
                    only where the type is nullable, `__typename` names a possible type, and a
                    fragment contributes exactly when its type condition covers the object's type.
                    Extra members are allowed (fields merged in from sibling fragments).
  Core Lean only.
-/
import ApiFu.C20.Model

namespace ApiFu.C20

inductive Leaf where
  | null
  | bool (b : Bool)
  | num (text : Name)
  | str (s : Name)
  | emptyList
  deriving Repr, DecidableEq

inductive PElem where
  | key (k : Name)      -- object key, lower-cased
  | idx (i : Nat)
  deriving Repr, DecidableEq

abbrev LeafAt := List PElem × Leaf

/-- Put leaves under one more path element. -/
def under (e : PElem) (ls : List LeafAt) : List LeafAt := ls.map fun x => (e :: x.1, x.2)

/-! ### Leaves held by a decoded Go value -/

mutual
def leavesV : GoVal → List LeafAt
  | .bool b => [([], .bool b)]
  | .int t => [([], .num t)]
  | .float t => [([], .num t)]
  | .str s => [([], .str s)]
  | .nil => [([], .null)]
  | .ptr v => leavesV v
  | .slice vs => if vs.isEmpty then [([], .emptyList)] else leavesVList 0 vs
  | .struct fs => leavesVFields fs
  | .iface _ => []
def leavesVList : Nat → List GoVal → List LeafAt
  | _, [] => []
  | i, v :: vs => under (.idx i) (leavesV v) ++ leavesVList (i + 1) vs
def leavesVFields : List GoValField → List LeafAt
  | [] => []
  | .mk n tag v :: fs =>
    (match tag with
     | .dash =>
       (match v with
        | .nil => []                  -- fragment that did not apply
        | _ => leavesV v)             -- holder: transparent
     | .key k => under (.key (lowerAll k)) (leavesV v)
     | .none => under (.key (lowerAll n)) (leavesV v)) ++ leavesVFields fs
end

/-! ### Leaves selected from a response -/

/-- The object types a value of static type `n` can have. -/
def possible (S : Schema) (n : Name) : List Name :=
  match S.lookup n with
  | some (.object m _ _) => [m]
  | some (.iface m _) => S.implementations m
  | some (.union _ ms) => ms
  | _ => []

def lookupMember : List JMember → Name → Option Json
  | [], _ => none
  | m :: ms, k => if m.key == k then some m.val else lookupMember ms k

def listLeaves (f : Json → Option (List LeafAt)) : Nat → List Json → Option (List LeafAt)
  | _, [] => some []
  | i, x :: xs =>
    match f x, listLeaves f (i + 1) xs with
    | some a, some b => some (under (.idx i) a ++ b)
    | _, _ => none

/-- A value under `d` list levels. Null is allowed at every list level (a superset of what the
    executor can send) and at the base exactly when the base is nullable. -/
def wrapLeaves (base : Json → Option (List LeafAt)) (nonNull : Bool) : Nat → Json → Option (List LeafAt)
  | 0, j =>
    match j with
    | .null => if nonNull then none else some [([], .null)]
    | _ => base j
  | d + 1, j =>
    match j with
    | .null => some [([], .null)]
    | .arr xs => if xs.isEmpty then some [([], .emptyList)] else listLeaves (wrapLeaves base nonNull d) 0 xs
    | _ => none

/-- A non-null value of a built-in scalar or enum type. -/
def scalarLeaves (S : Schema) (n : Name) (j : Json) : Option (List LeafAt) :=
  match S.lookup n with
  | some (.enum _ _) =>
    (match j with
     | .str s => some [([], .str s)]
     | _ => none)
  | some (.scalar nm) =>
    if nm == n_Boolean then
      (match j with
       | .bool b => some [([], .bool b)]
       | _ => none)
    else if nm == n_Int then
      (match j with
       | .num true t => some [([], .num t)]
       | _ => none)
    else if nm == n_Float then
      (match j with
       | .num _ t => some [([], .num t)]
       | _ => none)
    else if nm == n_String || nm == n_ID then
      (match j with
       | .str s => some [([], .str s)]
       | _ => none)
    else none
  | _ => none

/-- The response key under which `__typename` was selected directly in `sels`, if it was. -/
def typenameKeyOf : List Sel → Option Name
  | [] => none
  | .field alias name _ :: rest => if name == n_typename then some (alias.getD name) else typenameKeyOf rest
  | _ :: rest => typenameKeyOf rest

/-- The concrete type of a response object of static type `td` selected with `sels`: the object type
    itself, or what the selected `__typename` says (which must be a possible type). Without a
    selected `__typename` on an abstract type the concrete type is unknown (`[]`, matching nothing). -/
def concreteOf (S : Schema) (td : TypeDef) (sels : List Sel) (kvs : List JMember) : Option Name :=
  match td with
  | .object n _ _ => some n
  | _ =>
    match typenameKeyOf sels with
    | none => some []
    | some k =>
      match lookupMember kvs k with
      | some (.str s) => if (possible S td.name).contains s then some s else none
      | _ => none

def isComposite : TypeDef → Bool
  | .object _ _ _ | .iface _ _ | .union _ _ => true
  | _ => false

mutual
/-- Leaves one selection contributes for a response object `kvs` of concrete type `T`, selected in a
    selection set whose static type is `td`. `frag f T kvs` is the contribution of the named fragment `f`. -/
def selLeavesSel (S : Schema) (frag : Name → Name → List JMember → Option (List LeafAt))
    (T : Name) (td : TypeDef) (kvs : List JMember) : Sel → Option (List LeafAt)
  | .field alias name subs =>
    let k := alias.getD name
    match lookupMember kvs k with
    | none => none
    | some v =>
      if name == n_typename then
        (match v with
         | .str s => if s == T then some [([.key (lowerAll k)], .str s)] else none
         | _ => none)
      else
        match fieldTypeOf td name with
        | none => none
        | some ft =>
          let sh := shape ft false
          let base : Json → Option (List LeafAt) :=
            match S.lookup sh.2.1 with
            | some ctd =>
              if isComposite ctd then
                fun j =>
                  match j with
                  | .obj kvs' =>
                    (match concreteOf S ctd subs kvs' with
                     | some T' => selLeavesSels S frag T' ctd kvs' subs
                     | none => none)
                  | _ => none
              else scalarLeaves S sh.2.1
            | none => fun _ => none
          match wrapLeaves base sh.2.2 sh.1 v with
          | some ls => some (under (.key (lowerAll k)) ls)
          | none => none
  | .inline cond subs =>
    let c := cond.getD td.name
    match S.lookup c with
    | none => none
    | some ctd => if (possible S c).contains T then selLeavesSels S frag T ctd kvs subs else some []
  | .spread f => frag f T kvs
def selLeavesSels (S : Schema) (frag : Name → Name → List JMember → Option (List LeafAt))
    (T : Name) (td : TypeDef) (kvs : List JMember) : List Sel → Option (List LeafAt)
  | [] => some []
  | s :: rest =>
    match selLeavesSel S frag T td kvs s, selLeavesSels S frag T td kvs rest with
    | some a, some b => some (a ++ b)
    | _, _ => none
end

/-- The fragment definitions of a document: name ↦ (type condition, selections). -/
def fragDefsOf (defs : List Def) : List (Name × Name × List Sel) :=
  defs.filterMap fun
    | .frag n c ss => some (n, c, ss)
    | _ => none

/-- Contribution of named fragments, unfolded at most `fuel` levels deep (validation forbids
    fragment cycles, so some fuel suffices for every valid document). -/
def fragLeaves (S : Schema) (D : List (Name × Name × List Sel)) : Nat → Name → Name → List JMember → Option (List LeafAt)
  | 0, _, _, _ => none
  | fuel + 1, f, T, kvs =>
    match D.find? (fun d => d.1 == f) with
    | none => none
    | some d =>
      match S.lookup d.2.1 with
      | none => none
      | some ctd =>
        if (possible S d.2.1).contains T then selLeavesSels S (fragLeaves S D fuel) T ctd kvs d.2.2 else some []

/-- The leaves an operation with root type `root` and selections `sels` selects from `data`;
    `none` when `data` is not a response to it. -/
def opLeaves (S : Schema) (D : List (Name × Name × List Sel)) (fuel : Nat) (root : Name) (sels : List Sel)
    (data : Json) : Option (List LeafAt) :=
  match S.lookup root, data with
  | some (.object n fs is), .obj kvs => selLeavesSels S (fragLeaves S D fuel) n (.object n fs is) kvs sels
  | _, _ => none

/-- The envelope's condition on response keys: in every object of the response, keys are distinct
    ignoring letter case. -/
def keysFoldDistinct : List JMember → Bool
  | [] => true
  | m :: ms => !ms.any (fun m' => equalFold m'.key m.key) && keysFoldDistinct ms

mutual
def Json.keysOK : Json → Bool
  | .arr xs => keysOKList xs
  | .obj ms => keysFoldDistinct ms && keysOKMembers ms
  | _ => true
def keysOKList : List Json → Bool
  | [] => true
  | x :: xs => x.keysOK && keysOKList xs
def keysOKMembers : List JMember → Bool
  | [] => true
  | .mk _ v :: ms => v.keysOK && keysOKMembers ms
end

end ApiFu.C20
