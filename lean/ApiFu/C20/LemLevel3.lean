/-
  C20 — the level lemma, part 1: structural facts about the struct generated for a selection set
  inside the envelope, and the decoding of its base fields.
-/
import ApiFu.C20.LemLevel2
import ApiFu.C20.LemHolders2

namespace ApiFu.C20

variable {S : Schema} {ft : List (Name × Name)} {env : List Decl}
  {frag : Name → Name → List JMember → Option (List LeafAt)} {td : TypeDef}
  {sels : List Sel} {es : List FieldEntry}

/-- Since fix 06: distinct field names and distinct fragment identities give distinct Go names for
    all members, holders included. -/
theorem keysNodup_fst (h : keysNodup td sels = true) : (sels.map fun s => fieldName (memberKey (holderTable td.name sels) td s)).Nodup := by
  simp only [keysNodup, Bool.and_eq_true] at h
  exact holders_distinct td sels ((nodupB_iff _).mp h.1.1) ((nodupB_iff _).mp h.1.2)

theorem memberKey_field_tbl (tbl tbl' : HolderTable) (td : TypeDef) {s : Sel} (h : isFieldSel s = true) :
    memberKey tbl td s = memberKey tbl' td s := by
  cases s with
  | field a n ss => rfl
  | inline c ss => simp [isFieldSel] at h
  | spread f => simp [isFieldSel] at h

theorem keysNodup_snd (h : keysNodup td sels = true) :
    ((sels.filter isFieldSel).map fun s => lowerAll (memberKey (holderTable td.name sels) td s)).Nodup := by
  simp only [keysNodup, Bool.and_eq_true] at h
  have := (nodupB_iff _).mp h.2
  have heq : ((sels.filter isFieldSel).map fun s => lowerAll (memberKey (holderTable td.name sels) td s)) =
      ((sels.filter isFieldSel).map fun s => lowerAll (memberKey [] td s)) := by
    apply List.map_congr_left
    intro s hs
    rw [memberKey_field_tbl _ [] td (List.mem_filter.mp hs).2]
  rw [heq]
  exact this

theorem sels_inj (h : keysNodup td sels = true) :
    ∀ s1 ∈ sels, ∀ s2 ∈ sels, fieldName (memberKey (holderTable td.name sels) td s1) = fieldName (memberKey (holderTable td.name sels) td s2) → s1 = s2 :=
  inj_of_nodup_map (fun s => fieldName (memberKey (holderTable td.name sels) td s)) (keysNodup_fst h)

theorem es_inj (hmem : Forall2 (MemberGood S env frag (holderTable td.name sels) td) sels es) (h : keysNodup td sels = true) :
    ∀ e1 ∈ es, ∀ e2 ∈ es, fieldName e1.key = fieldName e2.key → e1 = e2 := by
  apply inj_of_nodup_map (fun e : FieldEntry => fieldName e.key)
  rw [forall2_keys hmem]
  exact keysNodup_fst h

theorem goFields_names_nodup (hmem : Forall2 (MemberGood S env frag (holderTable td.name sels) td) sels es) (h : keysNodup td sels = true) :
    ((es.map toGoField).map GoField.name).Nodup := by
  have : (es.map toGoField).map GoField.name = es.map (fun e => fieldName e.key) := by
    simp [List.map_map, Function.comp_def, toGoField_name]
  rw [this, forall2_keys hmem]
  exact keysNodup_fst h

theorem mem_fs_iff {g : GoField} : g ∈ sortFields (es.map toGoField) ↔ ∃ e ∈ es, g = toGoField e := by
  rw [mem_sortFields, List.mem_map]
  constructor
  · rintro ⟨e, he, rfl⟩; exact ⟨e, he, rfl⟩
  · rintro ⟨e, he, rfl⟩; exact ⟨e, he, rfl⟩

theorem fs_nameInj (hmem : Forall2 (MemberGood S env frag (holderTable td.name sels) td) sels es) (h : keysNodup td sels = true) :
    NameInj (sortFields (es.map toGoField)) := by
  apply nameInj_of_nodup
  exact ((sortFields_perm _).map GoField.name).nodup_iff.mpr (goFields_names_nodup hmem h)

/-- A member whose entry is not a `json:"-"` holder is a field selection with an admissible key. -/
theorem field_of_not_dash (hmem : Forall2 (MemberGood S env frag (holderTable td.name sels) td) sels es) (hok : membersOK S ft td sels = true)
    {e : FieldEntry} (he : e ∈ es) (hd : e.dash = false) :
    ∃ s ∈ sels, isFieldSel s = true ∧ e.key = memberKey (holderTable td.name sels) td s ∧ keyOK e.key = true ∧ MemberGood S env frag (holderTable td.name sels) td s e := by
  obtain ⟨s, hs, hg⟩ := Forall2.mem_right hmem e he
  have hsel := membersOK_mem hok s hs
  cases s with
  | field alias name subs =>
    refine ⟨_, hs, rfl, hg.1, ?_, hg⟩
    simp only [selOK, Bool.and_eq_true] at hsel
    rw [hg.1]
    exact hsel.1
  | inline c ss =>
    have := hg.2.1
    rw [hd] at this
    cases this
  | spread f =>
    have := hg.2.1
    rw [hd] at this
    cases this

theorem fs_foldInj (hmem : Forall2 (MemberGood S env frag (holderTable td.name sels) td) sels es) (hok : setOK S ft td sels = true) :
    FoldInj (sortFields (es.map toGoField)) := by
  simp only [setOK, Bool.and_eq_true] at hok
  obtain ⟨hmok, hnd⟩ := hok
  intro g hg h hh a b ha hb hab
  obtain ⟨e1, he1, rfl⟩ := mem_fs_iff.mp hg
  obtain ⟨e2, he2, rfl⟩ := mem_fs_iff.mp hh
  have hd1 : e1.dash = false := by
    cases hd : e1.dash with
    | false => rfl
    | true => rw [jsonNameOf_toGoField_dash hd] at ha; cases ha
  have hd2 : e2.dash = false := by
    cases hd : e2.dash with
    | false => rfl
    | true => rw [jsonNameOf_toGoField_dash hd] at hb; cases hb
  obtain ⟨s1, hs1, hf1, hk1, hko1, _⟩ := field_of_not_dash hmem hmok he1 hd1
  obtain ⟨s2, hs2, hf2, hk2, hko2, _⟩ := field_of_not_dash hmem hmok he2 hd2
  obtain ⟨jn1, hj1, hl1⟩ := jsonNameOf_toGoField hd1 hko1
  obtain ⟨jn2, hj2, hl2⟩ := jsonNameOf_toGoField hd2 hko2
  rw [hj1] at ha
  rw [hj2] at hb
  injection ha with ha
  injection hb with hb
  subst ha hb
  have hlow : lowerAll (memberKey (holderTable td.name sels) td s1) = lowerAll (memberKey (holderTable td.name sels) td s2) := by
    rw [← hk1, ← hk2, ← hl1, ← hl2, hab]
  have hs12 : s1 = s2 :=
    inj_of_nodup_map (fun s => lowerAll (memberKey (holderTable td.name sels) td s)) (keysNodup_snd hnd) s1
      (List.mem_filter.mpr ⟨hs1, hf1⟩) s2 (List.mem_filter.mpr ⟨hs2, hf2⟩) hlow
  subst hs12
  have : e1 = e2 := es_inj hmem hnd e1 he1 e2 he2 (by rw [hk1, hk2])
  rw [this]

/-- What the base struct holds after `json.Unmarshal(b, &base)`, field by field. -/
def BaseRel (S : Schema) (env : List Decl) (frag : Name → Name → List JMember → Option (List LeafAt))
    (td : TypeDef) (sels : List Sel) (fs : List GoField) (T : Name) (kvs : List JMember)
    (g : GoField) (vf : GoValField) : Prop :=
  FieldDecodes env fs kvs g vf ∧ vf.name = g.name ∧ vf.tag = g.tag ∧
  (jsonNameOf g = none → vf.val = .nil) ∧
  (∀ s ∈ sels, isFieldSel s = true → g.name = fieldName (memberKey (holderTable td.name sels) td s) →
    ∀ Ls, selLeavesSel S frag T td kvs s = some Ls → ∀ x ∈ Ls, x ∈ leavesVFields [vf]) ∧
  (∀ alias subs, Sel.field alias n_typename subs ∈ sels → g.name = fieldName (alias.getD n_typename) →
    vf.val = .str T)

theorem base_exists (hmem : Forall2 (MemberGood S env frag (holderTable td.name sels) td) sels es) (hok : setOK S ft td sels = true)
    {T : Name} {kvs : List JMember} {L : List LeafAt}
    (hL : selLeavesSels S frag T td kvs sels = some L)
    (hkd : keysFoldDistinct kvs = true) (hko : keysOKMembers kvs = true) :
    ∀ g ∈ sortFields (es.map toGoField), ∃ vf, BaseRel S env frag td sels (sortFields (es.map toGoField)) T kvs g vf := by
  have hfold := fs_foldInj hmem hok
  simp only [setOK, Bool.and_eq_true] at hok
  obtain ⟨hmok, hnd⟩ := hok
  have hname := fs_nameInj hmem hnd
  obtain ⟨hS1, _⟩ := selLeavesSels_mem hL
  intro g hg
  obtain ⟨e, he, rfl⟩ := mem_fs_iff.mp hg
  cases hd : e.dash with
  | true =>
    -- a fragment holder: encoding/json ignores it, it stays nil
    have hj := jsonNameOf_toGoField_dash hd
    have hlast := lastFor_none_of_ignored hname hg hj kvs
    obtain ⟨s, hs, hgood⟩ := Forall2.mem_right hmem e he
    have hptr : ∃ t, e.ty = .ptr t := by
      cases s with
      | field a n ss => have := hgood.2.1; rw [hd] at this; cases this
      | inline c ss => obtain ⟨_, _, ctd, tyB, _, h, _⟩ := hgood; exact ⟨tyB, h⟩
      | spread f => exact ⟨_, hgood.2.2⟩
    obtain ⟨t, ht⟩ := hptr
    refine ⟨.mk (toGoField e).name (toGoField e).tag .nil, ?_, rfl, rfl, fun _ => rfl, ?_, ?_⟩
    · unfold FieldDecodes
      rw [hlast]
      simp [toGoField_ty, ht, zeroWith_ptr]
    · intro s' hs' hf' hname' Ls _
      -- the member with this Go name is the holder's member, which is not a field selection
      have : s' = s := sels_inj hnd s' hs' s hs (by rw [← hname', toGoField_name, hgood.1])
      subst this
      cases s' with
      | field a n ss => have := hgood.2.1; rw [hd] at this; cases this
      | inline c ss => simp [isFieldSel] at hf'
      | spread f => simp [isFieldSel] at hf'
    · intro alias subs hm' hname'
      have : Sel.field alias n_typename subs = s :=
        sels_inj hnd _ hm' s hs (by rw [← hgood.1]; simpa [memberKey, toGoField_name] using hname'.symm)
      subst this
      have := hgood.2.1
      rw [hd] at this
      cases this
  | false =>
    obtain ⟨s, hs, hfs, hkey, hkok, hgood⟩ := field_of_not_dash hmem hmok he hd
    obtain ⟨jn, hjn, hlow⟩ := jsonNameOf_toGoField hd hkok
    obtain ⟨Ls, hLs, _⟩ := hS1 s hs
    cases s with
    | inline c ss => simp [isFieldSel] at hfs
    | spread f => simp [isFieldSel] at hfs
    | field alias name subs =>
      have hkey' : e.key = alias.getD name := hkey
      rw [selLeavesSel_field] at hLs
      cases hlook : lookupMember kvs (alias.getD name) with
      | none => simp [hlook] at hLs
      | some v =>
        simp only [hlook] at hLs
        have hlast : lastFor (sortFields (es.map toGoField)) (toGoField e).name kvs = some v :=
          lastFor_of_lookup hfold hname hg hjn (by rw [hlow, hkey']) hkd hlook
        -- every field selection with this Go name is this one
        have huniq : ∀ s' ∈ sels, (toGoField e).name = fieldName (memberKey (holderTable td.name sels) td s') → s' = Sel.field alias name subs := by
          intro s' hs' hn'
          exact sels_inj hnd s' hs' _ hs (by rw [← hn', toGoField_name, hkey]; )
        by_cases hn : name = n_typename
        · subst hn
          have hty : e.ty = .string := by simpa using hgood.2.2
          simp only [beq_self_eq_true, if_true] at hLs
          cases v with
          | str s' =>
            simp only at hLs
            by_cases hsT : s' = T
            · subst hsT
              simp at hLs
              refine ⟨.mk (toGoField e).name (toGoField e).tag (.str s'), ?_, rfl, rfl, ?_, ?_, ?_⟩
              · unfold FieldDecodes
                rw [hlast]
                exact ⟨.str s', by rw [toGoField_ty, hty]; exact Decodes.string env s', rfl⟩
              · intro hnone; rw [hjn] at hnone; cases hnone
              · intro s'' hs'' _ hn'' Ls' hLs' x hx
                have := huniq s'' hs'' hn''
                subst this
                rw [selLeavesSel_field, hlook] at hLs'
                simp at hLs'
                subst hLs'
                rw [leaves_of_field hd hkok, hkey']
                simp [under, leavesV] at hx ⊢
                exact hx
              · intro _ _ _ _; rfl
            · have : (s' == T) = false := by simpa using hsT
              simp [this] at hLs
          | _ => simp at hLs
        · have hn' : (name == n_typename) = false := by simpa using hn
          simp only [hn', Bool.false_eq_true, if_false] at hLs
          have hg2 := hgood.2.2
          simp only [hn', Bool.false_eq_true, if_false] at hg2
          obtain ⟨ftype, hft, hval⟩ := hg2
          simp only [hft] at hLs
          cases hw : wrapLeaves (specBase S frag (shape ftype false).2.1 subs) (shape ftype false).2.2 (shape ftype false).1 v with
          | none => simp [hw] at hLs
          | some ls =>
            simp [hw] at hLs
            obtain ⟨w, hdec, hcov⟩ := hval v ls (lookupMember_keysOK hko hlook) hw
            refine ⟨.mk (toGoField e).name (toGoField e).tag w, ?_, rfl, rfl, ?_, ?_, ?_⟩
            · unfold FieldDecodes
              rw [hlast]
              exact ⟨w, by rw [toGoField_ty]; exact hdec, rfl⟩
            · intro hnone; rw [hjn] at hnone; cases hnone
            · intro s'' hs'' _ hn'' Ls' hLs' x hx
              have := huniq s'' hs'' hn''
              subst this
              rw [selLeavesSel_field, hlook] at hLs'
              simp only [hn', Bool.false_eq_true, if_false, hft, hw] at hLs'
              injection hLs' with hLs'
              subst hLs'
              rw [leaves_of_field hd hkok, hkey']
              exact under_subset hcov x hx
            · intro alias' subs' hm' hname'
              have := huniq _ hm' (by simpa [memberKey] using hname')
              injection this with _ h2 _
              exact absurd h2.symm hn

end ApiFu.C20
