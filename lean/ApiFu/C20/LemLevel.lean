/-
  C20 — one selection-set level: from what the generator recorded for each member of a selection
  set (`MemberGood`) to the goodness of the struct / `sel…` type generated for the set (`LevelGood`).
-/
import ApiFu.C20.LemCore

namespace ApiFu.C20

/-! ### Small list facts -/

theorem forall2_of_forall_exists {α β : Type} {R : α → β → Prop} :
    ∀ {xs : List α}, (∀ x ∈ xs, ∃ y, R x y) → ∃ ys, Forall2 R xs ys := by
  intro xs
  induction xs with
  | nil => intro _; exact ⟨[], .nil⟩
  | cons x xs ih =>
    intro h
    obtain ⟨y, hy⟩ := h x List.mem_cons_self
    obtain ⟨ys, hys⟩ := ih (fun z hz => h z (List.mem_cons_of_mem _ hz))
    exact ⟨y :: ys, .cons hy hys⟩

theorem Forall2.mem_left {α β : Type} {R : α → β → Prop} :
    ∀ {xs : List α} {ys : List β}, Forall2 R xs ys → ∀ x ∈ xs, ∃ y ∈ ys, R x y := by
  intro xs ys h
  induction h with
  | nil => intro x hx; cases hx
  | @cons a b as bs hab _ ih =>
    intro x hx
    rcases List.mem_cons.mp hx with rfl | hx
    · exact ⟨b, List.mem_cons_self, hab⟩
    · obtain ⟨y, hy, hr⟩ := ih x hx
      exact ⟨y, List.mem_cons_of_mem _ hy, hr⟩

theorem Forall2.mem_right {α β : Type} {R : α → β → Prop} :
    ∀ {xs : List α} {ys : List β}, Forall2 R xs ys → ∀ y ∈ ys, ∃ x ∈ xs, R x y := by
  intro xs ys h
  induction h with
  | nil => intro y hy; cases hy
  | @cons a b as bs hab _ ih =>
    intro y hy
    rcases List.mem_cons.mp hy with rfl | hy
    · exact ⟨a, List.mem_cons_self, hab⟩
    · obtain ⟨x, hx, hr⟩ := ih y hy
      exact ⟨x, List.mem_cons_of_mem _ hx, hr⟩

theorem inj_of_nodup_map {α β : Type} (f : α → β) :
    ∀ {l : List α}, (l.map f).Nodup → ∀ x ∈ l, ∀ y ∈ l, f x = f y → x = y := by
  intro l
  induction l with
  | nil => intro _ x hx; cases hx
  | cons a as ih =>
    intro hnd x hx y hy heq
    simp only [List.map_cons, List.nodup_cons] at hnd
    rcases List.mem_cons.mp hx with rfl | hx'
    · rcases List.mem_cons.mp hy with rfl | hy'
      · rfl
      · exact absurd (List.mem_map.mpr ⟨y, hy', heq.symm⟩) hnd.1
    · rcases List.mem_cons.mp hy with rfl | hy'
      · exact absurd (List.mem_map.mpr ⟨x, hx', heq⟩) hnd.1
      · exact ih hnd.2 x hx' y hy' heq

/-! ### Facts about the specification -/

theorem selLeavesSels_mem {S : Schema} {frag : Name → Name → List JMember → Option (List LeafAt)} {T : Name}
    {td : TypeDef} {kvs : List JMember} :
    ∀ {sels : List Sel} {L : List LeafAt}, selLeavesSels S frag T td kvs sels = some L →
      (∀ s ∈ sels, ∃ Ls, selLeavesSel S frag T td kvs s = some Ls ∧ ∀ x ∈ Ls, x ∈ L) ∧
      (∀ x ∈ L, ∃ s ∈ sels, ∃ Ls, selLeavesSel S frag T td kvs s = some Ls ∧ x ∈ Ls) := by
  intro sels
  induction sels with
  | nil =>
    intro L h
    simp [selLeavesSels] at h
    subst h
    exact ⟨fun s hs => (nomatch hs), fun x hx => (nomatch hx)⟩
  | cons s rest ih =>
    intro L h
    unfold selLeavesSels at h
    cases hs : selLeavesSel S frag T td kvs s with
    | none => simp [hs] at h
    | some a =>
      cases hr : selLeavesSels S frag T td kvs rest with
      | none => simp [hs, hr] at h
      | some b =>
        simp [hs, hr] at h
        subst h
        obtain ⟨ih1, ih2⟩ := ih hr
        constructor
        · intro s' hs'
          rcases List.mem_cons.mp hs' with rfl | hs'
          · exact ⟨a, hs, fun x hx => List.mem_append_left _ hx⟩
          · obtain ⟨Ls, h1, h2⟩ := ih1 s' hs'
            exact ⟨Ls, h1, fun x hx => List.mem_append_right _ (h2 x hx)⟩
        · intro x hx
          rcases List.mem_append.mp hx with hx | hx
          · exact ⟨s, List.mem_cons_self, a, hs, hx⟩
          · obtain ⟨s', hs', Ls, h1, h2⟩ := ih2 x hx
            exact ⟨s', List.mem_cons_of_mem _ hs', Ls, h1, h2⟩

theorem lookupMember_keysOK : ∀ {kvs : List JMember} {k : Name} {v : Json},
    keysOKMembers kvs = true → lookupMember kvs k = some v → v.keysOK = true := by
  intro kvs
  induction kvs with
  | nil => intro k v _ h; simp [lookupMember] at h
  | cons m ms ih =>
    intro k v hk h
    cases m with
    | mk mk' mv =>
      simp only [keysOKMembers, Bool.and_eq_true] at hk
      unfold lookupMember at h
      by_cases hm : mk' = k
      · simp [JMember.key, JMember.val, hm] at h
        subst h
        exact hk.1
      · have : (mk' == k) = false := by simpa using hm
        simp [JMember.key, this] at h
        exact ih hk.2 h

theorem typenameFieldOf_some : ∀ {sels : List Sel} {tn : Name}, typenameFieldOf sels = some tn →
    ∃ alias subs, Sel.field alias n_typename subs ∈ sels ∧ tn = fieldName (alias.getD n_typename) := by
  intro sels
  induction sels with
  | nil => intro tn h; simp [typenameFieldOf] at h
  | cons s rest ih =>
    intro tn h
    cases s with
    | field alias name subs =>
      unfold typenameFieldOf at h
      by_cases hn : name = n_typename
      · subst hn
        simp at h
        exact ⟨alias, subs, List.mem_cons_self, h.symm⟩
      · have : (name == n_typename) = false := by simpa using hn
        simp [this] at h
        obtain ⟨a, ss, hm, ht⟩ := ih h
        exact ⟨a, ss, List.mem_cons_of_mem _ hm, ht⟩
    | spread f =>
      unfold typenameFieldOf at h
      obtain ⟨a, ss, hm, ht⟩ := ih h
      exact ⟨a, ss, List.mem_cons_of_mem _ hm, ht⟩
    | inline c ss' =>
      unfold typenameFieldOf at h
      obtain ⟨a, ss, hm, ht⟩ := ih h
      exact ⟨a, ss, List.mem_cons_of_mem _ hm, ht⟩

/-! ### Leaves of struct fields -/

theorem leavesVFields_append (a b : List GoValField) : leavesVFields (a ++ b) = leavesVFields a ++ leavesVFields b := by
  induction a with
  | nil => simp [leavesVFields]
  | cons x xs ih =>
    cases x with
    | mk n t v => simp [leavesVFields, ih, List.append_assoc]

theorem mem_leavesVFields {ws : List GoValField} {x : LeafAt} :
    x ∈ leavesVFields ws ↔ ∃ w ∈ ws, x ∈ leavesVFields [w] := by
  induction ws with
  | nil => simp [leavesVFields]
  | cons w ws ih =>
    have : leavesVFields (w :: ws) = leavesVFields [w] ++ leavesVFields ws := leavesVFields_append [w] ws
    rw [this, List.mem_append, ih]
    constructor
    · rintro (h | ⟨w', hw', h⟩)
      · exact ⟨w, List.mem_cons_self, h⟩
      · exact ⟨w', List.mem_cons_of_mem _ hw', h⟩
    · rintro ⟨w', hw', h⟩
      rcases List.mem_cons.mp hw' with rfl | hw'
      · exact Or.inl h
      · exact Or.inr ⟨w', hw', h⟩

/-- The leaves of the field generated for a response key sit under that key (case-folded). -/
theorem leaves_of_field {e : FieldEntry} (hd : e.dash = false) (hk : keyOK e.key = true) (v : GoVal) :
    leavesVFields [GoValField.mk (toGoField e).name (toGoField e).tag v] = under (.key (lowerAll e.key)) (leavesV v) := by
  have hex : isExported (fieldName e.key) = true := isExported_fieldName_of_keyOK hk
  simp only [keyOK, Bool.or_eq_true, beq_iff_eq] at hk
  rcases hk with hk | hk
  · have : (toGoField e).tag = .none := by
      simp [toGoField, GoField.tag, hd, equalFold_fieldName hk]
    simp [leavesVFields, this, toGoField_name, lowerAll_fieldName hk]
  · have h2 : equalFold (fieldName e.key) e.key = false := by rw [hk]; decide
    have : (toGoField e).tag = .key e.key := by
      simp [toGoField, GoField.tag, hd, h2]
    simp [leavesVFields, this]

/-- A non-nil fragment holder is transparent. -/
theorem leaves_of_holder (n : Name) (ws : List GoValField) :
    leavesVFields [GoValField.mk n .dash (.ptr (.struct ws))] = leavesVFields ws := by
  simp [leavesVFields, leavesV]

end ApiFu.C20
