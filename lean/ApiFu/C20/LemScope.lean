/-
  C20 — the Go scopes of the generated identifiers (lemmas for PropsNames.lean).

  * package scope: every declaration contributes its name, an enum declaration also its constants
    (`Decl.idents`, `pkgIdents`);
  * `identsOK S tds`: the explicit, decidable condition on the schema's enums and the run's
    `<Op>Data`/`<F>Fragment` names under which the package scope is collision-free;
  * `EnumDeclOK`: every enum declaration of the output is the one `generateType` emits for an enum of
    the schema (an invariant of the generator that needs no envelope);
  * struct scope: the Go names of the *fields* of one selection set are distinct as soon as the
    response keys are distinct ignoring case and `__typename` does not meet a key spelled `typename__`.
-/
import ApiFu.C20.LemFinal

namespace ApiFu.C20

/-! ### Package scope -/

def n_s : Name := [115]
def n_b : Name := [98]

/-- The package-level identifiers one declaration introduces. -/
def Decl.idents : Decl → List Name
  | .enum n cs => n :: cs.map (fun c => c.1)
  | .sel n _ _ => [n]
  | .typedef n _ _ => [n]

/-- All package-level identifiers of the output (types and constants; the only other package-level
    name is the import `json`, which is in `goReserved`). -/
def pkgIdents (decls : List Decl) : List Name := (decls.map Decl.idents).flatten

def enumsOf (S : Schema) : List (Name × List Name) :=
  S.types.filterMap fun
    | .enum n vs => some (n, vs)
    | _ => none

/-- The identifiers the generator uses for one enum of the schema: the type and its constants. -/
def enumIdents (e : Name × List Name) : List Name :=
  goTypeName e.1 :: (enumConsts (goTypeName e.1) e.2).map (fun c => c.1)

def schemaIdents (S : Schema) : List Name := ((enumsOf S).map enumIdents).flatten

/-- An identifier the generated method bodies can refer to safely: not a Go keyword, not a
    predeclared identifier, not `json`, and not a parameter of the generated `UnmarshalJSON`
    (`func (s *T) UnmarshalJSON(b []byte) error`: inside it `s` and `b` shadow package-level names, and
    the struct type of `var base struct{…}` is written inside it). -/
def identFree (n : Name) : Bool := !goReserved.contains n && n != n_s && n != n_b

/-- **The well-formedness predicate on names** (decidable; on the schema and the `<Op>Data` /
    `<F>Fragment` names `tds` of the run): the enum type names, the enum constants of *all* enums and
    the typedef names are pairwise distinct, none begins with `sel`, and no enum type or constant is
    reserved in Go or shadowed inside the generated methods. -/
def identsOK (S : Schema) (tds : List Name) : Bool :=
  nodupB (schemaIdents S ++ tds) &&
  (schemaIdents S ++ tds).all (fun n => !startsWithSel n) &&
  (schemaIdents S).all identFree

/-- The model-level "the package scope is fine": all package-level identifiers are pairwise distinct
    and each is free (not reserved, not shadowed in the generated methods). -/
def pkgScopeWF (decls : List Decl) : Bool :=
  nodupB (pkgIdents decls) && (pkgIdents decls).all identFree

theorem mem_enumsOf {S : Schema} {nm : Name} {vs : List Name} (h : TypeDef.enum nm vs ∈ S.types) :
    (nm, vs) ∈ enumsOf S := by
  unfold enumsOf
  exact List.mem_filterMap.mpr ⟨_, h, rfl⟩

theorem enumsOf_mem {S : Schema} {e : Name × List Name} (h : e ∈ enumsOf S) : TypeDef.enum e.1 e.2 ∈ S.types := by
  unfold enumsOf at h
  obtain ⟨td, htd, he⟩ := List.mem_filterMap.mp h
  cases td <;> simp at he
  subst he
  exact htd

theorem mem_schemaIdents {S : Schema} {e : Name × List Name} (he : e ∈ enumsOf S) {i : Name} (hi : i ∈ enumIdents e) :
    i ∈ schemaIdents S := by
  unfold schemaIdents
  exact List.mem_flatten.mpr ⟨_, List.mem_map.mpr ⟨e, he, rfl⟩, hi⟩

/-- In a duplicate-free concatenation every element has one owner. -/
theorem flatten_owner {α : Type} (g : α → List Name) : ∀ (l : List α), ((l.map g).flatten).Nodup →
    ∀ a ∈ l, ∀ b ∈ l, ∀ i, i ∈ g a → i ∈ g b → a = b := by
  intro l
  induction l with
  | nil => intro _ a ha; cases ha
  | cons x xs ih =>
    intro hnd a ha b hb i hia hib
    simp only [List.map_cons, List.flatten_cons] at hnd
    obtain ⟨_, h2, h3⟩ := List.nodup_append.mp hnd
    have hin : ∀ c ∈ xs, i ∈ g c → i ∈ (xs.map g).flatten :=
      fun c hc hic => List.mem_flatten.mpr ⟨_, List.mem_map.mpr ⟨c, hc, rfl⟩, hic⟩
    rcases List.mem_cons.mp ha with rfl | ha'
    · rcases List.mem_cons.mp hb with rfl | hb'
      · rfl
      · exact absurd rfl (h3 i hia i (hin b hb' hib))
    · rcases List.mem_cons.mp hb with rfl | hb'
      · exact absurd rfl (h3 i hib i (hin a ha' hia))
      · exact ih h2 a ha' b hb' i hia hib

theorem flatten_part_nodup {α : Type} (g : α → List Name) : ∀ (l : List α), ((l.map g).flatten).Nodup →
    ∀ a ∈ l, (g a).Nodup := by
  intro l
  induction l with
  | nil => intro _ a ha; cases ha
  | cons x xs ih =>
    intro hnd a ha
    simp only [List.map_cons, List.flatten_cons] at hnd
    obtain ⟨h1, h2, _⟩ := List.nodup_append.mp hnd
    rcases List.mem_cons.mp ha with rfl | ha'
    · exact h1
    · exact ih h2 a ha'

structure IdentsOK (S : Schema) (tds : List Name) : Prop where
  nodup : (schemaIdents S ++ tds).Nodup
  noSel : ∀ n ∈ schemaIdents S ++ tds, startsWithSel n = false
  free : ∀ n ∈ schemaIdents S, identFree n = true

theorem identsOK_iff {S : Schema} {tds : List Name} (h : identsOK S tds = true) : IdentsOK S tds := by
  simp only [identsOK, Bool.and_eq_true] at h
  obtain ⟨⟨h1, h2⟩, h3⟩ := h
  refine ⟨(nodupB_iff _).mp h1, ?_, ?_⟩
  · intro n hn
    have := List.all_eq_true.mp h2 n hn
    simpa using this
  · intro n hn
    exact List.all_eq_true.mp h3 n hn

/-- The naming assumptions of `gen_wf` / `decode_preserves_leaves` follow from the decidable check. -/
theorem namesHyp_of_identsOK {S : Schema} {tds : List Name} (h : IdentsOK S tds) : NamesHyp S tds ∧ tds.Nodup := by
  obtain ⟨hnd, hns, _⟩ := h
  obtain ⟨hndS, hndT, hdisj⟩ := List.nodup_append.mp hnd
  refine ⟨⟨?_, ?_, ?_, ?_⟩, hndT⟩
  · intro nm vs hm
    exact hns _ (List.mem_append_left _ (mem_schemaIdents (mem_enumsOf hm) (by simp [enumIdents])))
  · intro n hn
    exact hns _ (List.mem_append_right _ hn)
  · intro nm vs hm hmem
    exact hdisj _ (mem_schemaIdents (mem_enumsOf hm) (by simp [enumIdents])) _ hmem rfl
  · intro nm vs nm' vs' hm hm' heq
    have := flatten_owner enumIdents (enumsOf S) hndS _ (mem_enumsOf hm) _ (mem_enumsOf hm') (goTypeName nm)
      (by simp [enumIdents]) (by rw [heq]; simp [enumIdents])
    exact congrArg Prod.fst this

/-! ### Every enum declaration of the output is the schema's -/

def EnumDeclOK (S : Schema) : Decl → Prop
  | .enum n cs => ∃ e ∈ enumsOf S, n = goTypeName e.1 ∧ cs = enumConsts (goTypeName e.1) e.2
  | _ => True

def StEnumOK (S : Schema) (st : St) : Prop := ∀ d ∈ st.decls, EnumDeclOK S d

theorem stEnumOK_append {S : Schema} {st : St} {d : Decl} (h : StEnumOK S st) (hd : EnumDeclOK S d) :
    ∀ d' ∈ st.decls ++ [d], EnumDeclOK S d' := by
  intro d' hd'
  rcases List.mem_append.mp hd' with h' | h'
  · exact h d' h'
  · simp at h'; subst h'; exact hd

theorem genAt_enumOK {S : Schema} {n : Name} {nn : Bool} {tn : Option Name} {st st' : St} {ty : GoTy}
    {walk : TypeDef → St → Except Err (Fields × Conds × St)}
    (hw : ∀ td f c s1, walk td st = .ok (f, c, s1) → StEnumOK S s1)
    (h : genAt S n nn tn st walk = .ok (ty, st')) (hinv : StEnumOK S st) : StEnumOK S st' := by
  cases hl : S.lookup n with
  | none =>
    unfold genAt at h; simp only [hl] at h
    injection h with h; injection h with _ h2; subst h2; exact hinv
  | some td =>
    by_cases hc : isComposite td = true
    · rw [genAt_composite hl hc] at h
      cases hwalk : walk td st with
      | error e => simp [hwalk] at h
      | ok r =>
        obtain ⟨f, c, s1⟩ := r
        simp only [hwalk] at h
        have h1 := hw td f c s1 hwalk
        by_cases hempty : c.isEmpty = true
        · simp only [hempty, if_true] at h
          injection h with h; injection h with _ h2; subst h2; exact h1
        · simp only [hempty, Bool.false_eq_true, if_false] at h
          injection h with h; injection h with _ h2; subst h2
          exact stEnumOK_append h1 trivial
    · cases td with
      | object a b c => simp [isComposite] at hc
      | iface a b => simp [isComposite] at hc
      | union a b => simp [isComposite] at hc
      | scalar nm =>
        rw [genAt_scalar hl] at h
        injection h with h; injection h with _ h2; subst h2; exact hinv
      | input nm =>
        unfold genAt at h; simp only [hl] at h
        injection h with h; injection h with _ h2; subst h2; exact hinv
      | enum nm vs =>
        rw [genAt_enum hl] at h
        injection h with h; injection h with _ h2; subst h2
        by_cases hcon : st.enums.contains nm = true
        · simp only [hcon, if_true]; exact hinv
        · simp only [hcon, Bool.false_eq_true, if_false]
          have hmem : TypeDef.enum nm vs ∈ S.types := Schema.lookup_mem hl
          exact stEnumOK_append hinv ⟨(nm, vs), mem_enumsOf hmem, rfl, rfl⟩

/-- The loop over the selections keeps the invariant (no envelope needed). -/
theorem genSels_enumOK (S : Schema) (ft : List (Name × Name)) :
    ∀ (k : Nat) (sels : List Sel), sizeOf sels ≤ k →
      ∀ (td : TypeDef) (tbl : HolderTable) (hasTn : Bool) (fields : Fields) (conds : Conds) (st : St)
        (f : Fields) (c : Conds) (st' : St),
        genSels S ft td tbl hasTn sels fields conds st = .ok (f, c, st') → StEnumOK S st → StEnumOK S st' := by
  intro k
  induction k with
  | zero =>
    intro sels hk
    cases sels with
    | nil => simp at hk
    | cons a as => simp at hk
  | succ k ih =>
    intro sels
    induction sels with
    | nil =>
      intro _ td tbl hasTn fields conds st f c st' hgen hinv
      simp only [genSels] at hgen
      injection hgen with hgen
      injection hgen with _ h2
      injection h2 with _ h3
      subst h3
      exact hinv
    | cons s rest ihr =>
      intro hk td tbl hasTn fields conds st f c st' hgen hinv
      have hsub : ∀ subs, subs = subsOf s → sizeOf subs ≤ k := by
        intro subs hs
        have := sizeOf_subsOf_lt (s := s) (sels := s :: rest) List.mem_cons_self
        rw [hs]; omega
      have hrest : sizeOf rest ≤ k + 1 := by
        simp only [List.cons.sizeOf_spec] at hk; omega
      unfold genSels at hgen
      cases hstep : genSel S ft td tbl hasTn s fields conds st with
      | error e => simp [hstep] at hgen
      | ok r =>
        obtain ⟨f1, c1, st1⟩ := r
        simp only [hstep] at hgen
        refine ihr hrest td tbl hasTn f1 c1 st1 f c st' hgen ?_
        -- one selection
        cases s with
        | spread name =>
          unfold genSel at hstep
          split at hstep
          · cases hstep
          · injection hstep with hstep
            injection hstep with _ h2
            injection h2 with _ h3
            subst h3
            exact hinv
        | inline cond subs =>
          unfold genSel at hstep
          split at hstep
          · cases hstep
          · simp only at hstep
            split at hstep
            · cases hstep
            · split at hstep
              · cases hstep
              · rename_i gen st2 hg
                injection hstep with hstep
                injection hstep with _ h2
                injection h2 with _ h3
                subst h3
                refine genAt_enumOK ?_ hg hinv
                intro td' f' c' s1 hwalk
                exact ih subs (hsub subs rfl) td' _ _ [] [] st f' c' s1 hwalk hinv
        | field alias name subs =>
          unfold genSel at hstep
          simp only at hstep
          split at hstep
          · injection hstep with hstep
            injection hstep with _ h2
            injection h2 with _ h3
            subst h3
            exact hinv
          · split at hstep
            · injection hstep with hstep
              injection hstep with _ h2
              injection h2 with _ h3
              subst h3
              exact hinv
            · split at hstep
              · cases hstep
              · split at hstep
                · cases hstep
                · rename_i gen st2 hg
                  injection hstep with hstep
                  injection hstep with _ h2
                  injection h2 with _ h3
                  subst h3
                  refine genAt_enumOK ?_ hg hinv
                  intro td' f' c' s1 hwalk
                  exact ih subs (hsub subs rfl) td' _ _ [] [] st f' c' s1 hwalk hinv

theorem genNamed_enumOK {S : Schema} {ft : List (Name × Name)} {n : Name} {sels : List Sel} {nn : Bool} {st st' : St}
    {ty : GoTy} (h : genNamed S ft n sels nn st = .ok (ty, st')) (hinv : StEnumOK S st) : StEnumOK S st' := by
  unfold genNamed at h
  refine genAt_enumOK ?_ h hinv
  intro td' f' c' s1 hwalk
  exact genSels_enumOK S ft _ sels (Nat.le_refl _) td' _ _ [] [] st f' c' s1 hwalk hinv

theorem processDefs_enumOK (S : Schema) (ft : List (Name × Name)) : ∀ (defs : List Def) (st : St),
    (processDefs S ft defs st).1 = [] → StEnumOK S st → StEnumOK S (processDefs S ft defs st).2 := by
  intro defs
  induction defs with
  | nil => intro st _ h; simpa [processDefs] using h
  | cons df rest ih =>
    intro st herr hinv
    cases df with
    | op kind name sels =>
      cases name with
      | none => simp only [processDefs] at herr ⊢; exact ih st herr hinv
      | some name =>
        simp only [processDefs] at herr ⊢
        cases hr : rootOf S kind with
        | none => simp [hr] at herr
        | some root =>
          simp only [hr] at herr ⊢
          cases hg : genNamed S ft root sels true st with
          | error e => simp [hg] at herr
          | ok r =>
            obtain ⟨gen, st1⟩ := r
            simp only [hg] at herr ⊢
            exact ih _ herr (stEnumOK_append (genNamed_enumOK hg hinv) trivial)
    | frag name cond sels =>
      simp only [processDefs] at herr ⊢
      cases hg : genNamed S ft cond sels true st with
      | error e => simp [hg] at herr
      | ok r =>
        obtain ⟨gen, st1⟩ := r
        simp only [hg] at herr ⊢
        exact ih _ herr (stEnumOK_append (genNamed_enumOK hg hinv) trivial)

theorem processDocs_enumOK (S : Schema) : ∀ (docs : List Doc) (st : St),
    (processDocs S docs st).1 = [] → StEnumOK S st → StEnumOK S (processDocs S docs st).2 := by
  intro docs
  induction docs with
  | nil => intro st _ h; simpa [processDocs] using h
  | cons doc rest ih =>
    intro st herr hinv
    simp only [processDocs, List.append_eq_nil_iff] at herr ⊢
    obtain ⟨herr1, herr2⟩ := herr
    have hvalid := processDoc_valid herr1
    have hdoc : processDoc S doc st = processDefs S (fragTypesOf doc.defs) doc.defs st := by
      simp [processDoc, hvalid]
    rw [hdoc] at herr1 herr2 ⊢
    exact ih _ herr2 (processDefs_enumOK S _ doc.defs st herr1 hinv)

/-! ### Shapes that are never reserved -/

/-- Contains `D`, `F` or `_`. -/
def marked (n : Name) : Bool := n.contains 68 || n.contains 70 || n.contains 95

theorem reserved_unmarked : goReserved.all (fun r => !marked r) = true := by decide

theorem marked_free {n : Name} (h : marked n = true) : identFree n = true := by
  simp only [identFree, Bool.and_eq_true, Bool.not_eq_true', bne_iff_ne, ne_eq]
  refine ⟨⟨?_, ?_⟩, ?_⟩
  · cases hc : goReserved.contains n with
    | false => rfl
    | true =>
      have := List.all_eq_true.mp reserved_unmarked n (by simpa using hc)
      simp [h] at this
  · intro he; subst he; revert h; decide
  · intro he; subst he; revert h; decide

theorem marked_append_right (a : Name) {b : Name} (h : marked b = true) : marked (a ++ b) = true := by
  simp only [marked, Bool.or_eq_true, List.contains_iff_mem, List.mem_append] at h ⊢
  rcases h with (h | h) | h
  · exact Or.inl (Or.inl (Or.inr h))
  · exact Or.inl (Or.inr (Or.inr h))
  · exact Or.inr (Or.inr h)

theorem marked_append_left {a : Name} (b : Name) (h : marked a = true) : marked (a ++ b) = true := by
  simp only [marked, Bool.or_eq_true, List.contains_iff_mem, List.mem_append] at h ⊢
  rcases h with (h | h) | h
  · exact Or.inl (Or.inl (Or.inl h))
  · exact Or.inl (Or.inr (Or.inl h))
  · exact Or.inr (Or.inl h)

theorem defNames_marked : ∀ (defs : List Def), ∀ n ∈ defNames defs, marked n = true := by
  intro defs
  induction defs with
  | nil => intro n hn; cases hn
  | cons df rest ih =>
    intro n hn
    cases df with
    | op kind name sels =>
      cases name with
      | none => exact ih n (by simpa [defNames] using hn)
      | some nm =>
        simp only [defNames, List.mem_cons] at hn
        rcases hn with rfl | hn
        · exact marked_append_right _ (by decide)
        · exact ih n hn
    | frag nm cond sels =>
      simp only [defNames, List.mem_cons] at hn
      rcases hn with rfl | hn
      · exact marked_append_right _ (by decide)
      · exact ih n hn

theorem docNames_marked : ∀ (docs : List Doc), ∀ n ∈ docNames docs, marked n = true := by
  intro docs
  induction docs with
  | nil => intro n hn; cases hn
  | cons d ds ih =>
    intro n hn
    simp only [docNames, List.mem_append] at hn
    rcases hn with hn | hn
    · exact defNames_marked _ n hn
    · exact ih n hn

/-! ### The package scope of a list of owned declarations -/

/-- Where a declaration's identifiers come from. -/
def Owned (S : Schema) (tds : List Name) : Decl → Prop
  | .sel n _ _ => startsWithSel n = true ∧ marked n = true
  | .typedef n _ _ => n ∈ tds
  | .enum n cs => ∃ e ∈ enumsOf S, n = goTypeName e.1 ∧ cs = enumConsts (goTypeName e.1) e.2

theorem owned_idents_enum {S : Schema} {tds : List Name} {n : Name} {cs : List (Name × Name)}
    (h : Owned S tds (.enum n cs)) : ∃ e ∈ enumsOf S, n = goTypeName e.1 ∧ (Decl.enum n cs).idents = enumIdents e := by
  obtain ⟨e, he, hn, hcs⟩ := h
  exact ⟨e, he, hn, by simp [Decl.idents, enumIdents, hn, hcs]⟩

theorem idents_overlap_name {S : Schema} {tds : List Name} (hI : IdentsOK S tds) {d d' : Decl}
    (ho : Owned S tds d) (ho' : Owned S tds d') {i : Name} (hi : i ∈ d.idents) (hi' : i ∈ d'.idents) :
    d.name = d'.name := by
  obtain ⟨hnd, hns, _⟩ := hI
  obtain ⟨hndS, _, hdisj⟩ := List.nodup_append.mp hnd
  cases d with
  | sel n fs acts =>
    simp only [Decl.idents, List.mem_singleton] at hi
    subst hi
    cases d' with
    | sel n' fs' acts' => simpa [Decl.idents, Decl.name] using hi'
    | typedef n' t' f' =>
      simp only [Decl.idents, List.mem_singleton] at hi'
      subst hi'
      have := hns _ (List.mem_append_right _ ho')
      rw [ho.1] at this; cases this
    | enum n' cs' =>
      obtain ⟨e, he, _, hid⟩ := owned_idents_enum ho'
      rw [hid] at hi'
      have := hns _ (List.mem_append_left _ (mem_schemaIdents he hi'))
      rw [ho.1] at this; cases this
  | typedef n t f =>
    simp only [Decl.idents, List.mem_singleton] at hi
    subst hi
    cases d' with
    | sel n' fs' acts' =>
      simp only [Decl.idents, List.mem_singleton] at hi'
      subst hi'
      have := hns _ (List.mem_append_right _ ho)
      rw [ho'.1] at this; cases this
    | typedef n' t' f' => simpa [Decl.idents, Decl.name] using hi'
    | enum n' cs' =>
      obtain ⟨e, he, _, hid⟩ := owned_idents_enum ho'
      rw [hid] at hi'
      exact absurd rfl (hdisj _ (mem_schemaIdents he hi') _ ho)
  | enum n cs =>
    obtain ⟨e, he, hn, hid⟩ := owned_idents_enum ho
    rw [hid] at hi
    have hiS := mem_schemaIdents he hi
    cases d' with
    | sel n' fs' acts' =>
      simp only [Decl.idents, List.mem_singleton] at hi'
      subst hi'
      have := hns _ (List.mem_append_left _ hiS)
      rw [ho'.1] at this; cases this
    | typedef n' t' f' =>
      simp only [Decl.idents, List.mem_singleton] at hi'
      subst hi'
      exact absurd rfl (hdisj _ hiS _ ho')
    | enum n' cs' =>
      obtain ⟨e', he', hn', hid'⟩ := owned_idents_enum ho'
      rw [hid'] at hi'
      have := flatten_owner enumIdents (enumsOf S) hndS e he e' he' i hi hi'
      subst this
      simp only [Decl.name, hn, hn']

theorem idents_nodup {S : Schema} {tds : List Name} (hI : IdentsOK S tds) {d : Decl} (ho : Owned S tds d) :
    d.idents.Nodup := by
  cases d with
  | sel n fs acts => simp [Decl.idents]
  | typedef n t f => simp [Decl.idents]
  | enum n cs =>
    obtain ⟨e, he, _, hid⟩ := owned_idents_enum ho
    rw [hid]
    exact flatten_part_nodup enumIdents (enumsOf S) (List.nodup_append.mp hI.nodup).1 e he

theorem mem_pkgIdents {decls : List Decl} {i : Name} : i ∈ pkgIdents decls ↔ ∃ d ∈ decls, i ∈ d.idents := by
  unfold pkgIdents
  constructor
  · intro h
    obtain ⟨l, hl, hi⟩ := List.mem_flatten.mp h
    obtain ⟨d, hd, rfl⟩ := List.mem_map.mp hl
    exact ⟨d, hd, hi⟩
  · rintro ⟨d, hd, hi⟩
    exact List.mem_flatten.mpr ⟨_, List.mem_map.mpr ⟨d, hd, rfl⟩, hi⟩

theorem pkgIdents_nodup {S : Schema} {tds : List Name} (hI : IdentsOK S tds) : ∀ (decls : List Decl),
    (decls.map Decl.name).Nodup → (∀ d ∈ decls, Owned S tds d) → (pkgIdents decls).Nodup := by
  intro decls
  induction decls with
  | nil => intro _ _; simp [pkgIdents]
  | cons d ds ih =>
    intro hnd ho
    simp only [List.map_cons, List.nodup_cons] at hnd
    have : pkgIdents (d :: ds) = d.idents ++ pkgIdents ds := by simp [pkgIdents]
    rw [this]
    refine List.nodup_append.mpr ⟨idents_nodup hI (ho d List.mem_cons_self),
      ih hnd.2 (fun d' hd' => ho d' (List.mem_cons_of_mem _ hd')), ?_⟩
    intro a ha b hb hab
    subst hab
    obtain ⟨d', hd', hi'⟩ := mem_pkgIdents.mp hb
    have := idents_overlap_name hI (ho d List.mem_cons_self) (ho d' (List.mem_cons_of_mem _ hd')) ha hi'
    exact hnd.1 (List.mem_map.mpr ⟨d', hd', this.symm⟩)

theorem pkgIdents_free {S : Schema} {tds : List Name} (hI : IdentsOK S tds) (htds : ∀ n ∈ tds, marked n = true)
    {decls : List Decl} (ho : ∀ d ∈ decls, Owned S tds d) : ∀ i ∈ pkgIdents decls, identFree i = true := by
  intro i hi
  obtain ⟨d, hd, hid⟩ := mem_pkgIdents.mp hi
  have hod := ho d hd
  cases d with
  | sel n fs acts =>
    simp only [Decl.idents, List.mem_singleton] at hid
    subst hid
    exact marked_free hod.2
  | typedef n t f =>
    simp only [Decl.idents, List.mem_singleton] at hid
    subst hid
    exact marked_free (htds _ hod)
  | enum n cs =>
    obtain ⟨e, he, _, hid'⟩ := owned_idents_enum hod
    rw [hid'] at hid
    exact hI.free _ (mem_schemaIdents he hid)

/-- From the two invariants of the generator to ownership. -/
theorem owned_of_invariants {S : Schema} {tds : List Name} {st : St} {d : Decl}
    (hshape : NameShape S tds st d) (henum : EnumDeclOK S d) : Owned S tds d := by
  cases d with
  | sel n fs acts =>
    obtain ⟨td, k, _, _, hn, _⟩ := hshape
    subst hn
    refine ⟨rfl, ?_⟩
    have : n_sel ++ td.name ++ [95] ++ natDigits k = (n_sel ++ td.name) ++ ([95] ++ natDigits k) := by
      simp [List.append_assoc]
    rw [this]
    exact marked_append_right _ (marked_append_left _ (by decide))
  | typedef n t f => exact hshape
  | enum n cs => exact henum

/-! ### Struct scope: the Go names of the fields of one selection set -/

/-- The response keys of the field selections of a set. -/
def selFieldKeys : List Sel → List Name
  | [] => []
  | .field alias name _ :: rest => alias.getD name :: selFieldKeys rest
  | _ :: rest => selFieldKeys rest

theorem takenOf_eq_map : ∀ sels : List Sel, takenOf sels = (selFieldKeys sels).map fieldName := by
  intro sels
  induction sels with
  | nil => rfl
  | cons s rest ih =>
    cases s with
    | field a n ss => simp [takenOf, selFieldKeys, ih]
    | inline c ss => simpa [takenOf, selFieldKeys] using ih
    | spread f => simpa [takenOf, selFieldKeys] using ih

/-- The one way two admissible keys that differ ignoring case get the same Go field name: the
    unaliased `__typename` (Go name `Typename__`) next to a key whose Go name is `Typename__` too
    (`typename__`, `Typename__`). -/
def typenameClash (keys : List Name) : Bool :=
  keys.contains n_typename && keys.any (fun k => k != n_typename && fieldName k == n_Typename__)

theorem fieldName_eq_cases {a b : Name} (ha : keyOK a = true) (hb : keyOK b = true) (h : fieldName a = fieldName b) :
    lowerAll a = lowerAll b ∨ (a = n_typename ∧ b ≠ n_typename ∧ fieldName b = n_Typename__) ∨
      (b = n_typename ∧ a ≠ n_typename ∧ fieldName a = n_Typename__) := by
  simp only [keyOK, Bool.or_eq_true, beq_iff_eq] at ha hb
  by_cases hat : a = n_typename
  · by_cases hbt : b = n_typename
    · left; rw [hat, hbt]
    · right; left
      refine ⟨hat, hbt, ?_⟩
      rw [← h, hat, fieldName_typename]
  · by_cases hbt : b = n_typename
    · right; right
      refine ⟨hbt, hat, ?_⟩
      rw [h, hbt, fieldName_typename]
    · left
      have ha' : startsWithLetter a = true := by rcases ha with h | h; exact h; exact absurd h hat
      have hb' : startsWithLetter b = true := by rcases hb with h | h; exact h; exact absurd h hbt
      rw [← lowerAll_fieldName ha', ← lowerAll_fieldName hb', h]

theorem fieldNames_nodup : ∀ (keys : List Name), (∀ k ∈ keys, keyOK k = true) → (keys.map lowerAll).Nodup →
    typenameClash keys = false → (keys.map fieldName).Nodup := by
  intro keys hok hnd hcl
  have key : ∀ a ∈ keys, ∀ b ∈ keys, fieldName a = fieldName b → lowerAll a = lowerAll b := by
    intro a ha b hb h
    rcases fieldName_eq_cases (hok a ha) (hok b hb) h with h1 | ⟨h1, h2, h3⟩ | ⟨h1, h2, h3⟩
    · exact h1
    · exfalso
      have : typenameClash keys = true := by
        simp only [typenameClash, Bool.and_eq_true, List.contains_iff_mem, List.any_eq_true, bne_iff_ne, ne_eq, beq_iff_eq]
        exact ⟨h1 ▸ ha, b, hb, h2, h3⟩
      rw [hcl] at this; cases this
    · exfalso
      have : typenameClash keys = true := by
        simp only [typenameClash, Bool.and_eq_true, List.contains_iff_mem, List.any_eq_true, bne_iff_ne, ne_eq, beq_iff_eq]
        exact ⟨h1 ▸ hb, a, ha, h2, h3⟩
      rw [hcl] at this; cases this
  clear hcl hok
  induction keys with
  | nil => simp
  | cons k ks ih =>
    simp only [List.map_cons, List.nodup_cons] at hnd ⊢
    refine ⟨?_, ih hnd.2 (fun a ha b hb => key a (List.mem_cons_of_mem _ ha) b (List.mem_cons_of_mem _ hb))⟩
    intro hmem
    obtain ⟨b, hb, hbe⟩ := List.mem_map.mp hmem
    have := key k List.mem_cons_self b (List.mem_cons_of_mem _ hb) hbe.symm
    exact hnd.1 (List.mem_map.mpr ⟨b, hb, this.symm⟩)

end ApiFu.C20
