/-
  C20 — the holder names assigned by fix 06 (`holderTable`): each is the fragment / type-condition
  name with underscores appended, and it is free.
-/
import ApiFu.C20.LemText

namespace ApiFu.C20

theorem startsWithLetter_append {k : Name} (r : Name) (h : startsWithLetter k = true) :
    startsWithLetter (k ++ r) = true := by
  cases k with
  | nil => simp [startsWithLetter] at h
  | cons c cs => simpa [startsWithLetter] using h

theorem pickFree_letter (taken : List Name) : ∀ (fuel : Nat) (k : Name), startsWithLetter k = true →
    startsWithLetter (pickFree taken fuel k) = true := by
  intro fuel
  induction fuel with
  | zero => intro k h; simpa [pickFree] using h
  | succ f ih =>
    intro k h
    unfold pickFree
    split
    · exact ih _ (startsWithLetter_append _ h)
    · exact h

/-- Every key of the table starts with a letter if the name it stands for does. -/
def TblLetters (tbl : HolderTable) : Prop :=
  ∀ e ∈ tbl, startsWithLetter e.2.1 = true → startsWithLetter e.2.2 = true

theorem HolderTable.find_mem {tbl : HolderTable} {sp : Bool} {n k : Name} (h : tbl.find sp n = some k) :
    (sp, n, k) ∈ tbl := by
  unfold HolderTable.find at h
  cases hf : tbl.find? (fun e => e.1 == sp && e.2.1 == n) with
  | none => simp [hf] at h
  | some e =>
    simp [hf] at h
    have hm := List.mem_of_find?_eq_some hf
    have hp := List.find?_some hf
    simp at hp
    obtain ⟨a, b, c⟩ := e
    simp at hp h
    obtain ⟨rfl, rfl⟩ := hp
    subst h
    exact hm

theorem holderTableAux_letters (tdName : Name) : ∀ (sels : List Sel) (taken : List Name) (tbl : HolderTable),
    TblLetters tbl → TblLetters (holderTableAux tdName sels taken tbl) := by
  intro sels
  induction sels with
  | nil => intro taken tbl h; simpa [holderTableAux] using h
  | cons s rest ih =>
    intro taken tbl h
    cases s with
    | field a n ss => simpa [holderTableAux] using ih taken tbl h
    | inline c ss =>
      simp only [holderTableAux]
      split
      · exact ih taken tbl h
      · apply ih
        intro e he
        rcases List.mem_append.mp he with he | he
        · exact h e he
        · simp at he
          subst he
          exact pickFree_letter _ _ _
    | spread f =>
      simp only [holderTableAux]
      split
      · exact ih taken tbl h
      · apply ih
        intro e he
        rcases List.mem_append.mp he with he | he
        · exact h e he
        · simp at he
          subst he
          exact pickFree_letter _ _ _

theorem holderTable_letters (tdName : Name) (sels : List Sel) : TblLetters (holderTable tdName sels) :=
  holderTableAux_letters tdName sels _ [] (fun e he => nomatch he)

/-- The holder key of a fragment starts with a letter if its name does. -/
theorem memberKey_letter_inline {tbl : HolderTable} (h : TblLetters tbl) (td : TypeDef) (cond : Option Name)
    (ss : List Sel) (hl : startsWithLetter (cond.getD td.name) = true) :
    startsWithLetter (memberKey tbl td (.inline cond ss)) = true := by
  simp only [memberKey]
  cases hf : tbl.find false (cond.getD td.name) with
  | none => simpa using hl
  | some k => simpa using h _ (HolderTable.find_mem hf) hl

theorem memberKey_letter_spread {tbl : HolderTable} (h : TblLetters tbl) (td : TypeDef) (f : Name)
    (hl : startsWithLetter f = true) : startsWithLetter (memberKey tbl td (.spread f)) = true := by
  simp only [memberKey]
  cases hf : tbl.find true f with
  | none => simpa using hl
  | some k => simpa using h _ (HolderTable.find_mem hf) hl

end ApiFu.C20
