/-
  Line loop shared by all model drivers: read one request per line on stdin, write exactly one
  reply line on stdout, flush after every line (the Go harness talks to the driver interactively).
-/
namespace ApiFu

/-- Run `step` over the lines of stdin, threading a state. An empty read means end of input. -/
partial def lineLoop {σ : Type} (step : σ → String → σ × String) (init : σ) : IO Unit := do
  let stdin ← IO.getStdin
  let stdout ← IO.getStdout
  let rec loop (s : σ) : IO Unit := do
    let line ← stdin.getLine
    if line.isEmpty then return ()
    let line := String.ofList (line.toList.reverse.dropWhile (fun c => c == '\n' || c == '\r')).reverse
    let (s', out) := step s line
    stdout.putStrLn out
    stdout.flush
    loop s'
  loop init

/-- Stateless variant. -/
def lineLoopPure (f : String → String) : IO Unit :=
  lineLoop (fun (_ : Unit) l => ((), f l)) ()

end ApiFu
