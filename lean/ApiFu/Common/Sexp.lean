/-
  S-expressions: the wire format between the Go harness and the Lean model drivers.

  Grammar (one expression per line on the wire):
    sexp  := atom | '(' sexp* ')'
    atom  := bare | quoted
    bare  := any run of characters other than whitespace, '(', ')', '"'
    quoted:= '"' ( any char except '"' and '\' | '\\' | '\"' | '\n' | '\t' | '\r' | '\u{HEX}' )* '"'

  The Go side (harness/hx/sexp.go) writes and reads exactly this syntax.
  Core Lean only (no Mathlib), so that drivers link as `lean_exe`.
-/
namespace ApiFu

inductive Sexp where
  | atom (s : String)
  | list (xs : List Sexp)
  deriving Repr, Inhabited, BEq

namespace Sexp

private def isBareChar (c : Char) : Bool :=
  !(c == ' ' || c == '\t' || c == '\n' || c == '\r' || c == '(' || c == ')' || c == '"')

private def hexVal (c : Char) : Option Nat :=
  if '0' ≤ c ∧ c ≤ '9' then some (c.toNat - '0'.toNat)
  else if 'a' ≤ c ∧ c ≤ 'f' then some (c.toNat - 'a'.toNat + 10)
  else if 'A' ≤ c ∧ c ≤ 'F' then some (c.toNat - 'A'.toNat + 10)
  else none

/-- Read a quoted string body (after the opening quote). Returns the decoded string and the rest. -/
private def readQuoted : Nat → List Char → List Char → Option (String × List Char)
  | 0, _, _ => none
  | _ + 1, [], _ => none
  | _ + 1, '"' :: rest, acc => some (String.ofList acc.reverse, rest)
  | f + 1, '\\' :: 'n' :: rest, acc => readQuoted f rest ('\n' :: acc)
  | f + 1, '\\' :: 't' :: rest, acc => readQuoted f rest ('\t' :: acc)
  | f + 1, '\\' :: 'r' :: rest, acc => readQuoted f rest ('\r' :: acc)
  | f + 1, '\\' :: '\\' :: rest, acc => readQuoted f rest ('\\' :: acc)
  | f + 1, '\\' :: '"' :: rest, acc => readQuoted f rest ('"' :: acc)
  | f + 1, '\\' :: 'u' :: '{' :: rest, acc =>
      let hex := rest.takeWhile (· != '}')
      let rest' := (rest.dropWhile (· != '}')).drop 1
      match hex.foldl (fun a c => match a, hexVal c with
                                  | some n, some d => some (n * 16 + d)
                                  | _, _ => none) (some 0) with
      | some n => readQuoted f rest' (Char.ofNat n :: acc)
      | none => none
  | _ + 1, '\\' :: _, _ => none
  | f + 1, c :: rest, acc => readQuoted f rest (c :: acc)

private def readBare : List Char → List Char → (String × List Char)
  | [], acc => (String.ofList acc.reverse, [])
  | c :: rest, acc => if isBareChar c then readBare rest (c :: acc) else (String.ofList acc.reverse, c :: rest)

/-- Token stream. -/
inductive Tok where
  | lp | rp | at (s : String)
  deriving Repr

private def tokenize (fuel : Nat) : List Char → List Tok → Option (List Tok)
  | [], acc => some acc.reverse
  | c :: rest, acc =>
    match fuel with
    | 0 => none
    | fuel + 1 =>
      if c == ' ' || c == '\t' || c == '\n' || c == '\r' then tokenize fuel rest acc
      else if c == '(' then tokenize fuel rest (Tok.lp :: acc)
      else if c == ')' then tokenize fuel rest (Tok.rp :: acc)
      else if c == '"' then
        -- the outer fuel is ≥ the number of characters left (every token consumes at least one), so it
        -- also bounds the quoted body; recomputing `rest.length` here would make a line quadratic
        match readQuoted (fuel + 1) rest [] with
        | some (s, rest') => tokenize fuel rest' (Tok.at s :: acc)
        | none => none
      else
        let (s, rest') := readBare (c :: rest) []
        tokenize fuel rest' (Tok.at s :: acc)

/-- Parse tokens with an explicit stack of partially built lists. -/
private def build : List Tok → List (List Sexp) → List Sexp → Option (List Sexp)
  | [], [], cur => some cur.reverse
  | [], _ :: _, _ => none
  | Tok.at s :: ts, stack, cur => build ts stack (Sexp.atom s :: cur)
  | Tok.lp :: ts, stack, cur => build ts (cur :: stack) []
  | Tok.rp :: ts, outer :: stack, cur => build ts stack (Sexp.list cur.reverse :: outer)
  | Tok.rp :: _, [], _ => none

/-- Parse all top-level expressions on a line. -/
def parseAll (s : String) : Option (List Sexp) :=
  let cs := s.toList
  match tokenize (cs.length + 1) cs [] with
  | some ts => build ts [] []
  | none => none

/-- Parse exactly one expression. -/
def parse (s : String) : Option Sexp :=
  match parseAll s with
  | some [x] => some x
  | _ => none

private def needsQuote (s : String) : Bool :=
  s.isEmpty || s.toList.any (fun c => !isBareChar c || c == '\\' || c.toNat < 32 || c.toNat > 126)

private def hexDigit (n : Nat) : Char :=
  if n < 10 then Char.ofNat (n + '0'.toNat) else Char.ofNat (n - 10 + 'a'.toNat)

private def toHex (n : Nat) : String :=
  if n == 0 then "0" else
  let rec go (fuel n : Nat) (acc : List Char) : List Char :=
    match fuel with
    | 0 => acc
    | fuel + 1 => if n == 0 then acc else go fuel (n / 16) (hexDigit (n % 16) :: acc)
  String.ofList (go 16 n [])

def quote (s : String) : String :=
  let body := s.toList.foldl (fun acc c =>
    if c == '"' then acc ++ "\\\""
    else if c == '\\' then acc ++ "\\\\"
    else if c == '\n' then acc ++ "\\n"
    else if c == '\t' then acc ++ "\\t"
    else if c == '\r' then acc ++ "\\r"
    else if c.toNat < 32 || c.toNat > 126 then acc ++ "\\u{" ++ toHex c.toNat ++ "}"
    else acc.push c) ""
  "\"" ++ body ++ "\""

partial def toString : Sexp → String
  | atom s => if needsQuote s then quote s else s
  | list xs => "(" ++ " ".intercalate (xs.map toString) ++ ")"

instance : ToString Sexp := ⟨Sexp.toString⟩

/-- Convenience accessors used by drivers. -/
def atom? : Sexp → Option String
  | atom s => some s
  | _ => none

def list? : Sexp → Option (List Sexp)
  | list xs => some xs
  | _ => none

def nat? (x : Sexp) : Option Nat := x.atom?.bind String.toNat?
def int? (x : Sexp) : Option Int := x.atom?.bind String.toInt?

def ofNat (n : Nat) : Sexp := atom (ToString.toString n)
def ofInt (n : Int) : Sexp := atom (ToString.toString n)
def ofBool (b : Bool) : Sexp := atom (if b then "true" else "false")
def str (s : String) : Sexp := atom s

/-- `(tag a b c)` constructor helper. -/
def node (tag : String) (args : List Sexp) : Sexp := list (atom tag :: args)

/-- Destructure `(tag args…)`. -/
def node? : Sexp → Option (String × List Sexp)
  | list (atom t :: args) => some (t, args)
  | _ => none

end Sexp
end ApiFu
