/-
  C01 — the syntactic typing judgement: the shape that validation guarantees, as decidable tests.

    * `Document.typed`   — FieldsOnCorrectType (with the scopes FragmentSpread/InlineFragment type
                           conditions establish): every selected field is defined on its parent type;
    * `Schema.wfCheck`   — type names are unique; an object type implementing an interface has the
                           interface's fields with covariant types (what `schema.New` checks);
    * `Document.mergeOK` — FieldsInSetCanMerge as far as execution needs it: fields of one selection set
                           with the same response key whose parent types are not two different object
                           types have the same name, recursively for their merged sub-selections.
  Theorem `syntactic_no_undefined_field` (SyntacticProofs.lean): the three tests imply that the reference never
  meets an undefined field.
-/
import ApiFu.C01.Typing
import ApiFu.C01.Acyclic

namespace ApiFu.C01

/-- the fields of an object or interface type (none for other types) -/
def Schema.fieldsOf (S : Schema) (scope : String) : List FieldDef :=
  match S.lookup scope with
  | some (.object fs _) => fs
  | some (.interface fs) => fs
  | _ => []

def Schema.fieldOn (S : Schema) (scope name : String) : Option FieldDef :=
  (S.fieldsOf scope).find? (fun f => f.name == name)

mutual
  /-- FieldsOnCorrectType: a field selected in scope `scope` is defined there (or is `__typename`) and its
      sub-selections are typed in the scope of its type; inline fragments change the scope to their type
      condition; fragment definitions are typed on their own (`Document.typed`). -/
  def typedSel (S : Schema) (scope : String) : Selection → Bool
    | .field _ _ name _ _ _ sub =>
      name == "__typename" ||
      match S.fieldOn scope name with
      | some fd => typedList S fd.type.base sub
      | none => false
    | .spread .. => true
    | .inline _ tc _ sub => typedList S (tc.getD scope) sub
  def typedList (S : Schema) (scope : String) : List Selection → Bool
    | [] => true
    | s :: rest => typedSel S scope s && typedList S scope rest
end

def Document.typed (D : Document) (S : Schema) : Bool :=
  D.frags.all (fun fr => typedList S fr.tc fr.sels) &&
  D.ops.all fun op =>
    match rootTypeName S op.kind with
    | some r => typedList S r op.sels
    | none => true

/-- every object type a value of type `a` can have is a possible type of `b` -/
def subBase (S : Schema) (a b : String) : Bool :=
  (runtimeObjects S a).all fun o' => fragmentApplies S o' b == .yes

/-- schema well-formedness as far as execution needs it: an object type implementing an interface has
    the interface's fields, with covariant types -/
def Schema.wfCheck (S : Schema) : Bool :=
  decide ((S.types.map (·.1)).Nodup) &&
  S.types.all fun p =>
    match p.2 with
    | .object fs is =>
      is.all fun i =>
        match S.lookup i with
        | some (.interface ifs) =>
          ifs.all fun ifd =>
            match fs.find? (fun f => f.name == ifd.name) with
            | some fd => subBase S fd.type.base ifd.type.base
            | none => false
        | _ => true
    | _ => true

def isObjectType (S : Schema) (t : String) : Bool :=
  match S.lookup t with
  | some (.object _ _) => true
  | _ => false

/-- all field selections of a selection set with their parent scopes, through inline fragments and
    fragment spreads, whatever their type conditions and directives (the "set" of FieldsInSetCanMerge) -/
def collectAll (S : Schema) (D : Document) : Nat → String → List Selection → Option (List (String × Selection))
  | 0, _, _ => none
  | fuel + 1, scope, sels =>
    sels.foldlM (init := []) fun acc sel =>
      match sel with
      | .field .. => some (acc ++ [(scope, sel)])
      | .inline _ tc _ sub => (collectAll S D fuel (tc.getD scope) sub).map (acc ++ ·)
      | .spread _ name _ =>
        match D.frag? name with
        | some fr => (collectAll S D fuel fr.tc fr.sels).map (acc ++ ·)
        | none => some acc

def Selection.fieldKey : Selection → String
  | .field _ alias name _ _ _ _ => alias.getD name
  | _ => ""

def Selection.fieldName : Selection → String
  | .field _ _ name _ _ _ _ => name
  | _ => ""

def Selection.subs : Selection → List Selection
  | .field _ _ _ _ _ _ sub => sub
  | _ => []

/-- FieldsInSetCanMerge, as far as execution needs it: two fields of the set with the same response key
    whose parent types are not two different object types have the same name, and the union of their
    sub-selections can merge in turn. `cf` is the fuel of `collectAll`. -/
def canMerge (S : Schema) (D : Document) (cf : Nat) : Nat → List (String × List Selection) → Bool
  | 0, _ => false
  | fuel + 1, parts =>
    match parts.mapM (fun p => collectAll S D cf p.1 p.2) with
    | none => false
    | some ls =>
      let fs := ls.flatten
      fs.all fun a => fs.all fun b =>
        if a.2.fieldKey == b.2.fieldKey then
          if isObjectType S a.1 && isObjectType S b.1 && a.1 != b.1 then true
          else
            a.2.fieldName == b.2.fieldName &&
            match S.fieldOn a.1 a.2.fieldName, S.fieldOn b.1 b.2.fieldName with
            | some fa, some fb => canMerge S D cf fuel [(fa.type.base, a.2.subs), (fb.type.base, b.2.subs)]
            | _, _ => true
        else true

def Document.mergeOK (D : Document) (S : Schema) : Bool :=
  let n := D.nodes.length + D.frags.length + 2
  D.ops.all fun op =>
    match rootTypeName S op.kind with
    | some r => canMerge S D n n [(r, op.sels), (r, op.sels)]
    | none => true

end ApiFu.C01
