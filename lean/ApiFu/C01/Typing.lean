/-
  C01 — a static, decidable type check of documents and the theorem that a type-checked document never
  makes the reference meet an undefined field (`undef = false`), so that plain data equality
  (`exec_data_eq_ref`) needs no hypothesis about the run.

  `Document.typeCheck` is an abstract execution over *types* instead of values: for every operation,
  starting from the root object type, the selection set is collected (fragments expanded, type
  conditions evaluated) for every object type a value could have at that point — the object type itself,
  every implementation of an interface, every member of a union — and every collected field must be
  defined on that object type (or be `__typename`); the merged sub-selections are then checked in the
  same way for every possible object type of the field's type. No world is involved: the check depends
  on schema and document only. Validation guarantees it (rules FieldsOnCorrectType,
  FragmentSpreadIsPossible, FragmentsOnCompositeTypes, LeafFieldSelections; interface implementations
  carry the interface's fields covariantly); the harness evaluates it for every validated document.
-/
import ApiFu.C01.Lemmas

namespace ApiFu.C01

/-- the object types a (non-null) value of the named type can have at run time -/
def runtimeObjects (S : Schema) (n : String) : List ObjT :=
  match S.lookup n with
  | some (.object fs is) => [{ name := n, fields := fs, ifaces := is }]
  | some (.interface _) => (S.implementations n).filterMap S.object?
  | some (.union ms) => ms.filterMap S.object?
  | _ => []

/-- Abstract execution of a selection set for object type `o`: every field that can be collected is
    defined on `o`, recursively for every possible object type of its value. -/
def absExec (S : Schema) (D : Document) : Nat → ObjT → List Selection → Bool
  | 0, _, _ => false
  | fuel + 1, o, sels =>
    match expand S D o (fuel + 1) sels [] with
    | .error _ => false
    | .ok r =>
      (groupInOrder r.1).all fun p =>
        match p.2 with
        | [] => true
        | f0 :: _ =>
          f0.name == "__typename" ||
          match o.getField f0.name with
          | none => false
          | some fd => (runtimeObjects S fd.type.base).all fun o' => absExec S D fuel o' (mergeSelectionSets p.2)

/-- The type check of a document: abstract execution of every operation from its root type. -/
def Document.typeCheck (D : Document) (S : Schema) : Bool :=
  D.ops.all fun op =>
    match (rootTypeName S op.kind).bind S.object? with
    | some o => absExec S D (D.nodes.length + D.frags.length + 2) o op.sels
    | none => true

theorem atPosition_undef (t : TypeRef) (r : Spec.SOut) : (Spec.atPosition t r).undef = r.undef := by
  cases t with
  | nonNull t => rfl
  | named n => simp only [Spec.atPosition]; cases r.data <;> rfl
  | list t => simp only [Spec.atPosition]; cases r.data <;> rfl

theorem combineFields_undef (rs : List (Option (String × Spec.SOut)))
    (h : ∀ e ∈ rs, ∃ k s, e = some (k, s) ∧ s.undef = false) : (Spec.combineFields rs).undef = false := by
  induction rs with
  | nil => rfl
  | cons e rest ih =>
    obtain ⟨k, s, rfl, hs⟩ := h e (List.mem_cons_self ..)
    have ih' := ih (fun e he => h e (List.mem_cons_of_mem _ he))
    cases hd : s.data with
    | none => rw [combineFields_some_fail k s rest hd]; simp [hs, ih']
    | some j => rw [combineFields_some_ok k s j rest hd]; simp [hs, ih']

theorem combineItems_undef (rs : List Spec.SOut) (h : ∀ s ∈ rs, s.undef = false) : (Spec.combineItems rs).undef = false := by
  induction rs with
  | nil => rfl
  | cons s rest ih =>
    have hs := h s (List.mem_cons_self ..)
    have ih' := ih (fun e he => h e (List.mem_cons_of_mem _ he))
    cases hd : s.data with
    | none => rw [combineItems_fail s rest hd]; simp [hs, ih']
    | some j => rw [combineItems_ok s j rest hd]; simp [hs, ih']

theorem option_mapM_mem {α β : Type} (f : α → Option β) (l : List α) (rs : List β) (h : l.mapM f = some rs)
    (b : β) (hb : b ∈ rs) : ∃ a ∈ l, f a = some b := by
  induction l generalizing rs with
  | nil =>
    simp only [List.mapM_nil, pure, Option.some.injEq] at h
    subst h; simp at hb
  | cons a rest ih =>
    obtain ⟨b0, bs, h1, h2, rfl⟩ := option_mapM_cons f a rest rs h
    rcases List.mem_cons.mp hb with rfl | hb
    · exact ⟨a, List.mem_cons_self .., h1⟩
    · obtain ⟨a', ha', hfa'⟩ := ih bs h2 hb
      exact ⟨a', List.mem_cons_of_mem _ ha', hfa'⟩

/-- what the abstract execution establishes for a field's merged sub-selections -/
def SubsUndefFree (S : Schema) (D : Document) (base : String) (fields : List FieldNode) : Prop :=
  ∀ o' ∈ runtimeObjects S base, ∀ fuel v path s,
    Spec.executeSelectionSet S D fuel o' (mergeSelectionSets fields) v path = some s → s.undef = false

theorem completeValue_undef (S : Schema) (D : Document) (fields : List FieldNode) (f0 : FieldNode)
    (fuel : Nat) (t : TypeRef) (v : RVal) (path : Path) (r : Spec.SOut)
    (H : SubsUndefFree S D t.base fields)
    (h : Spec.completeValue S D fuel t fields f0 v path = some r) : r.undef = false := by
  induction fuel generalizing t v path r with
  | zero => simp [Spec.completeValue] at h
  | succ fuel ih =>
    cases t with
    | nonNull inner =>
      simp only [Spec.completeValue] at h
      cases hin : Spec.completeValue S D fuel inner fields f0 v path with
      | none => simp [hin] at h
      | some r0 =>
        simp only [hin] at h
        have h0 := ih inner v path r0 (by simpa [TypeRef.base] using H) hin
        cases hd : r0.data with
        | none => simp only [hd, Option.some.injEq] at h; subst h; exact h0
        | some j =>
          cases j <;> simp only [hd, Option.some.injEq] at h <;> subst h <;> exact h0
    | list inner =>
      simp only [Spec.completeValue] at h
      by_cases hnil : Spec.isNullish v = true
      · simp only [hnil, if_true, Option.some.injEq] at h; subst h; rfl
      · simp only [hnil, Bool.false_eq_true, if_false] at h
        cases v with
        | list items =>
          simp only at h
          cases hrs : (items.zipIdx).mapM (Spec.completeItem inner path (Spec.completeValue S D fuel inner fields f0)) with
          | none => simp [hrs] at h
          | some rs =>
            simp only [hrs, Option.map_some, Option.some.injEq] at h
            subst h
            apply combineItems_undef
            intro s hs
            obtain ⟨p, _, hp⟩ := option_mapM_mem _ _ _ hrs s hs
            simp only [Spec.completeItem] at hp
            cases hc : Spec.completeValue S D fuel inner fields f0 p.1 (path ++ [PathSeg.idx p.2]) with
            | none => simp [hc] at hp
            | some r0 =>
              simp only [hc, Option.map_some, Option.some.injEq] at hp
              subst hp
              rw [atPosition_undef]
              exact ih inner _ _ r0 (by simpa [TypeRef.base] using H) hc
        | leaf g => simp only [Option.some.injEq] at h; subst h; rfl
        | null => simp [Spec.isNullish] at hnil
        | tnil => simp [Spec.isNullish] at hnil
        | obj ty es => simp only [Option.some.injEq] at h; subst h; rfl
    | named n =>
      simp only [Spec.completeValue] at h
      simp only [TypeRef.base] at H
      by_cases hnil : Spec.isNullish v = true
      · simp only [hnil, if_true, Option.some.injEq] at h; subst h; rfl
      · simp only [hnil, Bool.false_eq_true, if_false] at h
        cases hl : S.lookup n with
        | none => simp [hl] at h
        | some td =>
          cases td with
          | scalar k =>
            simp only [hl] at h
            cases v with
            | leaf g =>
              simp only at h
              cases hc : Spec.resultCoerce k g <;> simp only [hc, Option.some.injEq] at h <;> subst h <;> rfl
            | null => simp [Spec.isNullish] at hnil
            | tnil => simp [Spec.isNullish] at hnil
            | list items => simp only [Option.some.injEq] at h; subst h; rfl
            | obj ty es => simp only [Option.some.injEq] at h; subst h; rfl
          | enum values =>
            simp only [hl] at h
            cases v with
            | leaf g =>
              simp only at h
              cases hc : Spec.enumCoerce values g <;> simp only [hc, Option.some.injEq] at h <;> subst h <;> rfl
            | null => simp [Spec.isNullish] at hnil
            | tnil => simp [Spec.isNullish] at hnil
            | list items => simp only [Option.some.injEq] at h; subst h; rfl
            | obj ty es => simp only [Option.some.injEq] at h; subst h; rfl
          | object fs is =>
            simp only [hl, mergeSelectionSets_eq] at h
            exact H _ (by simp [runtimeObjects, hl]) _ _ _ _ h
          | interface fs =>
            simp only [hl, mergeSelectionSets_eq, implementations_eq S n fs hl] at h
            cases hf : (S.implementations n).find? (fun t => isTypeOf t v) with
            | none => simp only [hf, Option.some.injEq] at h; subst h; rfl
            | some tn =>
              simp only [hf] at h
              cases ho : S.object? tn with
              | none => simp [ho] at h
              | some o =>
                simp only [ho] at h
                refine H o ?_ _ _ _ _ h
                simp only [runtimeObjects, hl, List.mem_filterMap]
                exact ⟨tn, List.mem_of_find?_eq_some hf, ho⟩
          | union ms =>
            simp only [hl, mergeSelectionSets_eq, possibleTypes_union S n ms hl] at h
            cases hf : ms.find? (fun t => isTypeOf t v) with
            | none => simp only [hf, Option.some.injEq] at h; subst h; rfl
            | some tn =>
              simp only [hf] at h
              cases ho : S.object? tn with
              | none => simp [ho] at h
              | some o =>
                simp only [ho] at h
                refine H o ?_ _ _ _ _ h
                simp only [runtimeObjects, hl, List.mem_filterMap]
                exact ⟨tn, List.mem_of_find?_eq_some hf, ho⟩


/-- **A selection set that passes the abstract execution for `o` never makes the reference meet an
    undefined field**, whatever the value, the path and the reference's fuel. -/
theorem absExec_undef_free (S : Schema) (D : Document) (fa : Nat) (o : ObjT) (sels : List Selection)
    (h : absExec S D fa o sels = true) (fuel : Nat) (v : RVal) (path : Path) (s : Spec.SOut)
    (hs : Spec.executeSelectionSet S D fuel o sels v path = some s) : s.undef = false := by
  induction fa generalizing o sels fuel v path s with
  | zero => simp [absExec] at h
  | succ fa ih =>
    rw [absExec] at h
    cases he : expand S D o (fa + 1) sels [] with
    | error e => simp [he] at h
    | ok r =>
      obtain ⟨fs, v0⟩ := r
      simp only [he, List.all_eq_true] at h
      cases fuel with
      | zero => simp [Spec.executeSelectionSet] at hs
      | succ fuel =>
        simp only [Spec.executeSelectionSet] at hs
        cases hcs : Spec.collectFields S D o fuel sels [] with
        | none => simp [hcs] at hs
        | some gv =>
          obtain ⟨g, vis⟩ := gv
          simp only [hcs] at hs
          obtain ⟨hg, _⟩ := spec_collect_eq_expand S D o (fa + 1) fuel sels [] fs v0 g vis he hcs
          subst hg
          cases hrs : (groupInOrder fs).mapM (Spec.executeEntry o v path (Spec.completeValue S D fuel)) with
          | none => simp [hrs] at hs
          | some rs =>
            simp only [hrs, Option.map_some, Option.some.injEq] at hs
            subst hs
            apply combineFields_undef
            intro entry hentry
            obtain ⟨p, hp, hpe⟩ := option_mapM_mem _ _ _ hrs entry hentry
            have hchk := h p hp
            obtain ⟨key, fields⟩ := p
            cases fields with
            | nil => simp [Spec.executeEntry] at hpe
            | cons f0 tl =>
              simp only [Spec.executeEntry] at hpe
              simp only [Bool.or_eq_true, beq_iff_eq] at hchk
              by_cases htn : f0.name = "__typename"
              · simp only [htn, if_true, Option.some.injEq] at hpe
                exact ⟨key, _, hpe.symm, rfl⟩
              · simp only [htn, if_false] at hpe
                rcases hchk with hchk | hchk
                · exact absurd hchk htn
                · rw [getField_eq] at hchk
                  cases hfd : o.fields.find? (fun (fd : FieldDef) => decide (fd.name = f0.name)) with
                  | none => simp [hfd] at hchk
                  | some fd =>
                    simp only [hfd, List.all_eq_true] at hchk
                    simp only [hfd] at hpe
                    have hsub : SubsUndefFree S D fd.type.base (f0 :: tl) := by
                      intro o' ho' fuel' v' path' s' hs'
                      exact ih o' _ (hchk o' ho') fuel' v' path' s' hs'
                    cases hae : f0.argErr with
                    | some ae =>
                      simp only [hae, Option.map_some, Option.some.injEq] at hpe
                      exact ⟨key, _, hpe.symm, by rw [atPosition_undef]; rfl⟩
                    | none =>
                      simp only [hae] at hpe
                      cases hres : resolve v f0.wkey with
                      | err m =>
                        simp only [hres, Option.map_some, Option.some.injEq] at hpe
                        exact ⟨key, _, hpe.symm, by rw [atPosition_undef]; rfl⟩
                      | val rv =>
                        simp only [hres] at hpe
                        cases hcv : Spec.completeValue S D fuel fd.type (f0 :: tl) f0 rv (path ++ [PathSeg.key key]) with
                        | none => simp [hcv] at hpe
                        | some r0 =>
                          simp only [hcv, Option.map_some, Option.some.injEq] at hpe
                          refine ⟨key, _, hpe.symm, ?_⟩
                          rw [atPosition_undef]
                          exact completeValue_undef S D (f0 :: tl) f0 fuel fd.type rv _ r0 hsub hcv

/-- **A type-checked document never makes the reference meet an undefined field.** -/
theorem typeCheck_undef_free (S : Schema) (D : Document) (h : D.typeCheck S = true)
    (fuel : Nat) (opName : String) (root : RVal) (s : Spec.SOut)
    (hs : Spec.executeRequest S D fuel opName root = .executed s) : s.undef = false := by
  unfold Spec.executeRequest at hs
  cases hgo : Spec.getOperation D opName with
  | none => simp [hgo] at hs
  | some op =>
    simp only [hgo, rootType_eq] at hs
    cases hroot : (rootTypeName S op.kind).bind S.object? with
    | none => simp [hroot] at hs
    | some o =>
      simp only [hroot] at hs
      cases hss : Spec.executeSelectionSet S D fuel o op.sels root [] with
      | none => simp [hss] at hs
      | some s' =>
        simp only [hss, Spec.Result.executed.injEq] at hs
        subst hs
        unfold Document.typeCheck at h
        rw [List.all_eq_true] at h
        have := h op (spec_getOperation_mem D opName op hgo)
        simp only [hroot] at this
        exact absExec_undef_free S D _ o op.sels this fuel root [] s' hss

end ApiFu.C01
