/-
  C01 model driver. One request per line, one reply per line (S-expressions).

  request := (case <schema> <doc> <world> "<operationName>" <fuel | auto>)
    schema := (schema "<Query>" <opt str> <opt str> (types <type>…))
    type   := (scalar "N" int|float|string|boolean|id) | (object "N" (ifaces "I"…) (fields (f "n" <tref>)…))
            | (interface "N" (fields …)) | (union "N" (members "A"…)) | (enum "N" (values (v "NAME" <goval>)…))
    tref   := (n "N") | (l <tref>) | (nn <tref>)
    goval  := (i <intkind> <int>) | (f float32|float64 <m> <e>) | (s "…") | (b true|false) | (w)
    intkind:= int8 | uint8 | int16 | uint16 | int32 | uint32 | int64 | uint64 | int | uint
    doc    := (doc (ops (op query|mutation|subscription <opt str> <line> <col> (sels <sel>…))…)
                   (frags (frag "name" "TypeCond" (sels …))…))
    sel    := (fld <line> <col> <opt alias> "name" "wkey" <opt argerr> (dirs <dir>…) (sels …))
            | (spr <line> <col> "name" (dirs …)) | (inl <line> <col> <opt tc> (dirs …) (sels …))
    dir    := (skip true|false) | (incl true|false) | (other)
    argerr := (ae "msg" (locs (<line> <col>)…))
    world  := (leaf <goval>) | (null) | (tnil) | (list <world>…) | (obj "Type" (e "key" (val <world>) | (err "msg"))…)
    opt x  := (none) | (some x)

  reply  := (ok (model <optdata> (errs <err>…)) <spec> (hyp true|false)) | (stuck "<why>" <spec>) | bad-op
    hyp    := the decidable hypotheses of theorem exec_correct_total_driver hold for this (schema, document);
              `auto` fuel is fuelFor2 (the fuel that theorem speaks about)
    spec   := (spec requestError) | (spec stuck) | (spec <optdata> (all <err>…) (req <err>…) true|false)
    json   := null | (b true|false) | (i z) | (n m e) | (s "…") | (a <json>…) | (o (kv "k" <json>)…)
    err    := (e <msg> (path (k "s") | (i n) …) (locs (<line> <col>)…))
-/
import ApiFu.Common.Sexp
import ApiFu.Common.Loop
import ApiFu.C01.Model
import ApiFu.C01.Spec
import ApiFu.C01.Lemmas
import ApiFu.C01.Typing
import ApiFu.C01.Acyclic
import ApiFu.C01.Syntactic
import ApiFu.C01.Roots

open ApiFu ApiFu.C01

namespace ApiFu.C01.Driver

def opt? {α} (f : Sexp → Option α) : Sexp → Option (Option α)
  | .list [.atom "none"] => some none
  | .list [.atom "some", x] => (f x).map some
  | _ => none

def bool? : Sexp → Option Bool
  | .atom "true" => some true
  | .atom "false" => some false
  | _ => none

partial def tref? : Sexp → Option TypeRef
  | .list [.atom "n", .atom n] => some (.named n)
  | .list [.atom "l", t] => (tref? t).map .list
  | .list [.atom "nn", t] => (tref? t).map .nonNull
  | _ => none

def intKind? : Sexp → Option IntKind
  | .atom "int8" => some .i8
  | .atom "uint8" => some .u8
  | .atom "int16" => some .i16
  | .atom "uint16" => some .u16
  | .atom "int32" => some .i32
  | .atom "uint32" => some .u32
  | .atom "int64" => some .i64
  | .atom "uint64" => some .u64
  | .atom "int" => some .int
  | .atom "uint" => some .uint
  | _ => none

def fltKind? : Sexp → Option FltKind
  | .atom "float32" => some .f32
  | .atom "float64" => some .f64
  | _ => none

def goval? : Sexp → Option GoVal
  | .list [.atom "i", k, z] => do some (.int (← intKind? k) (← z.int?))
  | .list [.atom "f", k, m, e] => do some (.flt (← fltKind? k) (← m.int?) (← e.int?))
  | .list [.atom "s", .atom s] => some (.str s)
  | .list [.atom "b", b] => (bool? b).map .bool
  | .list [.atom "w"] => some .wrong
  | _ => none

def kind? : Sexp → Option ScalarKind
  | .atom "int" => some .int
  | .atom "float" => some .float
  | .atom "string" => some .string
  | .atom "boolean" => some .boolean
  | .atom "id" => some .id
  | _ => none

def fields? (xs : List Sexp) : Option (List FieldDef) :=
  xs.mapM fun
    | .list [.atom "f", .atom n, t] => (tref? t).map fun t => { name := n, type := t }
    | _ => none

def strs? (xs : List Sexp) : Option (List String) := xs.mapM Sexp.atom?

def typeDef? : Sexp → Option (String × TypeDef)
  | .list [.atom "scalar", .atom n, k] => (kind? k).map fun k => (n, .scalar k)
  | .list [.atom "object", .atom n, .list (.atom "ifaces" :: is), .list (.atom "fields" :: fs)] => do
    some (n, .object (← fields? fs) (← strs? is))
  | .list [.atom "interface", .atom n, .list (.atom "fields" :: fs)] => do some (n, .interface (← fields? fs))
  | .list [.atom "union", .atom n, .list (.atom "members" :: ms)] => do some (n, .union (← strs? ms))
  | .list [.atom "enum", .atom n, .list (.atom "values" :: vs)] => do
    let vals ← vs.mapM fun
      | .list [.atom "v", .atom name, g] => (goval? g).map fun g => (name, g)
      | _ => none
    some (n, .enum vals)
  | _ => none

def schema? : Sexp → Option Schema
  | .list [.atom "schema", .atom q, m, s, .list (.atom "types" :: ts)] => do
    some { types := ← ts.mapM typeDef?, query := q, mutation := ← opt? Sexp.atom? m, subscription := ← opt? Sexp.atom? s }
  | _ => none

def dir? : Sexp → Option Dir
  | .list [.atom "skip", b] => (bool? b).map .skip
  | .list [.atom "incl", b] => (bool? b).map .incl
  | .list [.atom "other"] => some .other
  | _ => none

def pos? (l c : Sexp) : Option Pos := do some { line := ← l.nat?, col := ← c.nat? }

def argErr? : Sexp → Option ArgErr
  | .list [.atom "ae", .atom msg, .list (.atom "locs" :: ls)] => do
    let locs ← ls.mapM fun
      | .list [l, c] => pos? l c
      | _ => none
    some { msg := msg, locs := locs }
  | _ => none

partial def sel? : Sexp → Option Selection
  | .list [.atom "fld", l, c, alias, .atom name, .atom wkey, ae, .list (.atom "dirs" :: ds), .list (.atom "sels" :: ss)] => do
    some (.field (← pos? l c) (← opt? Sexp.atom? alias) name wkey (← opt? argErr? ae) (← ds.mapM dir?) (← ss.mapM sel?))
  | .list [.atom "spr", l, c, .atom name, .list (.atom "dirs" :: ds)] => do
    some (.spread (← pos? l c) name (← ds.mapM dir?))
  | .list [.atom "inl", l, c, tc, .list (.atom "dirs" :: ds), .list (.atom "sels" :: ss)] => do
    some (.inline (← pos? l c) (← opt? Sexp.atom? tc) (← ds.mapM dir?) (← ss.mapM sel?))
  | _ => none

def opKind? : Sexp → Option OpKind
  | .atom "query" => some .query
  | .atom "mutation" => some .mutation
  | .atom "subscription" => some .subscription
  | _ => none

def doc? : Sexp → Option Document
  | .list [.atom "doc", .list (.atom "ops" :: ops), .list (.atom "frags" :: frs)] => do
    let ops ← ops.mapM fun
      | .list [.atom "op", k, name, l, c, .list (.atom "sels" :: ss)] => do
        some ({ kind := ← opKind? k, name := ← opt? Sexp.atom? name, pos := ← pos? l c, sels := ← ss.mapM sel? } : Op)
      | _ => none
    let frs ← frs.mapM fun
      | .list [.atom "frag", .atom n, .atom tc, .list (.atom "sels" :: ss)] => do
        some ({ name := n, tc := tc, sels := ← ss.mapM sel? } : Frag)
      | _ => none
    some { ops := ops, frags := frs }
  | _ => none

partial def world? : Sexp → Option RVal
  | .list [.atom "leaf", g] => (goval? g).map .leaf
  | .list [.atom "null"] => some .null
  | .list [.atom "tnil"] => some .tnil
  | .list (.atom "list" :: items) => (items.mapM world?).map .list
  | .list (.atom "obj" :: .atom ty :: es) => do
    let es ← es.mapM fun
      | .list [.atom "e", .atom k, .list [.atom "val", v]] => (world? v).map fun v => Entry.mk k (.val v)
      | .list [.atom "e", .atom k, .list [.atom "err", .atom m]] => some (Entry.mk k (.err m))
      | _ => none
    some (.obj ty es)
  | _ => none

/-! printing -/

partial def jsonSexp : Json → Sexp
  | .null => .atom "null"
  | .bool b => Sexp.node "b" [Sexp.ofBool b]
  | .int z => Sexp.node "i" [Sexp.ofInt z]
  | .num m e => Sexp.node "n" [Sexp.ofInt m, Sexp.ofInt e]
  | .str s => Sexp.node "s" [Sexp.str s]
  | .arr xs => Sexp.node "a" (xs.map jsonSexp)
  | .obj kvs => Sexp.node "o" (kvs.map fun p => Sexp.node "kv" [Sexp.str p.1, jsonSexp p.2])

def optData : Option Json → Sexp
  | none => Sexp.list [.atom "none"]
  | some j => Sexp.node "some" [jsonSexp j]

def kindName : OpKind → String
  | .query => "query"
  | .mutation => "mutation"
  | .subscription => "subscription"

def msgSexp : Msg → Sexp
  | .resolver s => Sexp.node "resolver" [Sexp.str s]
  | .argCoercion s => Sexp.node "arg" [Sexp.str s]
  | .nullNonNull => .atom "nullNonNull"
  | .notList => .atom "notList"
  | .scalarResult => .atom "scalarResult"
  | .enumResult ty => Sexp.node "enumResult" [Sexp.str ty]
  | .noObjectType => .atom "noObjectType"
  | .multipleOps => .atom "multipleOps"
  | .noOp => .atom "noOp"
  | .cannotPerform k => Sexp.node "cannotPerform" [.atom (kindName k)]

def errSexp (e : Err) : Sexp :=
  Sexp.node "e" [msgSexp e.msg,
    Sexp.node "path" (e.path.map fun
      | .key s => Sexp.node "k" [Sexp.str s]
      | .idx n => Sexp.node "i" [Sexp.ofNat n]),
    Sexp.node "locs" (e.locs.map fun p => Sexp.list [Sexp.ofNat p.line, Sexp.ofNat p.col])]

def stuckText : Stuck → String
  | .outOfFuel => "outOfFuel"
  | .panic site => "panic: " ++ site

def specSexp : Spec.Result → Sexp
  | .requestError => Sexp.node "spec" [.atom "requestError"]
  | .stuck => Sexp.node "spec" [.atom "stuck"]
  | .executed o => Sexp.node "spec" [optData o.data, Sexp.node "all" (o.all.map errSexp),
      Sexp.node "req" (o.req.map errSexp), Sexp.ofBool o.undef]

/-- the decidable hypotheses of theorems `exec_correct_total_driver` and `exec_correct_total_validated`
    (PropsTyping.lean), and `Schema.rootsCheck` (the `roots` fact of `SchemaRel`, PropsFromC04.lean) -/
def driverHypotheses (S : Schema) (D : Document) : Bool :=
  decide ((D.nodes.map Selection.pos).Nodup) && D.nodes.all (fun s => decide s.keyOK) &&
    S.closedCheck && D.condsCheck S && D.noSpreadCycle && D.typeCheck S &&
    D.typed S && S.wfCheck && D.mergeOK S && S.rootsCheck

def handle (line : String) : String :=
  match Sexp.parse line with
  | some (.list [.atom "case", s, d, w, .atom opName, fuel]) =>
    match schema? s, doc? d, world? w with
    | some S, some D, some W =>
      let fuel := match fuel.nat? with
        | some n => n
        | none => fuelFor2 S D
      let spec := Spec.executeRequest S D fuel opName W
      match execute true S D fuel opName W with
      | .error st => toString (Sexp.node "stuck" [Sexp.str (stuckText st), specSexp spec])
      | .ok resp =>
        toString (Sexp.node "ok" [Sexp.node "model" [optData resp.data, Sexp.node "errs" (resp.errors.map errSexp)], specSexp spec,
          Sexp.node "hyp" [Sexp.ofBool (driverHypotheses S D)]])
    | _, _, _ => "bad-op"
  | _ => "bad-op"

end ApiFu.C01.Driver

def main : IO Unit := ApiFu.lineLoopPure ApiFu.C01.Driver.handle
