/-
  C01 — executable model of the api-fu GraphQL executor *as written* (all resolvers synchronous).

  Go sources mirrored (line numbers of /repo at the pinned commit, after the two `fix:` patches of
  /verif/repo-patches/C01):
    graphql/executor/executor.go   ExecuteRequest/GetOperation (40-52, 570-589), executeQuery/Mutation/
                                   SubscriptionEvent (121-147, 201-213), executeSelections (237-289),
                                   executeField (313-354), catchErrorIfNullable (356-361), completeValue
                                   (363-447), mergeSelectionSets (449-463), collectFields with its memo
                                   (465-487), collectFieldsImpl (489-546), doesFragmentTypeApply (548-568)
    graphql/executor/grouped_field_set.go   Append (27-38)
    graphql/executor/ordered_map.go         NewOrderedMapWithLength / Set (pre-sized map filled by index)
    graphql/executor/path.go                path values captured into errors (Slice)
    graphql/executor/error.go               newErrorWithPath (one location), newFieldResolveError (all)
    graphql/schema/builtins.go              coerceInt/coerceFloat/coerceString/coerceBoolean/ID result
    graphql/schema/enum_type.go:85-92       EnumType.CoerceResult

  What is a parameter (shipped by the harness, not modelled): the parser (the AST arrives parsed,
  with the (line, column) of every node), the validator, input coercion — the harness ships, per
  directive, the boolean its `if` argument coerces to, per field node the key its resolver looks up
  in the world (`wkey`, derived from the coerced arguments) and, if `CoerceArgumentValues` fails for
  the node, that error (`argErr`).  Resolvers are the generic "look my key up in my parent's node".

  Mutable Go state and how it is rendered:
    * `executor.Errors` (append only)       → the list of errors each function *emits*, concatenated in
                                              call order (writer style);
    * `GroupedFieldSetCache`                → `Cache`, threaded through every call;
    * recycled `path` nodes                 → immutable path values (what `Slice()` captured);
    * futures                               → every future is ready (synchronous resolvers; C02 covers
                                              the rest), so `Map/MapOk/Join/After` are their ready
                                              branches.
  Every recursion decreases an explicit `fuel`; running out is the distinct outcome
  `R.stuck .outOfFuel`.  Places where the Go code would panic or dereference a dangling pointer are
  the distinct outcome `R.stuck (.panic _)` — nothing is totalised silently.
-/
namespace ApiFu.C01

/-! ## Data -/

structure Pos where
  line : Nat
  col : Nat
  deriving DecidableEq, Repr, Inhabited

inductive TypeRef where
  | named (n : String)
  | list (t : TypeRef)
  | nonNull (t : TypeRef)
  deriving DecidableEq, Repr, Inhabited

/-- the Go integer kinds a resolver may return (`int`/`uint` are 64 bit on the platforms considered) -/
inductive IntKind where
  | i8 | u8 | i16 | u16 | i32 | u32 | i64 | u64 | int | uint
  deriving DecidableEq, Repr, Inhabited

inductive FltKind where
  | f32 | f64
  deriving DecidableEq, Repr, Inhabited

/-- Go values a resolver can return at a leaf position. `int k z` is the value of Go type `k` denoted by
    `z` (the harness sends `z` within the range of `k`; out of range it denotes `k.wrap z`, as Go's
    conversion would). `flt k m e` is the float `m·2^e` of type `k` (finite; the harness sends it
    normalised: `m` odd, or `0 0`; a float32 is exactly a float64). Two values are the same Go value
    (`==` on `interface{}`) only if their kinds agree. `wrong` is a value of a kind no coercer accepts. -/
inductive GoVal where
  | int (k : IntKind) (z : Int)
  | flt (k : FltKind) (m e : Int)
  | str (s : String)
  | bool (b : Bool)
  | wrong
  deriving DecidableEq, Repr, Inhabited

/-- the value of Go type `k` that `z` denotes (two's-complement wrap-around) -/
def IntKind.wrap : IntKind → Int → Int
  | .i8, z => (z + 128) % 256 - 128
  | .u8, z => z % 256
  | .i16, z => (z + 32768) % 65536 - 32768
  | .u16, z => z % 65536
  | .i32, z => (z + 2147483648) % 4294967296 - 2147483648
  | .u32, z => z % 4294967296
  | .i64, z => (z + 9223372036854775808) % 18446744073709551616 - 9223372036854775808
  | .u64, z => z % 18446744073709551616
  | .int, z => (z + 9223372036854775808) % 18446744073709551616 - 9223372036854775808
  | .uint, z => z % 18446744073709551616

inductive ScalarKind where
  | int | float | string | boolean | id
  deriving DecidableEq, Repr, Inhabited

structure FieldDef where
  name : String
  type : TypeRef
  deriving DecidableEq, Repr, Inhabited

inductive TypeDef where
  | scalar (k : ScalarKind)
  | object (fields : List FieldDef) (ifaces : List String)
  | interface (fields : List FieldDef)
  | union (members : List String)
  | enum (values : List (String × GoVal))
  deriving Repr, Inhabited

structure Schema where
  types : List (String × TypeDef)
  query : String
  mutation : Option String
  subscription : Option String
  deriving Repr, Inhabited

/-- A directive after argument coercion: only `@skip` / `@include` carry a `FieldCollectionFilter`;
    a directive whose arguments failed to coerce, or any other directive, is `other` (ignored by
    `collectFieldsImpl`). -/
inductive Dir where
  | skip (b : Bool)
  | incl (b : Bool)
  | other
  deriving DecidableEq, Repr, Inhabited

/-- Error of `validator.CoerceArgumentValues` for a field node (message and locations as reported). -/
structure ArgErr where
  msg : String
  locs : List Pos
  deriving DecidableEq, Repr, Inhabited

inductive Selection where
  | field (pos : Pos) (alias : Option String) (name : String) (wkey : String) (argErr : Option ArgErr)
      (dirs : List Dir) (sels : List Selection)
  | spread (pos : Pos) (name : String) (dirs : List Dir)
  | inline (pos : Pos) (tc : Option String) (dirs : List Dir) (sels : List Selection)
  deriving Repr, Inhabited

def Selection.pos : Selection → Pos
  | .field p .. => p
  | .spread p .. => p
  | .inline p .. => p

def Selection.dirs : Selection → List Dir
  | .field _ _ _ _ _ d _ => d
  | .spread _ _ d => d
  | .inline _ _ d _ => d

/-- `*ast.Field` as the executor uses it. -/
structure FieldNode where
  pos : Pos
  alias : Option String
  name : String
  wkey : String
  argErr : Option ArgErr
  sels : List Selection
  deriving Repr, Inhabited

def FieldNode.responseKey (f : FieldNode) : String :=
  match f.alias with
  | some a => a
  | none => f.name

inductive OpKind where
  | query | mutation | subscription
  deriving DecidableEq, Repr, Inhabited

structure Op where
  kind : OpKind
  name : Option String
  pos : Pos
  sels : List Selection
  deriving Repr, Inhabited

structure Frag where
  name : String
  tc : String
  sels : List Selection
  deriving Repr, Inhabited

structure Document where
  ops : List Op
  frags : List Frag
  deriving Repr, Inhabited

/-! ### Worlds: resolver outcomes -/

mutual
  inductive RVal where
    | leaf (g : GoVal)
    | null
    | tnil                       -- typed nil pointer: `isNil` is true
    | list (items : List RVal)
    | obj (ty : String) (fields : List Entry)
  inductive Entry where
    | mk (key : String) (res : Resolved)
  inductive Resolved where
    | val (v : RVal)
    | err (msg : String)
end

instance : Inhabited RVal := ⟨.null⟩

/-! ### Observables -/

inductive PathSeg where
  | key (s : String)
  | idx (n : Nat)
  deriving DecidableEq, Repr, Inhabited

abbrev Path := List PathSeg

/-- Message classes (the harness maps the real message text onto these; all but `enumResult` are
    compared verbatim). -/
inductive Msg where
  | resolver (s : String)            -- the resolver's own error text
  | argCoercion (s : String)         -- text of the validator's coercion error
  | nullNonNull                      -- "Null result for non-null field."
  | notList                          -- "Result is not a list."
  | scalarResult                     -- "Unexpected result: invalid scalar result value"
  | enumResult (ty : String)         -- "Unexpected result: invalid <ty> enum value: …"
  | noObjectType                     -- "Unable to determine object type."
  | multipleOps                      -- "Multiple matching operations."
  | noOp                             -- "No matching operations."
  | cannotPerform (k : OpKind)       -- "This schema cannot perform queries/mutations/subscriptions."
  deriving DecidableEq, Repr, Inhabited

structure Err where
  msg : Msg
  path : Path
  locs : List Pos
  deriving DecidableEq, Repr, Inhabited

inductive Json where
  | null
  | bool (b : Bool)
  | int (z : Int)
  | num (m e : Int)                  -- m·2^e
  | str (s : String)
  | arr (items : List Json)
  | obj (fields : List (String × Json))
  deriving Repr, Inhabited

inductive Stuck where
  | outOfFuel
  | panic (site : String)
  deriving DecidableEq, Repr, Inhabited

/-- Result of a (ready) future: a value, an error, or the model got stuck. -/
inductive R where
  | ok (j : Json)
  | err (e : Err)
  | stuck (s : Stuck)
  deriving Repr, Inhabited

/-! ## Schema access -/

def Schema.lookup (S : Schema) (n : String) : Option TypeDef :=
  match S.types.find? (fun p => p.1 == n) with
  | some p => some p.2
  | none => none

/-- A resolved `*schema.ObjectType`. -/
structure ObjT where
  name : String
  fields : List FieldDef
  ifaces : List String
  deriving Repr, Inhabited

def Schema.object? (S : Schema) (n : String) : Option ObjT :=
  match S.lookup n with
  | some (.object fs is) => some { name := n, fields := fs, ifaces := is }
  | _ => none

/-- `objectType.GetField(name, features)` (no features in C01: C13 owns them). -/
def ObjT.getField (o : ObjT) (name : String) : Option FieldDef :=
  o.fields.find? (fun f => f.name == name)

/-- `Schema.InterfaceImplementations(name)`: the object types listing the interface. (The Go slice
    is in schema-inspection order; with `IsTypeOf` = "type name matches" at most one matches, so the
    order is unobservable.) -/
def Schema.implementations (S : Schema) (iface : String) : List String :=
  S.types.filterMap fun p =>
    match p.2 with
    | .object _ is => if is.contains iface then some p.1 else none
    | _ => none

/-! ## collectFields -/

abbrev Grouped := List (String × List FieldNode)

/-- `GroupedFieldSet.Append`. -/
def Grouped.append : Grouped → String → FieldNode → Grouped
  | [], k, f => [(k, [f])]
  | (k', fs) :: rest, k, f =>
    if k' == k then (k', fs ++ [f]) :: rest else (k', fs) :: Grouped.append rest k f

def Dir.skips : Dir → Bool
  | .skip b => b
  | .incl b => !b
  | .other => false

/-- The directive loop of `collectFieldsImpl`: any filter answering "do not collect". -/
def skipped (dirs : List Dir) : Bool := dirs.any Dir.skips

inductive Applies where
  | yes | no | panic
  deriving DecidableEq, Repr

/-- `schemaType(tc) == nil || !doesFragmentTypeApply(objectType, fragmentType)` -/
def fragmentApplies (S : Schema) (o : ObjT) (tc : String) : Applies :=
  match S.lookup tc with
  | none => .no
  | some (.object _ _) => if o.name == tc then .yes else .no
  | some (.interface _) => if o.ifaces.contains tc then .yes else .no
  | some (.union ms) => if ms.contains o.name then .yes else .no
  | some _ => .panic                 -- "unexpected fragment type"

/-- `e.FragmentDefinitions[name]`: the map is filled in document order, a later definition
    overwrites an earlier one. -/
def Document.frag? (D : Document) (name : String) : Option Frag :=
  D.frags.reverse.find? (fun f => f.name == name)

structure CState where
  visited : List String
  grouped : Grouped
  deriving Repr, Inhabited

/-- One iteration of the loop of `collectFieldsImpl`; `recur` is the recursive call (at the remaining
    fuel). The visited-fragment map is shared by the whole traversal (Go passes the map, i.e. a
    reference), so it is part of the threaded state. -/
def collectStep (S : Schema) (D : Document) (o : ObjT)
    (recur : List Selection → CState → Except Stuck CState) (st : CState) (sel : Selection) : Except Stuck CState :=
  if skipped sel.dirs then pure st else
  match sel with
  | .field pos alias name wkey argErr _ sub =>
    let f : FieldNode := { pos, alias, name, wkey, argErr, sels := sub }
    pure { st with grouped := st.grouped.append f.responseKey f }
  | .spread _ name _ =>
    if st.visited.contains name then pure st else
    let st := { st with visited := name :: st.visited }
    match D.frag? name with
    | none => pure st
    | some fr =>
      match fragmentApplies S o fr.tc with
      | .no => pure st
      | .panic => .error (.panic "unexpected fragment type")
      | .yes => recur fr.sels st
  | .inline _ tc _ sub =>
    match tc with
    | none => recur sub st
    | some tc =>
      match fragmentApplies S o tc with
      | .no => pure st
      | .panic => .error (.panic "unexpected fragment type")
      | .yes => recur sub st

/-- `collectFieldsImpl`. `.error` = stuck (out of fuel, or the Go code would panic). -/
def collectImpl (S : Schema) (D : Document) (o : ObjT) : Nat → List Selection → CState → Except Stuck CState
  | 0, _, _ => .error .outOfFuel
  | fuel + 1, sels, st => sels.foldlM (collectStep S D o (collectImpl S D o fuel)) st

abbrev CacheKey := String × List Pos
abbrev Cache := List (CacheKey × Grouped)

def cacheKey (o : ObjT) (sels : List Selection) : CacheKey := (o.name, sels.map Selection.pos)

def Cache.get? (c : Cache) (k : CacheKey) : Option Grouped :=
  match c.find? (fun p => p.1 == k) with
  | some p => some p.2
  | none => none

/-- `collectFields`: memo keyed by (object type name, (line, column) of each selection).
    `memo = false` is the same function with the cache never consulted (used by the proofs; the
    driver runs `memo = true`, theorem `exec_memo_irrelevant` relates the two). -/
def collectFields (memo : Bool) (S : Schema) (D : Document) (fuel : Nat) (o : ObjT) (sels : List Selection)
    (c : Cache) : Except Stuck (Grouped × Cache) :=
  let k := cacheKey o sels
  match (if memo then c.get? k else none) with
  | some g => .ok (g, c)
  | none =>
    match collectImpl S D o fuel sels { visited := [], grouped := [] } with
    | .error s => .error s
    | .ok st => .ok (st.grouped, if memo then (k, st.grouped) :: c else c)

/-! ## Result coercion (builtins.go, enum_type.go) -/

def minInt32 : Int := -2147483648
def maxInt32 : Int := 2147483647

/-- The integer value of the float `m·2^e`, if it is integral. -/
def fltToInt? (m e : Int) : Option Int :=
  if e ≥ 0 then some (m * 2 ^ e.toNat)
  else
    let d : Int := 2 ^ (-e).toNat
    if m % d == 0 then some (m / d) else none

def inInt32 (z : Int) : Bool := minInt32 ≤ z && z ≤ maxInt32

def maxInt64 : Int := 9223372036854775807

/-- Go's `float64(v)` of an integer: IEEE-754 round to nearest, ties to even, as `(m, e)` with the
    result `m·2^e`. Exact below 2^53. -/
def roundF64 (z : Int) : Int × Int :=
  let a := z.natAbs
  if a < 2 ^ 53 then (z, 0) else
  let sh := Nat.log2 a + 1 - 53
  let q := a / 2 ^ sh
  let r := a % 2 ^ sh
  let half := 2 ^ (sh - 1)
  let q' := if r > half || (r == half && q % 2 == 1) then q + 1 else q
  (if z < 0 then -(q' : Int) else (q' : Int), (sh : Int))

/-- `coerceInt` for the integer kinds, case by case as in builtins.go -/
def coerceIntKind (k : IntKind) (v : Int) : Option Json :=
  match k with
  | .i8 | .u8 | .i16 | .u16 | .i32 => some (.int v)                       -- `return int(v)`
  | .u32 | .u64 | .uint => if v ≤ maxInt32 then some (.int v) else none    -- `if v <= math.MaxInt32`
  | .i64 | .int => if inInt32 v then some (.int v) else none               -- `v >= MinInt32 && v <= MaxInt32`

/-- the ID `ResultCoercion` for the integer kinds -/
def coerceIdKind (k : IntKind) (v : Int) : Option Json :=
  match k with
  | .u64 | .uint => if v ≤ maxInt64 then some (.str (toString v)) else none   -- `if v <= math.MaxInt64`
  | _ => some (.str (toString v))                                              -- `strconv.FormatInt(int64(v), 10)`

def coerceScalar (k : ScalarKind) (g : GoVal) : Option Json :=
  match k, g with
  | .int, .bool b => some (.int (if b then 1 else 0))
  | .int, .int ik z => coerceIntKind ik (ik.wrap z)
  | .int, .flt _ m e =>                     -- float32 goes through `coerceInt(float64(v))`
    match fltToInt? m e with
    | some z => if inInt32 z then some (.int z) else none
    | none => none
  | .float, .bool b => some (.num (if b then 1 else 0) 0)
  | .float, .int ik z => some (.num (roundF64 (ik.wrap z)).1 (roundF64 (ik.wrap z)).2)   -- `float64(v)`
  | .float, .flt _ m e => some (.num m e)   -- finite (non-finite floats are not in the value domain: C03)
  | .string, .str s => some (.str s)
  | .boolean, .bool b => some (.bool b)
  | .id, .int ik z => coerceIdKind ik (ik.wrap z)
  | .id, .str s => some (.str s)
  | _, _ => none

/-- `EnumType.CoerceResult`: the name whose Go value equals the result. -/
def coerceEnum (values : List (String × GoVal)) (g : GoVal) : Option Json :=
  match values.find? (fun p => p.2 == g) with
  | some p => some (.str p.1)
  | none => none

/-! ## Resolvers -/

def Entry.key : Entry → String
  | .mk k _ => k

def Entry.res : Entry → Resolved
  | .mk _ r => r

/-- The generic resolver: look `wkey` up in the parent's node. A missing entry, or a parent that
    is not an object node, resolves to nil. -/
def resolve (parent : RVal) (wkey : String) : Resolved :=
  match parent with
  | .obj _ entries =>
    match entries.find? (fun e => e.key == wkey) with
    | some e => e.res
    | none => .val .null
  | _ => .val .null

/-- `IsTypeOf` of every generated object type: the value is a node of that type. -/
def isTypeOf (tyName : String) (v : RVal) : Bool :=
  match v with
  | .obj ty _ => ty == tyName
  | _ => false

def RVal.isNil : RVal → Bool
  | .null => true
  | .tnil => true
  | _ => false

/-! ## Execution -/

/-- `mergeSelectionSets`. -/
def mergeSelectionSets (fields : List FieldNode) : List Selection :=
  fields.flatMap (·.sels)

/-- `newErrorWithPath(fields[0], path, …)`: one location. -/
def errAt (f : FieldNode) (path : Path) (m : Msg) : Err := { msg := m, path := path, locs := [f.pos] }

/-- `newFieldResolveError(fields, err, path)`: the locations of all merged field nodes. -/
def resolveErr (fields : List FieldNode) (path : Path) (m : String) : Err :=
  { msg := .resolver m, path := path, locs := fields.map (·.pos) }

/-- What an execution step returns: the future's result, the errors it appended to
    `executor.Errors` (in order), and the memo cache afterwards. -/
structure Out where
  r : R
  errs : List Err
  cache : Cache
  deriving Repr, Inhabited

/-- `catchErrorIfNullable`: at a nullable type an error result is appended to `Errors` and replaced
    by a nil value. -/
def catchIfNullable (t : TypeRef) (o : Out) : Out :=
  match t with
  | .nonNull _ => o
  | _ =>
    match o.r with
    | .err e => { o with r := .ok .null, errs := o.errs ++ [e] }
    | _ => o

def R.stuck? : R → Option Stuck
  | .stuck s => some s
  | _ => none

def R.err? : R → Option Err
  | .err e => some e
  | _ => none

def R.ok? : R → Option Json
  | .ok j => some j
  | _ => none

/-- `future.Join` over ready futures: the first error in index order, else the values. (Every item
    has been completed before `Join` looks at them, so a stuck item makes the whole step stuck.) -/
def joinResults (rs : List R) : R :=
  match rs.findSome? R.stuck? with
  | some s => .stuck s
  | none =>
    match rs.findSome? R.err? with
    | some e => .err e
    | none => .ok (.arr (rs.filterMap R.ok?))

/-- `executeField`, given the completion function (`completeValue` at the remaining fuel). -/
def execFieldWith (complete : TypeRef → RVal → Path → Cache → Out)
    (objVal : RVal) (fields : List FieldNode) (f0 : FieldNode) (fd : FieldDef) (path : Path) (c : Cache) : Out :=
  match f0.argErr with
  | some ae => { r := .err { msg := .argCoercion ae.msg, path := path, locs := ae.locs }, errs := [], cache := c }
  | none =>
    match resolve objVal f0.wkey with
    | .err m => { r := .err (resolveErr fields path m), errs := [], cache := c }
    | .val v => complete fd.type v path c

/-- The loop over `groupedFieldSet.Items()` in `executeSelections`; `acc` is the result map so far
    (in order), `errs` the errors appended so far. The result map is pre-sized: a slot whose field
    is not defined on the object type keeps the zero item `("", null)`. Returns at the first failing
    non-null sibling. `field` is `executeField` for one item. -/
def execItemsWith (o : ObjT) (path : Path)
    (field : List FieldNode → FieldNode → FieldDef → Path → Cache → Out) :
    Grouped → List (String × Json) → List Err → Cache → Out
  | [], acc, errs, c => { r := .ok (.obj acc), errs := errs, cache := c }
  | (key, fields) :: rest, acc, errs, c =>
    match fields.head? with
    | none => { r := .stuck (.panic "fields[0] of an empty group"), errs := errs, cache := c }
    | some f0 =>
      if f0.name == "__typename" then
        execItemsWith o path field rest (acc ++ [(key, .str o.name)]) errs c
      else
        match o.getField f0.name with
        | none => execItemsWith o path field rest (acc ++ [("", .null)]) errs c
        | some fd =>
          let out := catchIfNullable fd.type (field fields f0 fd (path ++ [.key key]) c)
          match out.r with
          | .ok j => execItemsWith o path field rest (acc ++ [(key, j)]) (errs ++ out.errs) out.cache
          | other => { r := other, errs := errs ++ out.errs, cache := out.cache }

/-- The list branch of `completeValue`: every item is completed (a nullable item's error is caught
    and appended), then `future.Join` reports the first error. `rs` are the item results so far,
    `item` is `completeValue` at the item type. -/
def completeItemsWith (inner : TypeRef) (path : Path) (item : RVal → Path → Cache → Out) :
    List RVal → Nat → List R → List Err → Cache → Out
  | [], _, rs, errs, c => { r := joinResults rs, errs := errs, cache := c }
  | v :: rest, i, rs, errs, c =>
    let out := catchIfNullable inner (item v (path ++ [.idx i]) c)
    completeItemsWith inner path item rest (i + 1) (rs ++ [out.r]) (errs ++ out.errs) out.cache

mutual

/-- `executeSelections` (ready branch). -/
def execSelections (memo : Bool) (S : Schema) (D : Document) :
    Nat → ObjT → List Selection → RVal → Path → Cache → Out
  | 0, _, _, _, _, c => { r := .stuck .outOfFuel, errs := [], cache := c }
  | fuel + 1, o, sels, objVal, path, c =>
    match collectFields memo S D fuel o sels c with
    | .error s => { r := .stuck s, errs := [], cache := c }
    | .ok (g, c) =>
      execItemsWith o path
        (fun fields f0 fd p c =>
          execFieldWith (fun t v p c => completeValue memo S D fuel t fields f0 v p c) objVal fields f0 fd p c)
        g [] [] c

/-- `completeValue`. -/
def completeValue (memo : Bool) (S : Schema) (D : Document) :
    Nat → TypeRef → List FieldNode → FieldNode → RVal → Path → Cache → Out
  | 0, _, _, _, _, _, c => { r := .stuck .outOfFuel, errs := [], cache := c }
  | fuel + 1, t, fields, f0, v, path, c =>
    match t with
    | .nonNull inner =>
      let out := completeValue memo S D fuel inner fields f0 v path c
      match out.r with
      | .ok .null => { out with r := .err (errAt f0 path .nullNonNull) }
      | _ => out
    | .list inner =>
      if v.isNil then { r := .ok .null, errs := [], cache := c } else
      match v with
      | .list items =>
        completeItemsWith inner path (fun v p c => completeValue memo S D fuel inner fields f0 v p c) items 0 [] [] c
      | _ => { r := .err (errAt f0 path .notList), errs := [], cache := c }
    | .named n =>
      if v.isNil then { r := .ok .null, errs := [], cache := c } else
      match S.lookup n with
      | none => { r := .stuck (.panic "dangling type reference"), errs := [], cache := c }
      | some (.scalar k) =>
        match v with
        | .leaf g =>
          match coerceScalar k g with
          | some j => { r := .ok j, errs := [], cache := c }
          | none => { r := .err (errAt f0 path .scalarResult), errs := [], cache := c }
        | _ => { r := .err (errAt f0 path .scalarResult), errs := [], cache := c }
      | some (.enum values) =>
        match v with
        | .leaf g =>
          match coerceEnum values g with
          | some j => { r := .ok j, errs := [], cache := c }
          | none => { r := .err (errAt f0 path (.enumResult n)), errs := [], cache := c }
        | _ => { r := .err (errAt f0 path (.enumResult n)), errs := [], cache := c }
      | some (.object fs is) =>
        execSelections memo S D fuel { name := n, fields := fs, ifaces := is } (mergeSelectionSets fields) v path c
      | some (.interface _) =>
        match (S.implementations n).find? (fun t => isTypeOf t v) with
        | none => { r := .err (errAt f0 path .noObjectType), errs := [], cache := c }
        | some tn =>
          match S.object? tn with
          | none => { r := .stuck (.panic "implementation is not an object type"), errs := [], cache := c }
          | some o => execSelections memo S D fuel o (mergeSelectionSets fields) v path c
      | some (.union members) =>
        match members.find? (fun t => isTypeOf t v) with
        | none => { r := .err (errAt f0 path .noObjectType), errs := [], cache := c }
        | some tn =>
          match S.object? tn with
          | none => { r := .stuck (.panic "union member is not an object type"), errs := [], cache := c }
          | some o => execSelections memo S D fuel o (mergeSelectionSets fields) v path c

end

/-! ## Requests -/

/-- `GetOperation`. -/
def getOperation (D : Document) (opName : String) : Except Err Op :=
  let rec go : List Op → Option Op → Except Err Op
    | [], none => .error { msg := .noOp, path := [], locs := [] }
    | [], some op => .ok op
    | op :: rest, found =>
      if opName == "" || op.name == some opName then
        match found with
        | some _ => .error { msg := .multipleOps, path := [], locs := [op.pos] }
        | none => go rest (some op)
      else go rest found
  go D.ops none

/-- The response: `data` (`none` = JSON null) and the error list in order; or stuck. -/
structure Response where
  data : Option Json
  errors : List Err
  deriving Repr, Inhabited

def rootTypeName (S : Schema) : OpKind → Option String
  | .query => some S.query
  | .mutation => S.mutation
  | .subscription => S.subscription

/-- `ExecuteRequest` (after variable coercion, which is the harness's: C05). -/
def execute (memo : Bool) (S : Schema) (D : Document) (fuel : Nat) (opName : String) (root : RVal) :
    Except Stuck Response :=
  match getOperation D opName with
  | .error e => .ok { data := none, errors := [e] }
  | .ok op =>
    match (rootTypeName S op.kind).bind S.object? with
    | none => .ok { data := none, errors := [{ msg := .cannotPerform op.kind, path := [], locs := [op.pos] }] }
    | some o =>
      let out := execSelections memo S D fuel o op.sels root [] []
      match out.r with
      | .ok j => .ok { data := some j, errors := out.errs }
      | .err e => .ok { data := none, errors := out.errs ++ [e] }
      | .stuck s => .error s

/-! ## Fuel

  Execution descends through selection sets (at most one level per field node of the document when
  fragments are acyclic), and within a level through the wrappers of the field's type; collection
  descends through inline fragments and fragment spreads. `fuelFor` is a bound that suffices for every
  document whose fragment spreads are acyclic (the driver uses it; insufficient fuel is reported as
  the distinct outcome `stuck outOfFuel`, never as a result). -/

mutual
  def Selection.fieldNodes : Selection → Nat
    | .field _ _ _ _ _ _ sub => 1 + fieldNodesList sub
    | .spread .. => 0
    | .inline _ _ _ sub => fieldNodesList sub
  def fieldNodesList : List Selection → Nat
    | [] => 0
    | s :: rest => s.fieldNodes + fieldNodesList rest
end

mutual
  def Selection.fragNodes : Selection → Nat
    | .field _ _ _ _ _ _ sub => fragNodesList sub
    | .spread .. => 1
    | .inline _ _ _ sub => 1 + fragNodesList sub
  def fragNodesList : List Selection → Nat
    | [] => 0
    | s :: rest => s.fragNodes + fragNodesList rest
end

def TypeRef.wrappers : TypeRef → Nat
  | .named _ => 0
  | .list t => 1 + t.wrappers
  | .nonNull t => 1 + t.wrappers

def TypeDef.maxWrappers : TypeDef → Nat
  | .object fs _ => fs.foldl (fun m f => max m f.type.wrappers) 0
  | .interface fs => fs.foldl (fun m f => max m f.type.wrappers) 0
  | _ => 0

def Schema.maxWrappers (S : Schema) : Nat :=
  S.types.foldl (fun m p => max m p.2.maxWrappers) 0

def Document.fieldNodes (D : Document) : Nat :=
  D.ops.foldl (fun n op => n + fieldNodesList op.sels) 0 + D.frags.foldl (fun n f => n + fieldNodesList f.sels) 0

def Document.fragNodes (D : Document) : Nat :=
  D.ops.foldl (fun n op => n + fragNodesList op.sels) 0 + D.frags.foldl (fun n f => n + fragNodesList f.sels) 0

def fuelFor (S : Schema) (D : Document) : Nat :=
  (D.fieldNodes + 2) * (S.maxWrappers + 3) + D.fragNodes + D.frags.length + 2

end ApiFu.C01
