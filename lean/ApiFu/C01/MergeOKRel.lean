/-
  C01 — the Boolean merge test implies the relational merge condition: `Document.mergeOK` (Syntactic.lean,
  with fuel; evaluated by the driver for every case and required by the harness for every validated
  document) ⇒ `Document.MergeRel` (SyntacticRel.lean, fuel-free). So the observed test is at least as
  strong as the condition that `validated_merge_rel` proves for validated documents.
-/
import ApiFu.C01.SyntacticRel

namespace ApiFu.C01

/-- whatever `collectAll` returns contains every field `Coll` reaches -/
theorem coll_mem_collectAll (S : Schema) (D : Document) (scope : String) (sels : List Selection) (x : String × Selection)
    (h : Coll D scope sels x) : ∀ fuel L, collectAll S D fuel scope sels = some L → x ∈ L := by
  induction h with
  | @field scope sels pos alias name wkey ae dirs sub hm =>
    intro fuel L hc
    cases fuel with
    | zero => simp [collectAll] at hc
    | succ fuel =>
      rw [collectAll] at hc
      exact ((collectAll_fold_mem S D fuel scope sels [] L hc).2 _ hm).1 pos alias name wkey ae dirs sub rfl
  | @inline scope sels pos tc dirs sub x hm _ ih =>
    intro fuel L hc
    cases fuel with
    | zero => simp [collectAll] at hc
    | succ fuel =>
      rw [collectAll] at hc
      obtain ⟨L', hL', hsub⟩ := ((collectAll_fold_mem S D fuel scope sels [] L hc).2 _ hm).2.1 pos tc dirs sub rfl
      exact hsub x (ih fuel L' hL')
  | @spread scope sels pos name dirs fr x hm hfr _ ih =>
    intro fuel L hc
    cases fuel with
    | zero => simp [collectAll] at hc
    | succ fuel =>
      rw [collectAll] at hc
      obtain ⟨L', hL', hsub⟩ := ((collectAll_fold_mem S D fuel scope sels [] L hc).2 _ hm).2.2 pos name dirs fr rfl hfr
      exact hsub x (ih fuel L' hL')

/-- a conflict witness makes the Boolean test fail, whatever its fuels -/
theorem canMerge_false_of_bad (S : Schema) (D : Document) (p q : String × List Selection) (h : MBad S D p q) :
    ∀ cf mf, canMerge S D cf mf [p, q] = true → False := by
  induction h with
  | @name p q a b ha hb hkey hnot hname =>
    intro cf mf hcm
    obtain ⟨Lp, Lq, hLp, hLq, hmp⟩ := canMerge_unfold S D cf mf p q hcm
    have ma : a ∈ Lp ++ Lq := by
      rcases ha with ha | ha
      · exact List.mem_append_left _ (coll_mem_collectAll S D _ _ _ ha cf Lp hLp)
      · exact List.mem_append_right _ (coll_mem_collectAll S D _ _ _ ha cf Lq hLq)
    have mb : b ∈ Lp ++ Lq := by
      rcases hb with hb | hb
      · exact List.mem_append_left _ (coll_mem_collectAll S D _ _ _ hb cf Lp hLp)
      · exact List.mem_append_right _ (coll_mem_collectAll S D _ _ _ hb cf Lq hLq)
    exact hname (hmp a ma b mb hkey hnot).1
  | @deep p q a b fa fb ha hb hkey hnot hfa hfb _ ih =>
    intro cf mf hcm
    obtain ⟨Lp, Lq, hLp, hLq, hmp⟩ := canMerge_unfold S D cf mf p q hcm
    have ma : a ∈ Lp ++ Lq := by
      rcases ha with ha | ha
      · exact List.mem_append_left _ (coll_mem_collectAll S D _ _ _ ha cf Lp hLp)
      · exact List.mem_append_right _ (coll_mem_collectAll S D _ _ _ ha cf Lq hLq)
    have mb : b ∈ Lp ++ Lq := by
      rcases hb with hb | hb
      · exact List.mem_append_left _ (coll_mem_collectAll S D _ _ _ hb cf Lp hLp)
      · exact List.mem_append_right _ (coll_mem_collectAll S D _ _ _ hb cf Lq hLq)
    obtain ⟨mf', hsub⟩ := (hmp a ma b mb hkey hnot).2 fa fb hfa hfb
    exact ih cf mf' hsub

theorem mergeRel_of_mergeOK (S : Schema) (D : Document) (h : D.mergeOK S = true) : D.MergeRel S := by
  intro op hop r hr hbad
  unfold Document.mergeOK at h
  simp only [List.all_eq_true] at h
  have := h op hop
  simp only [hr] at this
  exact canMerge_false_of_bad S D _ _ hbad _ _ this

end ApiFu.C01
