/-
  C01 — property theorems, part 4: the hypotheses of the capstones, derived from the validator's judgement.

  C04 proves that its model of `ValidateDocument` accepts exactly the documents with `C04.Spec.valid S4 D4`
  (26 rules of June-2018 §5 over the real AST). Here that judgement is the hypothesis: for the document
  `toDoc a D4` the executor runs (FromC04.lean: same tree; `a : Ann` = what input coercion contributes per
  node, arbitrary) over a schema `S` describing the same types as `S4` (`SchemaRel`), `valid` implies

    * `validated_is_typed`            `Document.typed`   (FieldsOnCorrectType, every scope, any depth),
    * `validated_conds_composite`     `Document.condsCheck`  (no "unexpected fragment type" panic),
    * `validated_no_spread_cycle`     `Document.noSpreadCycle` (⇒ descent certificate, driver fuel suffices),
    * `validated_merge_rel`           `Document.MergeRel` (FieldsInSetCanMerge as far as execution needs it,
                                      fuel-free; needs C04's `InputOk`, under which C04 characterises its
                                      rule `fieldsMerge` relationally),
    * `validated_no_undefined_field`  hence: the reference never meets an undefined field, in any reachable
                                      selection set, under any runtime type, through fragments, at any depth,

  and `exec_correct_validated` is the fuel-free capstone for validated documents whose remaining hypotheses
  are not about the document's validity at all:
    - `Schema.closedCheck`, `Schema.wfCheck` (+ the `roots` / `noMeta` facts inside `SchemaRel`): guarantees of
      `schema.New` (decidable; the driver evaluates them for every case; there is no model of `schema.New`);
    - distinct positions, non-empty response keys: facts about parsed documents (C06);
    - `C04.InputOk S4 D4`: C04's own input hypotheses (well-formed schema description, distinct positions of
      selection sets and fields; decidable, evaluated by C04's driver for every case).
  `exec_correct_accepted`: the same from the verdict of C04's model of the validator code (`Model.accepts`).
  `exec_correct_validated_partial` (earlier, kept): the same with the Boolean test `mergeOK` as a hypothesis
  instead of `InputOk` — partial because `mergeOK` is then not derived from validation.
  `mergeOK_implies_mergeRel`: the Boolean test the driver evaluates implies the relational condition.
  Scope: `SchemaRel` relates `S` to a description of the user part of the schema (no introspection types, no
  `__schema` / `__type`; C10's `toC04 [] []`), which is what the executor model covers.
-/
import ApiFu.C01.PropsDriver
import ApiFu.C01.FromC04Cycles
import ApiFu.C01.Roots
import ApiFu.C01.FromC04Merge
import ApiFu.C04.PropsVerdict
import ApiFu.C01.MergeOKRel

namespace ApiFu.C01

/-- **validated_is_typed** — FieldsOnCorrectType for the executor's document follows from the validation
    rules: every field the executor can ever be asked to run — in every selection set, under the type its
    enclosing field / type condition / fragment definition puts in scope, through inline fragments, at any
    depth — is defined on that type (or is `__typename`). -/
theorem validated_is_typed (S4 : C04.Schema) (S : Schema) (hrel : SchemaRel S4 S) (a : Ann) (D4 : C04.Document)
    (hvalid : C04.Spec.valid S4 D4 = true) : (toDoc a D4).typed S = true :=
  typed_of_valid hrel a D4 (validFacts_of_valid S4 D4 hvalid)

/-- **validated_conds_composite** — every type condition of a validated document names a composite type. -/
theorem validated_conds_composite (S4 : C04.Schema) (S : Schema) (hrel : SchemaRel S4 S) (a : Ann) (D4 : C04.Document)
    (hvalid : C04.Spec.valid S4 D4 = true) : (toDoc a D4).condsCheck S = true :=
  condsCheck_of_valid hrel a D4 (validFacts_of_valid S4 D4 hvalid)

/-- **validated_no_spread_cycle** — a validated document passes `noSpreadCycle` (needs no schema). -/
theorem validated_no_spread_cycle (S4 : C04.Schema) (a : Ann) (D4 : C04.Document)
    (hvalid : C04.Spec.valid S4 D4 = true) : (toDoc a D4).noSpreadCycle = true :=
  noSpreadCycle_of_valid a D4 (validFacts_of_valid S4 D4 hvalid).fragmentNamesUnique
    (validFacts_of_valid S4 D4 hvalid).noFragmentCycles

/-- **validated_fuel_sufficient** — for a validated document the executor model, run with the fuel the driver
    computes, never runs out of fuel (any schema, world, operation name, memo on or off). -/
theorem validated_fuel_sufficient (memo : Bool) (S4 : C04.Schema) (S : Schema) (a : Ann) (D4 : C04.Document)
    (hvalid : C04.Spec.valid S4 D4 = true) (hpos : ((toDoc a D4).nodes.map Selection.pos).Nodup)
    (opName : String) (root : RVal) :
    execute memo S (toDoc a D4) (fuelFor2 S (toDoc a D4)) opName root ≠ .error .outOfFuel :=
  driver_fuel_sufficient memo S (toDoc a D4) hpos (validated_no_spread_cycle S4 a D4 hvalid) opName root

/-- **exec_correct_validated_partial** — the capstone for documents the validator accepts. Given the
    validator's judgement `C04.Spec.valid S4 D4`, a schema `S` describing the same types as `S4`, and the
    remaining decidable tests (see the header: `mergeOK`, `closedCheck`, `wfCheck`, positions, keys): for every
    contribution of input coercion `a`, world and operation name, the executor model run with the driver's
    fuel answers, the fuel-free reference has exactly one answer, and the response agrees with it — plain
    data equality, required ⊆ reported ⊆ possible errors, every required error exactly once; or the one
    path-less request error. -/
theorem exec_correct_validated_partial (S4 : C04.Schema) (S : Schema) (hrel : SchemaRel S4 S) (a : Ann)
    (D4 : C04.Document) (hvalid : C04.Spec.valid S4 D4 = true)
    (hpos : ((toDoc a D4).nodes.map Selection.pos).Nodup) (hkeys : ∀ s ∈ (toDoc a D4).nodes, s.keyOK)
    (hschema : S.closedCheck = true) (hwf : S.wfCheck = true) (hmerge : (toDoc a D4).mergeOK S = true)
    (opName : String) (root : RVal) :
    ∃ resp r, execute true S (toDoc a D4) (fuelFor2 S (toDoc a D4)) opName root = .ok resp ∧
      Spec.Answers S (toDoc a D4) opName root r ∧ Agrees resp r ∧
      ∀ r', Spec.Answers S (toDoc a D4) opName root r' → r' = r := by
  obtain ⟨resp, hm, hr⟩ := exec_correct_total_validated S (toDoc a D4) hpos hkeys hschema hwf
    (validated_conds_composite S4 S hrel a D4 hvalid) (validated_no_spread_cycle S4 a D4 hvalid)
    (validated_is_typed S4 S hrel a D4 hvalid) hmerge opName root
  rcases hr with ⟨hs, hd, he⟩ | ⟨s, hs, hd, h1, h2, h3⟩
  · have ha : Spec.Answers S (toDoc a D4) opName root .requestError := ⟨by simp, _, hs⟩
    exact ⟨resp, .requestError, hm, ha, ⟨hd, he⟩, fun r' hr' => spec_answer_unique S _ opName root r' _ hr' ha⟩
  · have ha : Spec.Answers S (toDoc a D4) opName root (.executed s) := ⟨by simp, _, hs⟩
    exact ⟨resp, .executed s, hm, ha, ⟨hd, h1, h2, h3⟩, fun r' hr' => spec_answer_unique S _ opName root r' _ hr' ha⟩

/-- **validated_merge_rel** — FieldsInSetCanMerge as far as execution needs it follows from the validation
    rules: no operation's selection set of the executor's document contains — through inline fragments and
    fragment spreads, at any depth of sub-selections — two fields with one response key, parent types that
    are not two different object types, and different names. (Relational, no fuel: `Document.MergeRel`.) -/
theorem validated_merge_rel (S4 : C04.Schema) (S : Schema) (hrel : SchemaRel S4 S) (a : Ann) (D4 : C04.Document)
    (hin : C04.InputOk S4 D4) (hvalid : C04.Spec.valid S4 D4 = true) : (toDoc a D4).MergeRel S :=
  mergeRel_of_valid hrel a D4 hin hvalid

/-- **validated_no_undefined_field** — for a document the validator accepts the reference never meets a field
    that is not defined on the object type it executes: every reachable selection set, every runtime object
    type, through fragments, unbounded depth; every world, operation name, fuel, and whatever input coercion
    contributes. Remaining hypothesis about the schema: `wfCheck` (interfaces implemented covariantly). -/
theorem validated_no_undefined_field (S4 : C04.Schema) (S : Schema) (hrel : SchemaRel S4 S) (a : Ann)
    (D4 : C04.Document) (hin : C04.InputOk S4 D4) (hvalid : C04.Spec.valid S4 D4 = true) (hwf : S.wfCheck = true)
    (fuel : Nat) (opName : String) (root : RVal) (s : Spec.SOut)
    (hs : Spec.executeRequest S (toDoc a D4) fuel opName root = .executed s) : s.undef = false :=
  relational_undef_free S (toDoc a D4) (validated_is_typed S4 S hrel a D4 hvalid) hwf
    (validated_merge_rel S4 S hrel a D4 hin hvalid) fuel opName root s hs

/-- **exec_correct_validated** — the capstone for documents the validator accepts, no hypothesis about the
    document's validity left: given `C04.Spec.valid S4 D4` (under C04's `InputOk`), a schema `S` describing the
    same types as `S4` that is closed and well-formed (`closedCheck`, `wfCheck`: guarantees of `schema.New`), and
    the two facts about parsed documents (distinct positions, non-empty keys): for every contribution of
    input coercion `a`, world and operation name, the executor model run with the driver's fuel answers, the
    fuel-free reference has exactly one answer, and the response agrees with it — plain data equality,
    required ⊆ reported ⊆ possible errors, every required error exactly once; or the one path-less request
    error. -/
theorem exec_correct_validated (S4 : C04.Schema) (S : Schema) (hrel : SchemaRel S4 S) (a : Ann)
    (D4 : C04.Document) (hin : C04.InputOk S4 D4) (hvalid : C04.Spec.valid S4 D4 = true)
    (hpos : ((toDoc a D4).nodes.map Selection.pos).Nodup) (hkeys : ∀ s ∈ (toDoc a D4).nodes, s.keyOK)
    (hschema : S.closedCheck = true) (hwf : S.wfCheck = true)
    (opName : String) (root : RVal) :
    ∃ resp r, execute true S (toDoc a D4) (fuelFor2 S (toDoc a D4)) opName root = .ok resp ∧
      Spec.Answers S (toDoc a D4) opName root r ∧ Agrees resp r ∧
      ∀ r', Spec.Answers S (toDoc a D4) opName root r' → r' = r := by
  have hcycle := validated_no_spread_cycle S4 a D4 hvalid
  have hconds := validated_conds_composite S4 S hrel a D4 hvalid
  have hN := nodeSet_of_distinct_positions (toDoc a D4) hpos
  have hD := descends_of_noSpreadCycle (toDoc a D4) hcycle
  have hops : ∀ op ∈ (toDoc a D4).ops, ∀ s ∈ op.sels, s ∈ (toDoc a D4).nodes ∧ (toDoc a D4).lvl s < (toDoc a D4).Lbound :=
    fun op hop s hs => ⟨hN.2 op hop s hs, lvl_lt_Lbound _ hcycle s (hN.2 op hop s hs)⟩
  obtain ⟨resp, hresp⟩ := execute_total true S (toDoc a D4) (· ∈ (toDoc a D4).nodes) hN.1 (schemaClosed_of_check S hschema)
    (condsComposite_of_check S _ hconds) _ hD _ hops (fuelFor2 S (toDoc a D4)) (Nat.le_refl _) opName root
  rcases spec_total S (toDoc a D4) (· ∈ (toDoc a D4).nodes) hN.1 (schemaClosed_of_check S hschema)
    (condsComposite_of_check S _ hconds) _ hD _ hops (fuelFor2 S (toDoc a D4)) (Nat.le_refl _) opName root with hs | ⟨s, hs⟩
  · obtain ⟨e, he, hp⟩ := exec_request_error true S (toDoc a D4) (fuelFor2 S (toDoc a D4)) (fuelFor2 S (toDoc a D4)) opName root hs
    rw [he] at hresp
    have := Except.ok.inj hresp
    subst this
    have ha : Spec.Answers S (toDoc a D4) opName root .requestError := ⟨by simp, _, hs⟩
    exact ⟨_, .requestError, he, ha, ⟨rfl, e, rfl, hp⟩, fun r' hr' => spec_answer_unique S _ opName root r' _ hr' ha⟩
  · have hu := validated_no_undefined_field S4 S hrel a D4 hin hvalid hwf _ opName root s hs
    have hd := exec_data_eq_ref S (toDoc a D4) hpos _ _ opName root resp s hresp hs hu
    obtain ⟨h1, h2⟩ := errors_sandwich S (toDoc a D4) hpos hkeys _ _ opName root resp s hresp hs
    have h3 := null_explained_once S (toDoc a D4) hpos hkeys _ _ opName root resp s hresp hs
    have ha : Spec.Answers S (toDoc a D4) opName root (.executed s) := ⟨by simp, _, hs⟩
    exact ⟨resp, .executed s, hresp, ha, ⟨hd, h1, h2, h3⟩, fun r' hr' => spec_answer_unique S _ opName root r' _ hr' ha⟩

/-- **exec_correct_accepted** — `exec_correct_validated` with the verdict of C04's *model of the validator code*
    (`C04.Model.accepts`: `ValidateDocument` returns no error at all, whatever Go's map iteration picks) in place
    of the declarative judgement: C04 proves `Model.accepts S4 D4 = Spec.valid S4 D4` under its `InputOk2`
    (`accepts_eq_valid`) and ties that model to the real validator on every run. So: whatever document the
    (modelled) validator lets through, the executor model's response is the reference's. -/
theorem exec_correct_accepted (S4 : C04.Schema) (S : Schema) (hrel : SchemaRel S4 S) (a : Ann)
    (D4 : C04.Document) (hin : C04.InputOk2 S4 D4) (haccepts : C04.Model.accepts S4 D4 = true)
    (hpos : ((toDoc a D4).nodes.map Selection.pos).Nodup) (hkeys : ∀ s ∈ (toDoc a D4).nodes, s.keyOK)
    (hschema : S.closedCheck = true) (hwf : S.wfCheck = true)
    (opName : String) (root : RVal) :
    ∃ resp r, execute true S (toDoc a D4) (fuelFor2 S (toDoc a D4)) opName root = .ok resp ∧
      Spec.Answers S (toDoc a D4) opName root r ∧ Agrees resp r ∧
      ∀ r', Spec.Answers S (toDoc a D4) opName root r' → r' = r :=
  exec_correct_validated S4 S hrel a D4 hin.toInputOk (by rw [← C04.accepts_eq_valid hin]; exact haccepts)
    hpos hkeys hschema hwf opName root

/-- **mergeOK_implies_mergeRel** — the Boolean merge test the driver evaluates for every case (with fuel; `false`
    when the fuel runs out) implies the relational, fuel-free merge condition; every schema and document.
    (For validated documents `validated_merge_rel` proves the latter without evaluating anything.) -/
theorem mergeOK_implies_mergeRel (S : Schema) (D : Document) (h : D.mergeOK S = true) : D.MergeRel S :=
  mergeRel_of_mergeOK S D h

/-- **schemaRel_of_rootsCheck** — the `roots` fact of `SchemaRel` stated on the executor's side is the decidable
    test `Schema.rootsCheck`, which the driver evaluates for every case. -/
theorem schemaRel_of_rootsCheck (S4 : C04.Schema) (S : Schema)
    (htypes : ∀ n, KindRel (C04.Spec.kindOf S4 n) (S.lookup n))
    (hq : S.query = S4.query) (hm : S.mutation = S4.mutation) (hs : S.subscription = S4.subscription)
    (hroots : S.rootsCheck = true) (hmeta : S4.metaFields = []) : SchemaRel S4 S := by
  refine ⟨htypes, hq, hm, hs, ?_, hmeta⟩
  intro k r hr
  have hr' : rootTypeName S (kindOfOp k) = some r := by
    cases k <;> simpa [rootTypeName, kindOfOp, C04.Schema.root, hq, hm, hs] using hr
  have hobj := rootsCheck_spec S hroots _ r hr'
  have hk := htypes r
  unfold isObjectType at hobj
  unfold C04.Spec.isObject
  generalize C04.Spec.kindOf S4 r = k4 at hk
  generalize S.lookup r = l at hk hobj
  cases hk <;> simp [C04.TypeKind.isObject] at hobj ⊢

/-! ## Non-vacuity: every C04 schema description with unique type names, object roots and no meta fields has
    a related executor schema; and a concrete validated document. -/

/-- an executor schema for a C04 description (scalar kinds and enum values chosen by the caller) -/
def schemaOf (S4 : C04.Schema) (sk : String → ScalarKind) (ev : String → List (String × GoVal)) : Schema :=
  { types := S4.types.filterMap fun t =>
      match t.kind with
      | .object fs is => some (t.name, .object (fs.map fieldOf) is)
      | .interface fs => some (t.name, .interface (fs.map fieldOf))
      | .union ms => some (t.name, .union ms)
      | .scalar _ => some (t.name, .scalar (sk t.name))
      | .enum _ => some (t.name, .enum (ev t.name))
      | .input _ => none,
    query := S4.query, mutation := S4.mutation, subscription := S4.subscription }

theorem schemaRel_schemaOf (S4 : C04.Schema) (sk : String → ScalarKind) (ev : String → List (String × GoVal))
    (hnames : (S4.types.map (·.name)).Nodup)
    (hroots : ∀ k r, S4.root k = some r → C04.Spec.isObject S4 r = true) (hmeta : S4.metaFields = []) :
    SchemaRel S4 (schemaOf S4 sk ev) := by
  refine ⟨?_, rfl, rfl, rfl, hroots, hmeta⟩
  intro n
  unfold C04.Spec.kindOf C04.Schema.find Schema.lookup schemaOf
  simp only
  generalize S4.types = ts at hnames
  induction ts with
  | nil => exact .none
  | cons t rest ih =>
    simp only [List.map_cons, List.nodup_cons] at hnames
    by_cases hn : t.name = n
    · simp only [List.find?_cons, hn, decide_true, Option.map_some, List.filterMap_cons]
      have hrest : (rest.filterMap fun t =>
          match t.kind with
          | .object fs is => some (t.name, TypeDef.object (fs.map fieldOf) is)
          | .interface fs => some (t.name, TypeDef.interface (fs.map fieldOf))
          | .union ms => some (t.name, TypeDef.union ms)
          | .scalar _ => some (t.name, TypeDef.scalar (sk t.name))
          | .enum _ => some (t.name, TypeDef.enum (ev t.name))
          | .input _ => none).find? (fun p => p.1 == n) = none := by
        rw [List.find?_eq_none]
        intro p hp
        simp only [List.mem_filterMap] at hp
        obtain ⟨t', ht', hpt⟩ := hp
        have hne : t'.name ≠ n := by
          intro he
          apply hnames.1
          rw [hn, ← he]
          exact List.mem_map_of_mem (f := (·.name)) ht'
        cases hk : t'.kind <;> simp only [hk, Option.some.injEq] at hpt <;> first | (subst hpt; simpa using hne) | cases hpt
      cases hk : t.kind with
      | object fs is => simp only [List.find?_cons, beq_self_eq_true]; exact .object fs is
      | interface fs => simp only [List.find?_cons, beq_self_eq_true]; exact .interface fs
      | union ms => simp only [List.find?_cons, beq_self_eq_true]; exact .union ms
      | scalar sp => simp only [List.find?_cons, beq_self_eq_true]; exact .scalar sp _
      | enum vs => simp only [List.find?_cons, beq_self_eq_true]; exact .enum vs _
      | input defs => simp only [hrest]; exact .input defs
    · have hb : (t.name == n) = false := by simpa using hn
      simp only [List.find?_cons, hn, decide_false, List.filterMap_cons]
      cases hk : t.kind <;> simp only [List.find?_cons, hb] <;> exact ih hnames.2

namespace ExampleC04

/-- `type Query { me: Person }  type Person { name: String  friend: Person }` as the validator sees it -/
def S4 : C04.Schema :=
  { types := [
      { name := "Query", kind := .object [{ name := "me", type := .named "Person", args := [] }] [] },
      { name := "Person", kind := .object [{ name := "name", type := .named "String", args := [] },
                                           { name := "friend", type := .named "Person", args := [] }] [] },
      { name := "String", kind := .scalar .string }],
    query := "Query", mutation := none, subscription := none, directives := [], metaFields := [] }

/-- `{ me { ...F friend { name } } }  fragment F on Person { name }` as parsed -/
def D4 : C04.Document :=
  [ .op none none [] [] (.mk [
      .field none "me" ⟨1, 3⟩ [] [] (some (.mk [
        .spread "F" ⟨1, 11⟩ [] ⟨1, 8⟩,
        .field none "friend" ⟨1, 13⟩ [] [] (some (.mk [.field none "name" ⟨1, 22⟩ [] [] none] ⟨1, 20⟩))] ⟨1, 6⟩))] ⟨1, 1⟩),
    .frag "F" ⟨2, 10⟩ "Person" ⟨2, 15⟩ [] (.mk [.field none "name" ⟨2, 24⟩ [] [] none] ⟨2, 22⟩) ⟨2, 1⟩ ]

/-- the same document with the fragment spreading itself: rejected -/
def D4cyc : C04.Document :=
  [ .op none none [] [] (.mk [
      .field none "me" ⟨1, 3⟩ [] [] (some (.mk [.spread "F" ⟨1, 11⟩ [] ⟨1, 8⟩] ⟨1, 6⟩))] ⟨1, 1⟩),
    .frag "F" ⟨2, 10⟩ "Person" ⟨2, 15⟩ [] (.mk [.field none "friend" ⟨2, 24⟩ [] []
      (some (.mk [.spread "F" ⟨2, 36⟩ [] ⟨2, 33⟩] ⟨2, 31⟩))] ⟨2, 22⟩) ⟨2, 1⟩ ]

def S : Schema := schemaOf S4 (fun _ => .string) (fun _ => [])

def ann : Ann := { wkey := fun _ => "k", argErr := fun _ => none, dir := fun _ => .other }

example : C04.Spec.valid S4 D4 = true := by decide
example : C04.Spec.valid S4 D4cyc = false := by decide

theorem rel : SchemaRel S4 S :=
  schemaRel_schemaOf S4 _ _ (by decide) (by intro k r h; cases k <;> simp [S4, C04.Schema.root] at h; subst h; decide) rfl

/-- the three derived tests hold (by the theorems), and agree with direct evaluation -/
example : (toDoc ann D4).typed S = true ∧ (toDoc ann D4).condsCheck S = true ∧ (toDoc ann D4).noSpreadCycle = true :=
  ⟨validated_is_typed S4 S rel ann D4 (by decide), validated_conds_composite S4 S rel ann D4 (by decide),
    validated_no_spread_cycle S4 ann D4 (by decide)⟩
example : (toDoc ann D4).typed S = true ∧ (toDoc ann D4).noSpreadCycle = true ∧ (toDoc ann D4cyc).noSpreadCycle = false := by
  decide

/-- `exec_correct_validated_partial` instantiated: every hypothesis is decided -/
example (root : RVal) : ∃ resp r, execute true S (toDoc ann D4) (fuelFor2 S (toDoc ann D4)) "" root = .ok resp ∧
    Spec.Answers S (toDoc ann D4) "" root r ∧ Agrees resp r ∧ ∀ r', Spec.Answers S (toDoc ann D4) "" root r' → r' = r :=
  exec_correct_validated_partial S4 S rel ann D4 (by decide) (by decide) (by decide) (by decide) (by decide) (by decide) "" root

/-- C04's input hypotheses hold for the example (well-formed description, distinct positions) -/
theorem inputOk : C04.InputOk S4 D4 := C04.inputOk_of_hyp (by decide)

/-- the merge condition is derived, and a conflicting document is not valid:
    `{ me { x: name  x: friend { name } } }` -/
example : (toDoc ann D4).MergeRel S := validated_merge_rel S4 S rel ann D4 inputOk (by decide)

def D4conflict : C04.Document :=
  [ .op none none [] [] (.mk [
      .field none "me" ⟨1, 3⟩ [] [] (some (.mk [
        .field (some ("x", ⟨1, 8⟩)) "name" ⟨1, 11⟩ [] [] none,
        .field (some ("x", ⟨1, 16⟩)) "friend" ⟨1, 19⟩ [] [] (some (.mk [.field none "name" ⟨1, 28⟩ [] [] none] ⟨1, 26⟩))] ⟨1, 6⟩))] ⟨1, 1⟩) ]

example : C04.Spec.valid S4 D4conflict = false := by decide
example : (toDoc ann D4conflict).mergeOK S = false := by decide

/-- `exec_correct_validated` instantiated: validity, C04's input hypotheses and the schema / parser facts are
    all decided; no merge hypothesis -/
example (root : RVal) : ∃ resp r, execute true S (toDoc ann D4) (fuelFor2 S (toDoc ann D4)) "" root = .ok resp ∧
    Spec.Answers S (toDoc ann D4) "" root r ∧ Agrees resp r ∧ ∀ r', Spec.Answers S (toDoc ann D4) "" root r' → r' = r :=
  exec_correct_validated S4 S rel ann D4 inputOk (by decide) (by decide) (by decide) (by decide) (by decide) "" root

end ExampleC04

end ApiFu.C01
