/-
  C01 — the syntactic judgement with a *relational*, fuel-free merge condition.

  `Document.mergeOK` (Syntactic.lean) is a Boolean test with fuel (it answers `false` when its fuel runs out).
  Here the same condition is the absence of a finite witness `MBad`: two selection lists (with their scopes)
  conflict if the field sets they reach through inline fragments and fragment spreads (`Coll`, relational: no
  fuel, no visited set) contain two fields with one response key whose parent types are not two different
  object types and whose names differ, or whose sub-selections conflict in turn. `Document.MergeRel`: no
  operation's selection set conflicts with itself. `relational_undef_free`: typed + wfCheck + MergeRel ⇒ the
  reference never meets an undefined field. (Same proof as SyntacticProofs.lean with the field set `L` a
  predicate instead of a list computed by `collectAll`.) FromC04Merge.lean derives `MergeRel` from C04's
  FieldsInSetCanMerge.
-/
import ApiFu.C01.SyntacticProofs

namespace ApiFu.C01

/-- the field selections a selection list reaches through inline fragments and fragment spreads, each with the
    scope it is written in (type conditions and directives ignored: the "set" of FieldsInSetCanMerge) -/
inductive Coll (D : Document) : String → List Selection → String × Selection → Prop where
  | field {scope sels pos alias name wkey ae dirs sub} :
      Selection.field pos alias name wkey ae dirs sub ∈ sels →
      Coll D scope sels (scope, .field pos alias name wkey ae dirs sub)
  | inline {scope sels pos tc dirs sub x} :
      Selection.inline pos tc dirs sub ∈ sels → Coll D (tc.getD scope) sub x → Coll D scope sels x
  | spread {scope sels pos name dirs fr x} :
      Selection.spread pos name dirs ∈ sels → D.frag? name = some fr → Coll D fr.tc fr.sels x → Coll D scope sels x

/-- a finite witness that two selection lists cannot be merged -/
inductive MBad (S : Schema) (D : Document) : String × List Selection → String × List Selection → Prop where
  | name {p q a b} :
      (Coll D p.1 p.2 a ∨ Coll D q.1 q.2 a) → (Coll D p.1 p.2 b ∨ Coll D q.1 q.2 b) →
      a.2.fieldKey = b.2.fieldKey →
      ¬ (isObjectType S a.1 = true ∧ isObjectType S b.1 = true ∧ a.1 ≠ b.1) →
      a.2.fieldName ≠ b.2.fieldName → MBad S D p q
  | deep {p q a b fa fb} :
      (Coll D p.1 p.2 a ∨ Coll D q.1 q.2 a) → (Coll D p.1 p.2 b ∨ Coll D q.1 q.2 b) →
      a.2.fieldKey = b.2.fieldKey →
      ¬ (isObjectType S a.1 = true ∧ isObjectType S b.1 = true ∧ a.1 ≠ b.1) →
      S.fieldOn a.1 a.2.fieldName = some fa → S.fieldOn b.1 b.2.fieldName = some fb →
      MBad S D (fa.type.base, a.2.subs) (fb.type.base, b.2.subs) → MBad S D p q

/-- **MergeRel** — FieldsInSetCanMerge as far as execution needs it, fuel-free: no operation's selection set
    conflicts with itself. -/
def Document.MergeRel (D : Document) (S : Schema) : Prop :=
  ∀ op ∈ D.ops, ∀ r, rootTypeName S op.kind = some r → ¬ MBad S D (r, op.sels) (r, op.sels)

/-- the field set of `(scope, sels)` lies in `L` -/
def InSetR (S : Schema) (D : Document) (L : String × Selection → Prop) (scope : String) (sels : List Selection) : Prop :=
  ∀ x, Coll D scope sels x → L x

theorem inSet_selR (S : Schema) (D : Document) (L : String × Selection → Prop) (scope : String) (sels : List Selection)
    (h : InSetR S D L scope sels) (sel : Selection) (hs : sel ∈ sels) :
    (∀ pos alias name wkey ae dirs sub, sel = .field pos alias name wkey ae dirs sub → L (scope, sel)) ∧
    (∀ pos tc dirs sub, sel = .inline pos tc dirs sub → InSetR S D L (tc.getD scope) sub) ∧
    (∀ pos name dirs fr, sel = .spread pos name dirs → D.frag? name = some fr → InSetR S D L fr.tc fr.sels) := by
  refine ⟨?_, ?_, ?_⟩
  · intro pos alias name wkey ae dirs sub he
    subst he
    exact h _ (.field hs)
  · intro pos tc dirs sub he x hx
    subst he
    exact h _ (.inline hs hx)
  · intro pos name dirs fr he hfr x hx
    subst he
    exact h _ (.spread hs hfr hx)

/-- `f` was selected by a typed field selection of the set `L`, in a scope the object type belongs to -/
def FromSetR (S : Schema) (o : ObjT) (L : String × Selection → Prop) (f : FieldNode) : Prop :=
  ∃ scope sel, fragmentApplies S o scope = .yes ∧ typedSel S scope sel = true ∧ L (scope, sel) ∧ sel.node? = some f

/-- a selection that is typed in a scope the object type belongs to, whose field set lies in `L` -/
def CondSelR (S : Schema) (D : Document) (o : ObjT) (L : String × Selection → Prop) (sel : Selection) : Prop :=
  ∃ scope, fragmentApplies S o scope = .yes ∧ typedSel S scope sel = true ∧
    (∀ f, sel.node? = some f → L (scope, sel)) ∧
    (∀ pos tc dirs sub, sel = .inline pos tc dirs sub → InSetR S D L (tc.getD scope) sub) ∧
    (∀ pos name dirs fr, sel = .spread pos name dirs → D.frag? name = some fr → InSetR S D L fr.tc fr.sels)

/-- every selection of a typed selection list whose field set lies in `L` satisfies `CondSelR` -/
theorem condSel_of_listR (S : Schema) (D : Document) (o : ObjT) (L : String × Selection → Prop) (scope : String)
    (sels : List Selection) (hsub : fragmentApplies S o scope = .yes) (ht : typedList S scope sels = true)
    (hin : InSetR S D L scope sels) : ∀ sel ∈ sels, CondSelR S D o L sel := by
  intro sel hs
  obtain ⟨ha, hb, hc⟩ := inSet_selR S D L scope sels hin sel hs
  refine ⟨scope, hsub, typedList_mem S scope sels ht sel hs, ?_, hb, hc⟩
  intro f hf
  cases sel with
  | field pos alias name wkey ae dirs sub => exact ha _ _ _ _ _ _ _ rfl
  | spread pos name dirs => simp [Selection.node?] at hf
  | inline pos tc dirs sub => simp [Selection.node?] at hf

def GroupsFromR (S : Schema) (o : ObjT) (L : String × Selection → Prop) (g : Grouped) : Prop :=
  ∀ p ∈ g, ∀ f ∈ p.2, FromSetR S o L f ∧ f.responseKey = p.1

theorem addToGroup_groupsFromR (S : Schema) (o : ObjT) (L : String × Selection → Prop) (g : Grouped) (k : String)
    (fs : List FieldNode) (hg : GroupsFromR S o L g) (hfs : ∀ f ∈ fs, FromSetR S o L f ∧ f.responseKey = k) :
    GroupsFromR S o L (Spec.addToGroup g k fs) := by
  induction g with
  | nil =>
    intro p hp f hf
    simp only [Spec.addToGroup, List.mem_singleton] at hp
    subst hp
    exact hfs f hf
  | cons q rest ih =>
    obtain ⟨k', g'⟩ := q
    by_cases hk : k' = k
    · rw [addToGroup_cons_eq _ _ _ _ _ hk]
      intro p hp f hf
      rcases List.mem_cons.mp hp with rfl | hp
      · rcases List.mem_append.mp hf with hf | hf
        · exact hg (k', g') (List.mem_cons_self ..) f hf
        · have := hfs f hf
          exact ⟨this.1, by rw [this.2, hk]⟩
      · exact hg p (List.mem_cons_of_mem _ hp) f hf
    · rw [addToGroup_cons_ne _ _ _ _ _ hk]
      intro p hp f hf
      rcases List.mem_cons.mp hp with rfl | hp
      · exact hg (k', g') (List.mem_cons_self ..) f hf
      · exact ih (fun p hp => hg p (List.mem_cons_of_mem _ hp)) p hp f hf

theorem mergeGroups_groupsFromR (S : Schema) (o : ObjT) (L : String × Selection → Prop) (g fg : Grouped)
    (hg : GroupsFromR S o L g) (hfg : GroupsFromR S o L fg) : GroupsFromR S o L (Spec.mergeGroups g fg) := by
  unfold Spec.mergeGroups
  induction fg generalizing g with
  | nil => exact hg
  | cons q rest ih =>
    simp only [List.foldl_cons]
    apply ih
    · exact addToGroup_groupsFromR S o L g q.1 q.2 hg (hfg q (List.mem_cons_self ..))
    · exact fun p hp => hfg p (List.mem_cons_of_mem _ hp)

theorem collectSelection_groupsFromR (S : Schema) (D : Document) (o : ObjT) (L : String × Selection → Prop)
    (hfrags : ∀ fr ∈ D.frags, typedList S fr.tc fr.sels = true)
    (recur : List Selection → List String → Option (Grouped × List String))
    (hrec : ∀ sels vis r, (∀ sel ∈ sels, CondSelR S D o L sel) → recur sels vis = some r → GroupsFromR S o L r.1)
    (acc : Grouped × List String) (sel : Selection) (r : Grouped × List String)
    (hacc : GroupsFromR S o L acc.1) (hsel : CondSelR S D o L sel)
    (h : Spec.collectSelection S D o recur acc sel = some r) : GroupsFromR S o L r.1 := by
  unfold Spec.collectSelection at h
  obtain ⟨grouped, visited⟩ := acc
  simp only at h hacc
  obtain ⟨scope, hsub, htyped, hfield, hinl, hspr⟩ := hsel
  by_cases hx : Spec.excluded sel.dirs = true
  · simp only [hx, if_true, Option.some.injEq] at h; subst h; exact hacc
  · simp only [hx, Bool.false_eq_true, if_false] at h
    cases sel with
    | field pos alias name wkey argErr dirs sub =>
      simp only [Option.some.injEq] at h; subst h
      apply addToGroup_groupsFromR S o L _ _ _ hacc
      intro f hf
      simp only [List.mem_singleton] at hf
      subst hf
      refine ⟨⟨scope, _, hsub, htyped, hfield _ rfl, rfl⟩, ?_⟩
      simp [Spec.toFieldNode, FieldNode.responseKey, Spec.responseKeyOf]
      cases alias <;> rfl
    | spread pos name dirs =>
      simp only [fragmentNamed_eq] at h
      by_cases hv : name ∈ visited
      · simp only [hv, if_true, Option.some.injEq] at h; subst h; exact hacc
      · simp only [hv, if_false] at h
        cases hf : D.frag? name with
        | none => simp only [hf, Option.some.injEq] at h; subst h; exact hacc
        | some fr =>
          simp only [hf] at h
          by_cases ha : Spec.doesFragmentTypeApply S o fr.tc = true
          · simp only [ha, if_true] at h
            cases hr : recur fr.sels (name :: visited) with
            | none => simp [hr] at h
            | some q =>
              obtain ⟨fg, v⟩ := q
              simp only [hr, Option.some.injEq] at h; subst h
              apply mergeGroups_groupsFromR S o L _ _ hacc
              apply hrec _ _ _ _ hr
              exact condSel_of_listR S D o L fr.tc fr.sels (doesApply_yes S o fr.tc ha)
                (hfrags fr (frag?_mem D name fr hf)) (hspr pos name dirs fr rfl hf)
          · simp only [ha, Bool.false_eq_true, if_false, Option.some.injEq] at h; subst h; exact hacc
    | inline pos tc dirs sub =>
      have htl : typedList S (tc.getD scope) sub = true := by simpa [typedSel] using htyped
      have hin := hinl pos tc dirs sub rfl
      have key : ∀ (hsub' : fragmentApplies S o (tc.getD scope) = .yes) (q : Grouped × List String),
          recur sub visited = some q → GroupsFromR S o L (Spec.mergeGroups grouped q.1) := by
        intro hsub' q hr
        apply mergeGroups_groupsFromR S o L _ _ hacc
        exact hrec _ _ _ (condSel_of_listR S D o L (tc.getD scope) sub hsub' htl hin) hr
      cases hr : recur sub visited with
      | none =>
        cases tc with
        | none => simp [hr] at h
        | some t =>
          by_cases ha : Spec.doesFragmentTypeApply S o t = true
          · simp [ha, hr] at h
          · simp only [ha, Bool.false_eq_true, if_false, Option.some.injEq] at h; subst h; exact hacc
      | some q =>
        obtain ⟨fg, v⟩ := q
        cases tc with
        | none =>
          simp only [hr, if_true, Option.some.injEq] at h; subst h
          exact key (by simpa using hsub) (fg, v) hr
        | some t =>
          by_cases ha : Spec.doesFragmentTypeApply S o t = true
          · simp only [ha, hr, if_true, Option.some.injEq] at h; subst h
            exact key (by simpa using doesApply_yes S o t ha) (fg, v) hr
          · simp only [ha, Bool.false_eq_true, if_false, Option.some.injEq] at h; subst h; exact hacc

theorem spec_collect_groupsFromR (S : Schema) (D : Document) (o : ObjT) (L : String × Selection → Prop)
    (hfrags : ∀ fr ∈ D.frags, typedList S fr.tc fr.sels = true)
    (fuel : Nat) (sels : List Selection) (vis : List String) (r : Grouped × List String)
    (hsels : ∀ sel ∈ sels, CondSelR S D o L sel)
    (h : Spec.collectFields S D o fuel sels vis = some r) : GroupsFromR S o L r.1 := by
  induction fuel generalizing sels vis r with
  | zero => simp [Spec.collectFields] at h
  | succ fuel ih =>
    simp only [Spec.collectFields] at h
    have fold : ∀ (sels : List Selection) (acc r : Grouped × List String), GroupsFromR S o L acc.1 →
        (∀ sel ∈ sels, CondSelR S D o L sel) →
        sels.foldlM (Spec.collectSelection S D o (Spec.collectFields S D o fuel)) acc = some r → GroupsFromR S o L r.1 := by
      intro sels
      induction sels with
      | nil =>
        intro acc r hacc _ h
        simp only [List.foldlM_nil, pure, Option.some.injEq] at h
        subst h; exact hacc
      | cons sel rest ihl =>
        intro acc r hacc hs h
        simp only [List.foldlM_cons] at h
        cases h1 : Spec.collectSelection S D o (Spec.collectFields S D o fuel) acc sel with
        | none => simp [h1] at h
        | some acc' =>
          simp only [h1, Option.bind_eq_bind, Option.bind_some] at h
          exact ihl acc' r
            (collectSelection_groupsFromR S D o L hfrags _ (fun sels vis r hs hr => ih sels vis r hs hr) acc sel acc' hacc
              (hs sel (List.mem_cons_self ..)) h1)
            (fun s hs' => hs s (List.mem_cons_of_mem _ hs')) h
    exact fold sels ([], vis) r (by intro p hp; simp at hp) hsels h


/-! ### merging -/

/-- the pairwise condition on a field set -/
def MergePropR (S : Schema) (D : Document) (L : String × Selection → Prop) : Prop :=
  ∀ a, L a → ∀ b, L b → a.2.fieldKey = b.2.fieldKey →
    ¬ (isObjectType S a.1 = true ∧ isObjectType S b.1 = true ∧ a.1 ≠ b.1) →
    a.2.fieldName = b.2.fieldName ∧
    ∀ fa fb, S.fieldOn a.1 a.2.fieldName = some fa → S.fieldOn b.1 b.2.fieldName = some fb →
      ¬ MBad S D (fa.type.base, a.2.subs) (fb.type.base, b.2.subs)

theorem mergePropR_of_not_bad (S : Schema) (D : Document) (p q : String × List Selection) (h : ¬ MBad S D p q) :
    MergePropR S D (fun x => Coll D p.1 p.2 x ∨ Coll D q.1 q.2 x) := by
  intro a ha b hb hkey hnot
  refine ⟨?_, ?_⟩
  · by_cases hn : a.2.fieldName = b.2.fieldName
    · exact hn
    · exact absurd (MBad.name ha hb hkey hnot hn) h
  · intro fa fb hfa hfb hbad
    exact h (MBad.deep ha hb hkey hnot hfa hfb hbad)

/-- the invariant of a merged selection set executed for object type `o` -/
def InvR (S : Schema) (D : Document) (o : ObjT) (sels : List Selection) : Prop :=
  ∃ (parts : List (String × List Selection)) (L : String × Selection → Prop),
    sels = parts.flatMap (·.2) ∧
    (∀ p ∈ parts, fragmentApplies S o p.1 = .yes ∧ typedList S p.1 p.2 = true ∧ InSetR S D L p.1 p.2) ∧
    MergePropR S D L

theorem inv_condSelR (S : Schema) (D : Document) (o : ObjT) (sels : List Selection) (h : InvR S D o sels) :
    ∃ L, MergePropR S D L ∧ ∀ sel ∈ sels, CondSelR S D o L sel := by
  obtain ⟨parts, L, rfl, hparts, hm⟩ := h
  refine ⟨L, hm, ?_⟩
  intro sel hs
  simp only [List.mem_flatMap] at hs
  obtain ⟨p, hp, hsp⟩ := hs
  obtain ⟨h1, h2, h3⟩ := hparts p hp
  exact condSel_of_listR S D o L p.1 p.2 h1 h2 h3 sel hsp

/-- a part of the next level's merged selection set: the sub-selections of a field of the group, in the
    scope of the field's declared type on the scope it was selected in -/
def PartOKR (S : Schema) (o o' : ObjT) (L : String × Selection → Prop) (fields : List FieldNode)
    (p : String × List Selection) : Prop :=
  ∃ f ∈ fields, ∃ scope sel fd, L (scope, sel) ∧ sel.node? = some f ∧ fragmentApplies S o scope = .yes ∧
    S.fieldOn scope f.name = some fd ∧ p = (fd.type.base, f.sels) ∧ typedList S fd.type.base f.sels = true ∧
    fragmentApplies S o' fd.type.base = .yes

theorem partOK_of_fieldR (S : Schema) (D : Document) (hwf : S.wfCheck = true) (o : ObjT)
    (ho : S.object? o.name = some o) (L : String × Selection → Prop) (hm : MergePropR S D L)
    (key : String) (fields : List FieldNode)
    (hfields : ∀ f ∈ fields, FromSetR S o L f ∧ f.responseKey = key)
    (f0 : FieldNode) (hf0 : f0 ∈ fields) (hn : f0.name ≠ "__typename")
    (fd' : FieldDef) (hfd' : o.getField f0.name = some fd') (o' : ObjT) (ho' : o' ∈ runtimeObjects S fd'.type.base)
    (f : FieldNode) (hf : f ∈ fields) : ∃ p, PartOKR S o o' L fields p ∧ p.2 = f.sels := by
  obtain ⟨⟨scope, sel, hsub, htyped, hmem, hnode⟩, hkey⟩ := hfields f hf
  obtain ⟨⟨scope0, sel0, hsub0, _, hmem0, hnode0⟩, hkey0⟩ := hfields f0 hf0
  obtain ⟨k1, n1, s1⟩ := node_facts sel f hnode
  obtain ⟨k0, n0, _⟩ := node_facts sel0 f0 hnode0
  -- same response key, compatible parents: same name
  have hname : f.name = f0.name := by
    have := (hm (scope, sel) hmem (scope0, sel0) hmem0 (by simp only; rw [k1, k0, hkey, hkey0]) (by
      rintro ⟨h1, h2, h3⟩
      exact h3 ((sub_object_name S o scope hsub h1).symm.trans (sub_object_name S o scope0 hsub0 h2)))).1
    simp only at this
    rw [n1, n0] at this
    exact this
  obtain ⟨fd, hfd, htl⟩ := typedSel_field S scope sel f hnode htyped (by rw [hname]; exact hn)
  obtain ⟨fd'', hget, hsb⟩ := fieldOn_runtime S hwf o ho scope f.name fd hsub hfd
  rw [hname, hfd'] at hget
  have : fd'' = fd' := (Option.some.inj hget).symm
  subst this
  have hsub' : fragmentApplies S o' fd.type.base = .yes := by
    unfold subBase at hsb
    rw [List.all_eq_true] at hsb
    simpa using hsb o' ho'
  exact ⟨(fd.type.base, f.sels), ⟨f, hf, scope, sel, fd, hmem, hnode, hsub, hfd, rfl, htl, hsub'⟩, rfl⟩

theorem parts_existR (S : Schema) (o o' : ObjT) (L : String × Selection → Prop) (fields : List FieldNode)
    (h : ∀ f ∈ fields, ∃ p, PartOKR S o o' L fields p ∧ p.2 = f.sels) (sub : List FieldNode) (hsub : ∀ f ∈ sub, f ∈ fields) :
    ∃ parts : List (String × List Selection), parts.flatMap (·.2) = mergeSelectionSets sub ∧ ∀ p ∈ parts, PartOKR S o o' L fields p := by
  induction sub with
  | nil => exact ⟨[], rfl, by intro p hp; simp at hp⟩
  | cons f rest ih =>
    obtain ⟨parts, h1, h2⟩ := ih (fun x hx => hsub x (List.mem_cons_of_mem _ hx))
    obtain ⟨p, hp, hps⟩ := h f (hsub f (List.mem_cons_self ..))
    refine ⟨p :: parts, ?_, ?_⟩
    · simp only [List.flatMap_cons, mergeSelectionSets, hps] at h1 ⊢
      rw [h1]
    · intro q hq
      rcases List.mem_cons.mp hq with rfl | hq
      · exact hp
      · exact h2 q hq


/-- **The invariant is inherited by the merged sub-selections of a group, for every object type the
    field's value can have.** -/
theorem inv_nextR (S : Schema) (D : Document) (hwf : S.wfCheck = true) (o : ObjT)
    (ho : S.object? o.name = some o) (L : String × Selection → Prop) (hm : MergePropR S D L)
    (key : String) (fields : List FieldNode)
    (hfields : ∀ f ∈ fields, FromSetR S o L f ∧ f.responseKey = key)
    (f0 : FieldNode) (hf0 : f0 ∈ fields) (hn : f0.name ≠ "__typename")
    (fd' : FieldDef) (hfd' : o.getField f0.name = some fd') (o' : ObjT) (ho' : o' ∈ runtimeObjects S fd'.type.base) :
    InvR S D o' (mergeSelectionSets fields) := by
  have hpart : ∀ f ∈ fields, ∃ p, PartOKR S o o' L fields p ∧ p.2 = f.sels :=
    fun f hf => partOK_of_fieldR S D hwf o ho L hm key fields hfields f0 hf0 hn fd' hfd' o' ho' f hf
  obtain ⟨parts, hflat, hparts⟩ := parts_existR S o o' L fields hpart fields (fun f hf => hf)
  have hpair : ∀ p ∈ parts, ∀ q ∈ parts, ¬ MBad S D p q := by
    intro p hp q hq
    obtain ⟨f, hf, scope, sel, fd, hmem, hnode, hsub, hfd, rfl, _, _⟩ := hparts p hp
    obtain ⟨g, hg, scope2, sel2, fd2, hmem2, hnode2, hsub2, hfd2, rfl, _, _⟩ := hparts q hq
    obtain ⟨k1, n1, s1⟩ := node_facts sel f hnode
    obtain ⟨k2, n2, s2⟩ := node_facts sel2 g hnode2
    have := (hm (scope, sel) hmem (scope2, sel2) hmem2 (by
        simp only; rw [k1, k2, (hfields f hf).2, (hfields g hg).2]) (by
      rintro ⟨h1, h2, h3⟩
      exact h3 ((sub_object_name S o scope hsub h1).symm.trans (sub_object_name S o scope2 hsub2 h2)))).2 fd fd2
      (by simp only; rw [n1]; exact hfd) (by simp only; rw [n2]; exact hfd2)
    simp only [s1, s2] at this
    exact this
  refine ⟨parts, fun x => ∃ p ∈ parts, Coll D p.1 p.2 x, hflat.symm, ?_, ?_⟩
  · intro p hp
    obtain ⟨f, hf, scope, sel, fd, hmem, hnode, hsub, hfd, rfl, htl, hsub'⟩ := hparts p hp
    exact ⟨hsub', htl, fun x hx => ⟨_, hp, hx⟩⟩
  · intro a ha b hb hkey hnot
    obtain ⟨p, hp, hap⟩ := ha
    obtain ⟨q, hq, hbq⟩ := hb
    exact mergePropR_of_not_bad S D p q (hpair p hp q hq) a (Or.inl hap) b (Or.inr hbq) hkey hnot

theorem inv_undef_freeR (S : Schema) (D : Document) (hwf : S.wfCheck = true)
    (hfrags : ∀ fr ∈ D.frags, typedList S fr.tc fr.sels = true)
    (fuel : Nat) (o : ObjT) (sels : List Selection) (v : RVal) (path : Path) (s : Spec.SOut)
    (hinv : InvR S D o sels) (ho : S.object? o.name = some o)
    (hs : Spec.executeSelectionSet S D fuel o sels v path = some s) : s.undef = false := by
  induction fuel using Nat.strongRecOn generalizing o sels v path s with
  | _ fuel ih =>
    cases fuel with
    | zero => simp [Spec.executeSelectionSet] at hs
    | succ fuel =>
      simp only [Spec.executeSelectionSet] at hs
      cases hcs : Spec.collectFields S D o fuel sels [] with
      | none => simp [hcs] at hs
      | some gv =>
        obtain ⟨g, vis⟩ := gv
        simp only [hcs] at hs
        obtain ⟨L, hm, hcond⟩ := inv_condSelR S D o sels hinv
        have hgf := spec_collect_groupsFromR S D o L hfrags fuel sels [] (g, vis) hcond hcs
        cases hrs : g.mapM (Spec.executeEntry o v path (Spec.completeValue S D fuel)) with
        | none => simp [hrs] at hs
        | some rs =>
          simp only [hrs, Option.map_some, Option.some.injEq] at hs
          subst hs
          apply combineFields_undef
          intro entry hentry
          obtain ⟨p, hp, hpe⟩ := option_mapM_mem _ _ _ hrs entry hentry
          have hgroup := hgf p hp
          obtain ⟨key, fields⟩ := p
          cases fields with
          | nil => simp [Spec.executeEntry] at hpe
          | cons f0 tl =>
            simp only [Spec.executeEntry] at hpe
            by_cases htn : f0.name = "__typename"
            · simp only [htn, if_true, Option.some.injEq] at hpe
              exact ⟨key, _, hpe.symm, rfl⟩
            · simp only [htn, if_false] at hpe
              -- the field is defined on the object type
              obtain ⟨⟨scope0, sel0, hsub0, htyped0, _, hnode0⟩, _⟩ := hgroup f0 (List.mem_cons_self ..)
              obtain ⟨fd0, hfd0, _⟩ := typedSel_field S scope0 sel0 f0 hnode0 htyped0 htn
              obtain ⟨fd', hget, _⟩ := fieldOn_runtime S hwf o ho scope0 f0.name fd0 hsub0 hfd0
              have hfind : o.fields.find? (fun (fd : FieldDef) => decide (fd.name = f0.name)) = some fd' := by
                rw [← getField_eq]; exact hget
              simp only [hfind] at hpe
              have hsub : SubsUndefFreeBelow S D (fuel + 1) fd'.type.base (f0 :: tl) := by
                intro o' ho' fuel' hlt v' path' s' hs'
                obtain ⟨hnd, _⟩ := wfCheck_spec S hwf
                exact ih fuel' hlt o' _ v' path' s'
                  (inv_nextR S D hwf o ho L hm key (f0 :: tl) hgroup f0 (List.mem_cons_self ..) htn fd' hget o' ho')
                  (runtimeObjects_spec S hnd _ o' ho').1 hs'
              cases hae : f0.argErr with
              | some ae =>
                simp only [hae, Option.map_some, Option.some.injEq] at hpe
                exact ⟨key, _, hpe.symm, by rw [atPosition_undef]; rfl⟩
              | none =>
                simp only [hae] at hpe
                cases hres : resolve v f0.wkey with
                | err m =>
                  simp only [hres, Option.map_some, Option.some.injEq] at hpe
                  exact ⟨key, _, hpe.symm, by rw [atPosition_undef]; rfl⟩
                | val rv =>
                  simp only [hres] at hpe
                  cases hcv : Spec.completeValue S D fuel fd'.type (f0 :: tl) f0 rv (path ++ [PathSeg.key key]) with
                  | none => simp [hcv] at hpe
                  | some r0 =>
                    simp only [hcv, Option.map_some, Option.some.injEq] at hpe
                    refine ⟨key, _, hpe.symm, ?_⟩
                    rw [atPosition_undef]
                    exact completeValue_undef_below S D (fuel + 1) (f0 :: tl) f0 fuel (by omega) fd'.type rv _ r0 hsub hcv

/-- **relational_undef_free** — a typed document over a well-formed schema whose operations' selection sets do
    not conflict with themselves (`MergeRel`, fuel-free) never makes the reference meet an undefined field. -/
theorem relational_undef_free (S : Schema) (D : Document) (htyped : D.typed S = true) (hwf : S.wfCheck = true)
    (hmerge : D.MergeRel S)
    (fuel : Nat) (opName : String) (root : RVal) (s : Spec.SOut)
    (hs : Spec.executeRequest S D fuel opName root = .executed s) : s.undef = false := by
  obtain ⟨hfrags, hops⟩ := typed_spec D S htyped
  unfold Spec.executeRequest at hs
  cases hgo : Spec.getOperation D opName with
  | none => simp [hgo] at hs
  | some op =>
    simp only [hgo, rootType_eq] at hs
    have hop := spec_getOperation_mem D opName op hgo
    cases hk : rootTypeName S op.kind with
    | none => simp [hk] at hs
    | some r =>
      simp only [hk, Option.bind_some] at hs
      cases hroot : S.object? r with
      | none => simp [hroot] at hs
      | some o =>
        simp only [hroot] at hs
        cases hss : Spec.executeSelectionSet S D fuel o op.sels root [] with
        | none => simp [hss] at hs
        | some s' =>
          simp only [hss, Spec.Result.executed.injEq] at hs
          subst hs
          obtain ⟨hlo, hname⟩ := object?_unfold S r o hroot
          have ho : S.object? o.name = some o := object?_name S r o hroot
          have hsub : fragmentApplies S o r = .yes := by simp [fragmentApplies, hlo, hname]
          have hmp := mergePropR_of_not_bad S D (r, op.sels) (r, op.sels) (hmerge op hop r hk)
          refine inv_undef_freeR S D hwf hfrags fuel o op.sels root [] s' ?_ ho hss
          refine ⟨[(r, op.sels)], _, by simp, ?_, hmp⟩
          intro p hp
          simp only [List.mem_singleton] at hp
          subst hp
          exact ⟨hsub, hops op hop r hk, fun x hx => Or.inl hx⟩

end ApiFu.C01
