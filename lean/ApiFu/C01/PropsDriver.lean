/-
  C01 — property theorems, part 3: the driver's answer equals the *fuel-free* reference.

  `Spec.executeRequest` takes a fuel (the reference is a total Lean function). The fuel-free reference is
  the relation `Spec.Answers S D opName root r`: some run of the reference, with whatever fuel, is not
  stuck and returns `r`. It is a partial function (`spec_answer_unique`, by fuel monotonicity of the
  reference, SpecMono.lean), defined for every (schema, document) passing the decidable tests
  (`spec_answers_exists`). The fuel the driver computes (`fuelFor2 S D`, used whenever the request says
  `auto`, which is what the harness always sends) dominates the bound that the fuel-sufficiency theorems
  need (`driver_fuel_dominates`), so the driver's answer is the reference's answer, no fuel anywhere in
  the statement (`driver_equals_spec`), and the reply line the compiled driver prints is determined by it
  (`handle_equals_spec`, about `Driver.handle` of Main.lean itself).
-/
import ApiFu.C01.PropsTyping
import ApiFu.C01.SpecMono
import ApiFu.C01.Main

namespace ApiFu.C01

/-- **The fuel-free reference.** The June-2018 algorithm answers `r` for (schema, document, operation name,
    world): a run of the executable reference with some fuel is not stuck and returns `r`. -/
def Spec.Answers (S : Schema) (D : Document) (opName : String) (root : RVal) (r : Spec.Result) : Prop :=
  r ≠ .stuck ∧ ∃ fuel, Spec.executeRequest S D fuel opName root = r

/-- What "the response is the reference's answer" means: for a refused request `data: null` and one
    path-less error; for an executed request equal data (plain equality), errors between the required and
    the possible ones (multisets of full errors), every required error exactly once. -/
def Agrees (resp : Response) : Spec.Result → Prop
  | .requestError => resp.data = none ∧ ∃ e, resp.errors = [e] ∧ e.path = []
  | .executed s => resp.data = s.data ∧ s.req ⊆ₘ resp.errors ∧ resp.errors ⊆ₘ s.all ∧
      ∀ e ∈ s.req, resp.errors.count e = 1
  | .stuck => False

/-- **spec_answer_unique** — the fuel-free reference is a partial function: two answers are equal
    (every schema, document, world; no hypothesis). -/
theorem spec_answer_unique (S : Schema) (D : Document) (opName : String) (root : RVal) (r r' : Spec.Result)
    (h : Spec.Answers S D opName root r) (h' : Spec.Answers S D opName root r') : r = r' := by
  obtain ⟨hr, f, hf⟩ := h
  obtain ⟨hr', f', hf'⟩ := h'
  rw [← hf, ← hf']
  exact spec_fuel_irrelevant S D f f' opName root (by rw [hf]; exact hr) (by rw [hf']; exact hr')

/-- **spec_fuel_monotone** — a reference run that answers keeps its answer with more fuel. -/
theorem spec_fuel_monotone (S : Schema) (D : Document) (fuel k : Nat) (opName : String) (root : RVal)
    (r : Spec.Result) (hr : r ≠ .stuck) (h : Spec.executeRequest S D fuel opName root = r) :
    Spec.executeRequest S D (fuel + k) opName root = r :=
  spec_executeRequest_mono S D fuel k opName root r hr h

/-- **driver_fuel_dominates** — for a document without spread cycles there is a descent certificate (every
    step into sub-selections, and from a spread into its fragment, lowers it) of some height `L` on the
    document's nodes, and the fuel the driver computes is at least the bound `needSel W L = L·(W+3)+3` that
    `exec_fuel_sufficient` / `exec_correct_total` ask for. Every schema, every document. -/
theorem driver_fuel_dominates (S : Schema) (D : Document) (hcycle : D.noSpreadCycle = true) :
    ∃ (lvl : Selection → Nat) (L : Nat), Descends D (· ∈ D.nodes) lvl ∧ (∀ s ∈ D.nodes, lvl s < L) ∧
      needSel S.maxWrappers L ≤ fuelFor2 S D :=
  ⟨D.lvl, D.Lbound, descends_of_noSpreadCycle D hcycle, lvl_lt_Lbound D hcycle, Nat.le_refl _⟩

/-- the six decidable tests of `exec_correct_total_driver` as one proposition -/
structure DriverHyp (S : Schema) (D : Document) : Prop where
  pos : (D.nodes.map Selection.pos).Nodup
  keys : ∀ s ∈ D.nodes, s.keyOK
  closed : S.closedCheck = true
  conds : D.condsCheck S = true
  acyclic : D.noSpreadCycle = true
  typed : D.typeCheck S = true

/-- **spec_answers_exists** — under the six tests the fuel-free reference is defined: it executes or refuses. -/
theorem spec_answers_exists (S : Schema) (D : Document) (h : DriverHyp S D) (opName : String) (root : RVal) :
    ∃ r, Spec.Answers S D opName root r := by
  obtain ⟨resp, _, hr⟩ := exec_correct_total_driver S D h.pos h.keys h.closed h.conds h.acyclic h.typed opName root
  rcases hr with ⟨hs, _⟩ | ⟨s, hs, _⟩
  · exact ⟨.requestError, by simp, _, hs⟩
  · exact ⟨.executed s, by simp, _, hs⟩

/-- **driver_equals_spec** — end to end, no fuel in the statement: for every schema and document passing the
    six decidable tests, every operation name and world, the executor model run with the fuel the driver
    computes returns a response, the fuel-free reference has an answer, and the response agrees with
    *the* answer of the reference (`Agrees`: plain data equality, error sandwich, every required error exactly
    once; or the one path-less request error). -/
theorem driver_equals_spec (S : Schema) (D : Document) (h : DriverHyp S D) (opName : String) (root : RVal) :
    ∃ resp r, execute true S D (fuelFor2 S D) opName root = .ok resp ∧ Spec.Answers S D opName root r ∧
      Agrees resp r ∧ ∀ r', Spec.Answers S D opName root r' → r' = r := by
  obtain ⟨resp, hm, hr⟩ := exec_correct_total_driver S D h.pos h.keys h.closed h.conds h.acyclic h.typed opName root
  rcases hr with ⟨hs, hd, he⟩ | ⟨s, hs, hd, h1, h2, h3⟩
  · have ha : Spec.Answers S D opName root .requestError := ⟨by simp, _, hs⟩
    exact ⟨resp, .requestError, hm, ha, ⟨hd, he⟩, fun r' hr' => spec_answer_unique S D opName root r' _ hr' ha⟩
  · have ha : Spec.Answers S D opName root (.executed s) := ⟨by simp, _, hs⟩
    exact ⟨resp, .executed s, hm, ha, ⟨hd, h1, h2, h3⟩, fun r' hr' => spec_answer_unique S D opName root r' _ hr' ha⟩

/-- the same for *any* fuel at least the driver's (a numeric fuel in the request line) -/
theorem driver_equals_spec_more_fuel (S : Schema) (D : Document) (h : DriverHyp S D) (opName : String) (root : RVal)
    (k : Nat) :
    ∃ resp r, execute true S D (fuelFor2 S D + k) opName root = .ok resp ∧ Spec.Answers S D opName root r ∧
      Agrees resp r ∧ ∀ r', Spec.Answers S D opName root r' → r' = r := by
  obtain ⟨resp, r, hm, ha, hag, hu⟩ := driver_equals_spec S D h opName root
  exact ⟨resp, r, exec_fuel_monotone true S D _ k opName root resp hm, ha, hag, hu⟩

/-! ### the driver function of Main.lean itself -/

theorem driverHyp_of_test (S : Schema) (D : Document) (h : Driver.driverHypotheses S D = true) : DriverHyp S D := by
  unfold Driver.driverHypotheses at h
  simp only [Bool.and_eq_true, decide_eq_true_eq, List.all_eq_true] at h
  obtain ⟨⟨⟨⟨⟨⟨⟨⟨⟨h1, h2⟩, h3⟩, h4⟩, h5⟩, h6⟩, _⟩, _⟩, _⟩, _⟩ := h
  exact ⟨h1, h2, h3, h4, h5, h6⟩

/-- **handle_equals_spec** — about `Driver.handle`, the function the compiled driver `c01model` maps over its
    input lines: whenever a request line parses to a case (schema `S`, document `D`, world `W`, operation
    name) whose fuel field is not a number (the harness always sends `auto`) and the driver's own test of
    the hypotheses succeeds (the `hyp true` the harness requires for every validated document), the reply
    line is `(ok (model <resp>) <spec r> (hyp true))` where `r` is the unique answer of the fuel-free
    reference and `resp` agrees with it. No fuel hypothesis. -/
theorem handle_equals_spec (line opName : String) (s d w fuel : Sexp) (S : Schema) (D : Document) (W : RVal)
    (hparse : Sexp.parse line = some (.list [.atom "case", s, d, w, .atom opName, fuel]))
    (hS : Driver.schema? s = some S) (hD : Driver.doc? d = some D) (hW : Driver.world? w = some W)
    (hauto : fuel.nat? = none) (hhyp : Driver.driverHypotheses S D = true) :
    ∃ resp r, Spec.Answers S D opName W r ∧ (∀ r', Spec.Answers S D opName W r' → r' = r) ∧ Agrees resp r ∧
      Driver.handle line = toString (Sexp.node "ok" [Sexp.node "model" [Driver.optData resp.data,
        Sexp.node "errs" (resp.errors.map Driver.errSexp)], Driver.specSexp r, Sexp.node "hyp" [Sexp.ofBool true]]) := by
  have hyp := driverHyp_of_test S D hhyp
  obtain ⟨resp, hm, hr⟩ := exec_correct_total_driver S D hyp.pos hyp.keys hyp.closed hyp.conds hyp.acyclic hyp.typed opName W
  have key : ∀ r, Spec.executeRequest S D (fuelFor2 S D) opName W = r → r ≠ .stuck → Agrees resp r →
      ∃ resp r, Spec.Answers S D opName W r ∧ (∀ r', Spec.Answers S D opName W r' → r' = r) ∧ Agrees resp r ∧
      Driver.handle line = toString (Sexp.node "ok" [Sexp.node "model" [Driver.optData resp.data,
        Sexp.node "errs" (resp.errors.map Driver.errSexp)], Driver.specSexp r, Sexp.node "hyp" [Sexp.ofBool true]]) := by
    intro r hs hne hag
    have ha : Spec.Answers S D opName W r := ⟨hne, _, hs⟩
    refine ⟨resp, r, ha, fun r' hr' => spec_answer_unique S D opName W r' _ hr' ha, hag, ?_⟩
    simp only [Driver.handle, hparse, hS, hD, hW, hauto, hm, hs, hhyp]
  rcases hr with ⟨hs, hd, he⟩ | ⟨s0, hs, hd, h1, h2, h3⟩
  · exact key _ hs (by simp) ⟨hd, he⟩
  · exact key _ hs (by simp) ⟨hd, h1, h2, h3⟩

/-! ## Non-vacuity -/

namespace Example

example : DriverHyp S D := ⟨by decide, by decide, by decide, by decide, by decide, by decide⟩

-- (`(Sexp.atom "auto").nat? = none` is `String.toNat? "auto" = none`; core's string functions do not reduce in
-- the kernel, so this instance of hypothesis `hauto` is evaluated by `#eval` below, not proved.)
/-- info: true -/
#guard_msgs in #eval (Sexp.atom "auto").nat?.isNone

/-- the fuel-free reference answers the example with the failing world: `p` null under non-null `g`,
    the error of the null item is required -/
example : Spec.Answers S D "" W
    (.executed { data := some (.obj [("g", .obj [("p", .null)])]), all := [nullErr], req := [nullErr], undef := false }) :=
  ⟨by simp, fuelFor S D, rfl⟩

/-- `driver_equals_spec` instantiated -/
example (root : RVal) : ∃ resp r, execute true S D (fuelFor2 S D) "" root = .ok resp ∧ Spec.Answers S D "" root r ∧
    Agrees resp r ∧ ∀ r', Spec.Answers S D "" root r' → r' = r :=
  driver_equals_spec S D ⟨by decide, by decide, by decide, by decide, by decide, by decide⟩ "" root

end Example

end ApiFu.C01
