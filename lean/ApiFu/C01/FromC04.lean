/-
  C01 ← C04: what the executor is given when the validator (C04) has accepted the document.

  `ApiFu.C04.Spec.valid S4 D4` is C04's rendering of the June-2018 validation rules (26 decidable rules over
  the real AST and the description of the schema as one request sees it; C04 proves that its model of
  `ValidateDocument` accepts exactly those documents). This file translates a C04 document into the
  document the executor model runs (`toDoc`: same selection tree, names, aliases, type conditions,
  fragment definitions, positions; the per-node results of input coercion — world key, argument-coercion
  error, the boolean of `@skip/@include` — are parameters `Ann`, owned by C05), relates the two schema
  descriptions (`SchemaRel`: same named types with the same kinds, fields, interfaces, members, roots; no
  `__schema/__type` meta fields — the executor model does not cover introspection), and proves that the
  decidable hypotheses of C01's capstone theorems follow from `Spec.valid`:

    * `typed_of_valid`        fieldsDefined + leafSelections + fragmentTypesExist + fragmentsOnComposite
                              + opTypeSupported  ⇒  `Document.typed` (FieldsOnCorrectType in every scope);
    * `condsCheck_of_valid`   fragmentTypesExist + fragmentsOnComposite ⇒ `Document.condsCheck`.
  (FromC04Cycles.lean: noFragmentCycles + fragmentNamesUnique ⇒ `Document.noSpreadCycle`.)
  Imports C04 read-only.
-/
import ApiFu.C01.Syntactic
import ApiFu.C04.Spec

namespace ApiFu.C01

/-- What the executor takes from input coercion for a node (C05's subject; arbitrary here): the world key and
    the argument-coercion error of a field (by the field's position), the filter a directive coerces to. -/
structure Ann where
  wkey : C04.Pos → String
  argErr : C04.Pos → Option ArgErr
  dir : C04.Directive → Dir

def posOf (p : C04.Pos) : Pos := ⟨p.line, p.col⟩

def trefOf : C04.TRef → TypeRef
  | .named n => .named n
  | .list t => .list (trefOf t)
  | .nonNull t => .nonNull (trefOf t)

theorem trefOf_base (t : C04.TRef) : (trefOf t).base = t.base := by
  induction t with
  | named n => rfl
  | list t ih => simpa [trefOf, TypeRef.base, C04.TRef.base] using ih
  | nonNull t ih => simpa [trefOf, TypeRef.base, C04.TRef.base] using ih

def fieldOf (f : C04.FieldDef) : FieldDef := { name := f.name, type := trefOf f.type }

def kindOfOp : C04.OpKind → OpKind
  | .query => .query
  | .mutation => .mutation
  | .subscription => .subscription

mutual
  /-- a selection of the real AST as the executor model sees it -/
  def toSel (a : Ann) : C04.Selection → Selection
    | .field al n np _ dirs sel =>
      .field (posOf (C04.fieldPos al np)) (al.map (·.1)) n (a.wkey (C04.fieldPos al np)) (a.argErr (C04.fieldPos al np))
        (dirs.map a.dir)
        (match sel with
         | none => []
         | some ss => toSet a ss)
    | .spread n _ dirs p => .spread (posOf p) n (dirs.map a.dir)
    | .inline tc dirs ss p => .inline (posOf p) (tc.map (·.1)) (dirs.map a.dir) (toSet a ss)
  def toSet (a : Ann) : C04.SelSet → List Selection
    | .mk sels _ => toSels a sels
  def toSels (a : Ann) : List C04.Selection → List Selection
    | [] => []
    | s :: rest => toSel a s :: toSels a rest
end

def toOp? (a : Ann) : C04.Definition → Option Op
  | .op kind name _ _ sel =>
    some { kind := kindOfOp (C04.opKindOf kind), name := name.map (·.1), pos := posOf (C04.opPos kind sel), sels := toSet a sel }
  | .frag .. => none

def toFrag? (a : Ann) : C04.Definition → Option Frag
  | .frag n _ tc _ _ sel _ => some { name := n, tc := tc, sels := toSet a sel }
  | .op .. => none

/-- **toDoc** — the document the executor runs, from the validated AST. -/
def toDoc (a : Ann) (D4 : C04.Document) : Document :=
  { ops := D4.filterMap (toOp? a), frags := D4.filterMap (toFrag? a) }

/-! ## The two schema descriptions -/

/-- a named type of C04's description and the same name in C01's: same kind; objects and interfaces have the
    same fields (name, type) in the same order, the same interfaces / members. Input object types do not
    exist for the executor. Scalars and enums: C01 additionally knows the coercion kind / the Go values. -/
inductive KindRel : Option C04.TypeKind → Option TypeDef → Prop
  | object (fs : List C04.FieldDef) (is : List String) : KindRel (some (.object fs is)) (some (.object (fs.map fieldOf) is))
  | interface (fs : List C04.FieldDef) : KindRel (some (.interface fs)) (some (.interface (fs.map fieldOf)))
  | union (ms : List String) : KindRel (some (.union ms)) (some (.union ms))
  | scalar (sp : C04.ScalarSpec) (k : ScalarKind) : KindRel (some (.scalar sp)) (some (.scalar k))
  | enum (vs : List String) (vals : List (String × GoVal)) : KindRel (some (.enum vs)) (some (.enum vals))
  | input (defs : List C04.InputDef) : KindRel (some (.input defs)) none
  /-- the executor's description may omit leaf types it never completes a value of -/
  | scalarAbsent (sp : C04.ScalarSpec) : KindRel (some (.scalar sp)) none
  | enumAbsent (vs : List String) : KindRel (some (.enum vs)) none
  | none : KindRel none none

/-- **SchemaRel** — `S4` (what the validator sees) and `S` (what the executor sees) describe one schema. The
    last two fields are facts about schemas `schema.New` accepts and requests without introspection:
    every root type is an object type; `__schema` / `__type` are not offered. -/
structure SchemaRel (S4 : C04.Schema) (S : Schema) : Prop where
  types : ∀ n, KindRel (C04.Spec.kindOf S4 n) (S.lookup n)
  query : S.query = S4.query
  mutation : S.mutation = S4.mutation
  subscription : S.subscription = S4.subscription
  roots : ∀ k r, S4.root k = some r → C04.Spec.isObject S4 r = true
  noMeta : S4.metaFields = []

theorem SchemaRel.root_eq {S4 : C04.Schema} {S : Schema} (h : SchemaRel S4 S) (k : C04.OpKind) :
    ApiFu.C01.rootTypeName S (kindOfOp k) = S4.root k := by
  cases k <;> simp [ApiFu.C01.rootTypeName, kindOfOp, C04.Schema.root, h.query, h.mutation, h.subscription]

theorem find?_map_fieldOf (fs : List C04.FieldDef) (n : String) :
    (fs.map fieldOf).find? (fun f => f.name == n) = (C04.findField fs n).map fieldOf := by
  unfold C04.findField
  induction fs with
  | nil => rfl
  | cons f rest ih =>
    simp only [List.map_cons, List.find?_cons]
    by_cases hn : f.name = n
    · simp [fieldOf, hn]
    · have : (f.name == n) = false := by simpa using hn
      simp only [fieldOf, this, hn, decide_false]
      exact ih

/-- a field the validator finds on a composite type (other than `__typename`) is the field the executor's
    typing judgement finds -/
theorem fieldOn_of_fieldDef {S4 : C04.Schema} {S : Schema} (h : SchemaRel S4 S) (p n : String) (d : C04.FieldDef)
    (hn : n ≠ "__typename") (hd : C04.Spec.fieldDef? S4 p n = some d) : S.fieldOn p n = some (fieldOf d) := by
  have hk := h.types p
  unfold C04.Spec.fieldDef? at hd
  unfold Schema.fieldOn Schema.fieldsOf
  cases hk4 : C04.Spec.kindOf S4 p with
  | none => simp [hk4] at hd
  | some k =>
    rw [hk4] at hk
    generalize hl : S.lookup p = l at hk
    cases k with
    | object fs is =>
      cases hk
      simp only [hk4, hn, if_false] at hd
      simp only [find?_map_fieldOf]
      cases hf : C04.findField fs n with
      | some d' => simp only [hf, Option.some.injEq] at hd; subst hd; rfl
      | none =>
        simp only [hf, h.noMeta] at hd
        split at hd <;> simp [C04.findField] at hd
    | interface fs =>
      cases hk
      simp only [hk4, hn, if_false] at hd
      simp only [find?_map_fieldOf, hd, Option.map_some]
    | union ms => simp [hk4, hn] at hd
    | scalar sp => simp [hk4] at hd
    | enum vs => simp [hk4] at hd
    | input defs => simp [hk4] at hd

/-! ## FieldsOnCorrectType -/

/-- the four per-occurrence rules the typing judgement needs -/
def occOK (S4 : C04.Schema) (o : C04.Spec.Occ) : Bool :=
  C04.Spec.fieldDefinedAt S4 o && C04.Spec.leafOkAt S4 o && C04.Spec.condExistsAt S4 o && C04.Spec.condCompositeAt S4 o

theorem condScope_composite (S4 : C04.Schema) (t : String) (pos : C04.Pos) (parent : Option String)
    (dirs : List C04.Directive) (p : C04.Pos)
    (h : occOK S4 (.inline parent (some (t, pos)) dirs p) = true) :
    C04.Spec.condScope S4 t = some t ∧ C04.Spec.isComposite S4 t = true := by
  simp only [occOK, C04.Spec.fieldDefinedAt, C04.Spec.leafOkAt, C04.Spec.condExistsAt, C04.Spec.condCompositeAt,
    Bool.and_eq_true, Bool.true_and, Bool.or_eq_true] at h
  obtain ⟨h1, h2⟩ := h
  refine ⟨by simp [C04.Spec.condScope, h1], ?_⟩
  rcases h2 with h2 | h2
  · cases hf : S4.find t <;> simp [hf] at h1 h2
  · exact h2

/-! ### induction over the real AST's selections (by size; the AST is a nested mutual inductive type) -/

theorem sizeSel_pos (s : C04.Selection) : 1 ≤ C04.Spec.sizeSel s := by
  cases s with
  | field al n np args dirs sel => cases sel <;> simp [C04.Spec.sizeSel]
  | spread n np dirs p => simp [C04.Spec.sizeSel]
  | inline tc dirs ss p => simp [C04.Spec.sizeSel]

theorem c04_sel_induction (P : C04.Selection → Prop) (Q : C04.SelSet → Prop) (R : List C04.Selection → Prop)
    (hfield0 : ∀ al n np args dirs, P (.field al n np args dirs none))
    (hfield : ∀ al n np args dirs ss, Q ss → P (.field al n np args dirs (some ss)))
    (hspread : ∀ n np dirs p, P (.spread n np dirs p))
    (hinline : ∀ tc dirs ss p, Q ss → P (.inline tc dirs ss p))
    (hset : ∀ sels p, R sels → Q (.mk sels p))
    (hnil : R [])
    (hcons : ∀ s rest, P s → R rest → R (s :: rest)) :
    (∀ s, P s) ∧ (∀ ss, Q ss) ∧ (∀ sels, R sels) := by
  have main : ∀ n, (∀ s, C04.Spec.sizeSel s ≤ n → P s) ∧ (∀ ss, C04.Spec.sizeSet ss ≤ n → Q ss) ∧
      (∀ sels, C04.Spec.sizeSels sels ≤ n → R sels) := by
    intro n
    induction n with
    | zero =>
      refine ⟨?_, ?_, ?_⟩
      · intro s hs; have := sizeSel_pos s; omega
      · intro ss hs; cases ss; simp [C04.Spec.sizeSet] at hs
      · intro sels hs
        cases sels with
        | nil => exact hnil
        | cons s rest => simp only [C04.Spec.sizeSels] at hs; have := sizeSel_pos s; omega
    | succ n ih =>
      obtain ⟨ihP, ihQ, ihR⟩ := ih
      refine ⟨?_, ?_, ?_⟩
      · intro s hs
        cases s with
        | field al n' np args dirs sel =>
          cases sel with
          | none => exact hfield0 ..
          | some ss => exact hfield _ _ _ _ _ ss (ihQ ss (by simp only [C04.Spec.sizeSel] at hs; omega))
        | spread n' np dirs p => exact hspread ..
        | inline tc dirs ss p => exact hinline _ _ ss _ (ihQ ss (by simp only [C04.Spec.sizeSel] at hs; omega))
      · intro ss hs
        cases ss with
        | mk sels p => exact hset sels p (ihR sels (by simp only [C04.Spec.sizeSet] at hs; omega))
      · intro sels
        induction sels with
        | nil => intro _; exact hnil
        | cons s rest ihl =>
          intro hs
          simp only [C04.Spec.sizeSels] at hs
          have h1 := sizeSel_pos s
          refine hcons s rest ?_ (ihl (by omega))
          -- `s` itself: its children are smaller than `n + 1`
          cases s with
          | field al n' np args dirs sel =>
            cases sel with
            | none => exact hfield0 ..
            | some ss => exact hfield _ _ _ _ _ ss (ihQ ss (by simp only [C04.Spec.sizeSel] at hs; omega))
          | spread n' np dirs p => exact hspread ..
          | inline tc dirs ss p => exact hinline _ _ ss _ (ihQ ss (by simp only [C04.Spec.sizeSel] at hs; omega))
  exact ⟨fun s => (main _).1 s (Nat.le_refl _), fun ss => (main _).2.1 ss (Nat.le_refl _),
    fun sels => (main _).2.2 sels (Nat.le_refl _)⟩

/-- FieldsOnCorrectType for a selection list in a composite scope, from the per-occurrence rules -/
theorem typed_of_occs {S4 : C04.Schema} {S : Schema} (hrel : SchemaRel S4 S) (a : Ann) :
    (∀ s : C04.Selection, ∀ p, C04.Spec.isComposite S4 p = true →
      (∀ o ∈ C04.Spec.occSel S4 (some p) s, occOK S4 o = true) → typedSel S p (toSel a s) = true) ∧
    (∀ ss : C04.SelSet, ∀ p, C04.Spec.isComposite S4 p = true →
      (∀ o ∈ C04.Spec.occSet S4 (some p) ss, occOK S4 o = true) → typedList S p (toSet a ss) = true) ∧
    (∀ sels : List C04.Selection, ∀ p, C04.Spec.isComposite S4 p = true →
      (∀ o ∈ C04.Spec.occSels S4 (some p) sels, occOK S4 o = true) → typedList S p (toSels a sels) = true) := by
  have fieldCase : ∀ al n np args dirs (sel : Option C04.SelSet),
      (∀ ss, sel = some ss → ∀ p, C04.Spec.isComposite S4 p = true →
        (∀ o ∈ C04.Spec.occSet S4 (some p) ss, occOK S4 o = true) → typedList S p (toSet a ss) = true) →
      ∀ p, C04.Spec.isComposite S4 p = true →
      (∀ o ∈ C04.Spec.occSel S4 (some p) (.field al n np args dirs sel), occOK S4 o = true) →
      typedSel S p (toSel a (.field al n np args dirs sel)) = true := by
    intro al n np args dirs sel ih p hp h
    cases sel with
    | none =>
      have h0 := h (.field (some p) al n np args dirs none) (by simp [C04.Spec.occSel])
      simp only [occOK, C04.Spec.fieldDefinedAt, C04.Spec.leafOkAt, C04.Spec.condExistsAt, C04.Spec.condCompositeAt,
        Bool.and_eq_true, Bool.and_true, hp, Bool.not_true, Bool.false_or] at h0
      obtain ⟨hdef, _⟩ := h0
      by_cases hn : n = "__typename"
      · simp [toSel, typedSel, hn]
      · cases hd : C04.Spec.fieldDef? S4 p n with
        | none => simp [hd] at hdef
        | some d => simp [toSel, typedSel, fieldOn_of_fieldDef hrel p n d hn hd, typedList]
    | some ss =>
      have h0 := h (.field (some p) al n np args dirs (some ss)) (by simp [C04.Spec.occSel])
      simp only [occOK, C04.Spec.fieldDefinedAt, C04.Spec.leafOkAt, C04.Spec.condExistsAt, C04.Spec.condCompositeAt,
        Bool.and_eq_true, Bool.and_true, hp, Bool.not_true, Bool.false_or] at h0
      obtain ⟨hdef, hleaf⟩ := h0
      by_cases hn : n = "__typename"
      · simp [toSel, typedSel, hn]
      · cases hd : C04.Spec.fieldDef? S4 p n with
        | none => simp [hd] at hdef
        | some d =>
          have hfo := fieldOn_of_fieldDef hrel p n d hn hd
          simp only [hd] at hleaf
          have hc : C04.Spec.isComposite S4 d.type.base = true := by
            by_cases hc : C04.Spec.isComposite S4 d.type.base = true
            · exact hc
            · simp [hc] at hleaf
          have hsc : C04.Spec.fieldScope S4 (some p) n = some d.type.base := by
            simp [C04.Spec.fieldScope, hd]
          have := ih ss rfl d.type.base hc (fun o ho => h o (by
            simp only [C04.Spec.occSel, List.mem_cons, hsc]
            exact Or.inr ho))
          simp [toSel, typedSel, hfo, fieldOf, trefOf_base, this]
  apply c04_sel_induction
  · intro al n np args dirs
    exact fieldCase al n np args dirs none (fun ss hss => by cases hss)
  · intro al n np args dirs ss ih
    exact fieldCase al n np args dirs (some ss) (fun ss' hss => by cases hss; exact ih)
  · intro n np dirs pos p _ _; simp [toSel, typedSel]
  · intro tc dirs ss pos ih p hp h
    simp only [toSel, typedSel]
    cases tc with
    | none =>
      exact ih p hp (fun o ho => h o (by
        simp only [C04.Spec.occSel, List.mem_cons, C04.Spec.inlineScope]
        exact Or.inr ho))
    | some tp =>
      obtain ⟨t, tpos⟩ := tp
      have h0 := h (.inline (some p) (some (t, tpos)) dirs pos) (by simp [C04.Spec.occSel])
      obtain ⟨hs, hc⟩ := condScope_composite S4 t tpos _ dirs pos h0
      exact ih t hc (fun o ho => h o (by
        simp only [C04.Spec.occSel, List.mem_cons, C04.Spec.inlineScope, hs]
        exact Or.inr ho))
  · intro sels pos ih p hp h
    exact ih p hp (by simpa [C04.Spec.occSet] using h)
  · intro p _ _; simp [toSels, typedList]
  · intro s rest ihs ihr p hp h
    simp only [toSels, typedList, Bool.and_eq_true]
    exact ⟨ihs p hp (fun o ho => h o (by simp [C04.Spec.occSels, ho])),
      ihr p hp (fun o ho => h o (by simp [C04.Spec.occSels, ho]))⟩

/-! ## From `Spec.valid` -/

/-- the rules of C04's judgement that execution relies on -/
structure ValidFacts (S4 : C04.Schema) (D4 : C04.Document) : Prop where
  opTypeSupported : C04.Spec.opTypeSupported S4 D4 = true
  fieldsDefined : C04.Spec.fieldsDefined S4 D4 = true
  leafSelections : C04.Spec.leafSelections S4 D4 = true
  fieldsMerge : C04.Spec.fieldsMerge S4 D4 = true
  fragmentNamesUnique : C04.Spec.fragmentNamesUnique D4 = true
  fragmentTypesExist : C04.Spec.fragmentTypesExist S4 D4 = true
  fragmentsOnComposite : C04.Spec.fragmentsOnComposite S4 D4 = true
  spreadsDefined : C04.Spec.spreadsDefined S4 D4 = true
  noFragmentCycles : C04.Spec.noFragmentCycles D4 = true

theorem validFacts_of_valid (S4 : C04.Schema) (D4 : C04.Document) (h : C04.Spec.valid S4 D4 = true) :
    ValidFacts S4 D4 := by
  simp only [C04.Spec.valid, C04.Spec.rules, List.all_cons, List.all_nil, Bool.and_eq_true, Bool.and_true] at h
  obtain ⟨_, _, h3, _, h5, h6, h7, _, _, _, h11, h12, h13, _, h15, h16, _⟩ := h
  exact ⟨h3, h5, h6, h7, h11, h12, h13, h15, h16⟩

theorem occOK_of_valid {S4 : C04.Schema} {D4 : C04.Document} (h : ValidFacts S4 D4) :
    ∀ o ∈ C04.Spec.selOccs S4 D4, occOK S4 o = true := by
  intro o ho
  have h1 := h.fieldsDefined
  have h2 := h.leafSelections
  have h3 := h.fragmentTypesExist
  have h4 := h.fragmentsOnComposite
  simp only [C04.Spec.fieldsDefined, C04.Spec.leafSelections, C04.Spec.fragmentTypesExist, C04.Spec.fragmentsOnComposite,
    Bool.and_eq_true, List.all_eq_true] at h1 h2 h3 h4
  simp only [occOK, Bool.and_eq_true]
  exact ⟨⟨⟨h1 o ho, h2 o ho⟩, h3.2 o ho⟩, h4.2 o ho⟩

theorem isComposite_of_isObject (S4 : C04.Schema) (r : String) (h : C04.Spec.isObject S4 r = true) :
    C04.Spec.isComposite S4 r = true := by
  unfold C04.Spec.isObject at h
  unfold C04.Spec.isComposite
  cases hk : C04.Spec.kindOf S4 r with
  | none => simp [hk] at h
  | some k => cases k <;> simp [hk, C04.TypeKind.isObject, C04.TypeKind.isComposite] at h ⊢

/-- the type condition of a fragment definition of a valid document: exists and is composite -/
theorem fragCond_composite {S4 : C04.Schema} {D4 : C04.Document} (h : ValidFacts S4 D4)
    (n : String) (np : C04.Pos) (tc : String) (tcp : C04.Pos) (dirs : List C04.Directive) (sel : C04.SelSet) (pos : C04.Pos)
    (hd : C04.Definition.frag n np tc tcp dirs sel pos ∈ D4) :
    C04.Spec.condScope S4 tc = some tc ∧ C04.Spec.isComposite S4 tc = true := by
  have h3 := h.fragmentTypesExist
  have h4 := h.fragmentsOnComposite
  simp only [C04.Spec.fragmentTypesExist, C04.Spec.fragmentsOnComposite, Bool.and_eq_true, List.all_eq_true] at h3 h4
  have hm : (n, tc, sel) ∈ C04.Spec.fragDefs D4 := by
    simp only [C04.Spec.fragDefs, List.mem_filterMap]
    exact ⟨_, hd, rfl⟩
  have e := h3.1 _ hm
  have c := h4.1 _ hm
  simp only [Bool.or_eq_true] at c
  refine ⟨by simp [C04.Spec.condScope, e], ?_⟩
  rcases c with c | c
  · cases hf : S4.find tc <;> simp [hf] at e c
  · exact c

/-- **typed_of_valid** — a document the validation rules accept is typed in the sense of C01's syntactic
    judgement (FieldsOnCorrectType: every selected field is defined on the type its enclosing field, type
    condition or fragment definition puts in scope), whatever input coercion contributes (`Ann`). -/
theorem typed_of_valid {S4 : C04.Schema} {S : Schema} (hrel : SchemaRel S4 S) (a : Ann) (D4 : C04.Document)
    (h : ValidFacts S4 D4) : (toDoc a D4).typed S = true := by
  have hocc := occOK_of_valid h
  unfold Document.typed toDoc
  simp only [Bool.and_eq_true, List.all_eq_true, List.mem_filterMap]
  constructor
  · rintro fr ⟨d, hd, hfr⟩
    cases d with
    | op kind name vars dirs sel => simp [toFrag?] at hfr
    | frag n np tc tcp dirs sel pos =>
      simp only [toFrag?, Option.some.injEq] at hfr
      subst hfr
      obtain ⟨hs, hc⟩ := fragCond_composite h n np tc tcp dirs sel pos hd
      refine (typed_of_occs hrel a).2.1 sel tc hc (fun o ho => hocc o ?_)
      simp only [C04.Spec.selOccs, List.mem_flatMap]
      exact ⟨_, hd, by simpa [C04.Spec.occDef, hs] using ho⟩
  · rintro op ⟨d, hd, hop⟩
    cases d with
    | frag n np tc tcp dirs sel pos => simp [toOp?] at hop
    | op kind name vars dirs sel =>
      simp only [toOp?, Option.some.injEq] at hop
      subst hop
      simp only [hrel.root_eq]
      have hsup := h.opTypeSupported
      simp only [C04.Spec.opTypeSupported, List.all_eq_true] at hsup
      have := hsup _ hd
      simp only [C04.Spec.opSupportedAt] at this
      cases hr : S4.root (C04.opKindOf kind) with
      | none => simp [hr] at this
      | some r =>
        simp only
        have hc := isComposite_of_isObject S4 r (hrel.roots _ r hr)
        refine (typed_of_occs hrel a).2.1 sel r hc (fun o ho => hocc o ?_)
        simp only [C04.Spec.selOccs, List.mem_flatMap]
        exact ⟨_, hd, by simpa [C04.Spec.occDef, hr] using ho⟩

/-! ## Composite type conditions -/

def inlineOK (S : Schema) : Selection → Bool
  | .inline _ (some tc) _ _ => condOK S tc
  | _ => true

theorem condOK_of_composite {S4 : C04.Schema} {S : Schema} (hrel : SchemaRel S4 S) (tc : String)
    (h : C04.Spec.isComposite S4 tc = true) : condOK S tc = true := by
  have hk := hrel.types tc
  unfold C04.Spec.isComposite at h
  unfold condOK
  cases hk4 : C04.Spec.kindOf S4 tc with
  | none => simp [hk4] at h
  | some k =>
    rw [hk4] at hk
    generalize S.lookup tc = l at hk
    cases k <;> cases hk <;> simp [hk4, C04.TypeKind.isComposite] at h ⊢

def condsAt (S4 : C04.Schema) (o : C04.Spec.Occ) : Bool :=
  C04.Spec.condExistsAt S4 o && C04.Spec.condCompositeAt S4 o

theorem conds_of_occs {S4 : C04.Schema} {S : Schema} (hrel : SchemaRel S4 S) (a : Ann) :
    (∀ s : C04.Selection, ∀ parent, (∀ o ∈ C04.Spec.occSel S4 parent s, condsAt S4 o = true) →
      ∀ x ∈ (toSel a s).nodes, inlineOK S x = true) ∧
    (∀ ss : C04.SelSet, ∀ parent, (∀ o ∈ C04.Spec.occSet S4 parent ss, condsAt S4 o = true) →
      ∀ x ∈ nodesList (toSet a ss), inlineOK S x = true) ∧
    (∀ sels : List C04.Selection, ∀ parent, (∀ o ∈ C04.Spec.occSels S4 parent sels, condsAt S4 o = true) →
      ∀ x ∈ nodesList (toSels a sels), inlineOK S x = true) := by
  apply c04_sel_induction
  · intro al n np args dirs parent h x hx
    simp only [toSel, Selection.nodes, nodesList, List.mem_cons, List.not_mem_nil, or_false] at hx
    subst hx; rfl
  · intro al n np args dirs ss ih parent h x hx
    simp only [toSel, Selection.nodes, List.mem_cons] at hx
    rcases hx with rfl | hx
    · rfl
    · exact ih _ (fun o ho => h o (by simp only [C04.Spec.occSel, List.mem_cons]; exact Or.inr ho)) x hx
  · intro n np dirs pos parent h x hx
    simp only [toSel, Selection.nodes, List.mem_cons, List.not_mem_nil, or_false] at hx
    subst hx; rfl
  · intro tc dirs ss pos ih parent h x hx
    simp only [toSel, Selection.nodes, List.mem_cons] at hx
    rcases hx with rfl | hx
    · cases tc with
      | none => rfl
      | some tp =>
        obtain ⟨t, tpos⟩ := tp
        have h0 := h (.inline parent (some (t, tpos)) dirs pos) (by simp [C04.Spec.occSel])
        simp only [condsAt, C04.Spec.condExistsAt, C04.Spec.condCompositeAt, Bool.and_eq_true, Bool.or_eq_true] at h0
        have hc : C04.Spec.isComposite S4 t = true := by
          rcases h0.2 with c | c
          · cases hf : S4.find t <;> simp [hf] at h0 c
          · exact c
        simpa [inlineOK] using condOK_of_composite hrel t hc
    · exact ih _ (fun o ho => h o (by simp only [C04.Spec.occSel, List.mem_cons]; exact Or.inr ho)) x hx
  · intro sels pos ih parent h x hx
    exact ih parent (by simpa [C04.Spec.occSet] using h) x (by simpa [toSet] using hx)
  · intro parent _ x hx; simp [toSels, nodesList] at hx
  · intro s rest ihs ihr parent h x hx
    simp only [toSels, nodesList, List.mem_append] at hx
    rcases hx with hx | hx
    · exact ihs parent (fun o ho => h o (by simp [C04.Spec.occSels, ho])) x hx
    · exact ihr parent (fun o ho => h o (by simp [C04.Spec.occSels, ho])) x hx

/-- **condsCheck_of_valid** — in a document the validation rules accept every type condition (inline fragment
    or fragment definition) names a composite type: `doesFragmentTypeApply` never meets its
    "unexpected fragment type" panic. -/
theorem condsCheck_of_valid {S4 : C04.Schema} {S : Schema} (hrel : SchemaRel S4 S) (a : Ann) (D4 : C04.Document)
    (h : ValidFacts S4 D4) : (toDoc a D4).condsCheck S = true := by
  have hocc : ∀ o ∈ C04.Spec.selOccs S4 D4, condsAt S4 o = true := by
    intro o ho
    have := occOK_of_valid h o ho
    simp only [occOK, Bool.and_eq_true] at this
    simp [condsAt, this.1.2, this.2]
  unfold Document.condsCheck
  simp only [Bool.and_eq_true, List.all_eq_true]
  constructor
  · intro x hx
    have : inlineOK S x = true := by
      simp only [Document.nodes, toDoc, List.mem_append, List.mem_flatMap, List.mem_filterMap] at hx
      rcases hx with ⟨op, ⟨d, hd, hop⟩, hx⟩ | ⟨fr, ⟨d, hd, hfr⟩, hx⟩
      · cases d with
        | frag n np tc tcp dirs sel pos => simp [toOp?] at hop
        | op kind name vars dirs sel =>
          simp only [toOp?, Option.some.injEq] at hop
          subst hop
          refine (conds_of_occs hrel a).2.1 sel (S4.root (C04.opKindOf kind)) (fun o ho => hocc o ?_) x hx
          simp only [C04.Spec.selOccs, List.mem_flatMap]
          exact ⟨_, hd, by simpa [C04.Spec.occDef] using ho⟩
      · cases d with
        | op kind name vars dirs sel => simp [toFrag?] at hfr
        | frag n np tc tcp dirs sel pos =>
          simp only [toFrag?, Option.some.injEq] at hfr
          subst hfr
          refine (conds_of_occs hrel a).2.1 sel (C04.Spec.condScope S4 tc) (fun o ho => hocc o ?_) x hx
          simp only [C04.Spec.selOccs, List.mem_flatMap]
          exact ⟨_, hd, by simpa [C04.Spec.occDef] using ho⟩
    cases x with
    | inline p tc d sub => cases tc <;> simpa [inlineOK] using this
    | field => rfl
    | spread => rfl
  · intro fr hfr
    simp only [toDoc, List.mem_filterMap] at hfr
    obtain ⟨d, hd, hfr⟩ := hfr
    cases d with
    | op kind name vars dirs sel => simp [toFrag?] at hfr
    | frag n np tc tcp dirs sel pos =>
      simp only [toFrag?, Option.some.injEq] at hfr
      subst hfr
      exact condOK_of_composite hrel tc (fragCond_composite h n np tc tcp dirs sel pos hd).2

end ApiFu.C01
