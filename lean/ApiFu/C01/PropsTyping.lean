/-
  C01 — property theorems, part 2: the hypotheses that Props.lean still carried are discharged from
  decidable tests of (schema, document) — no hypothesis about runs, about the reference's `undef` flag,
  about an externally supplied descent certificate or fuel remains.

    * `Document.typed`, `Schema.wfCheck`, `Document.mergeOK` (Syntactic.lean: the syntactic judgement —
      FieldsOnCorrectType in the scopes type conditions establish, interfaces implemented covariantly,
      FieldsInSetCanMerge) ⇒ the reference meets no undefined field;
    * `Document.typeCheck`  (Typing.lean, an abstract execution over types)  ⇒ the same
    * `Document.noSpreadCycle` (Acyclic.lean) ⇒ a descent certificate exists, bounded by `Lbound D`,
      and the driver's fuel `fuelFor2 S D` is sufficient.
  The driver evaluates all tests for every case and the harness requires them for every validated document.
-/
import ApiFu.C01.Props
import ApiFu.C01.Typing
import ApiFu.C01.Acyclic
import ApiFu.C01.SyntacticProofs

namespace ApiFu.C01

/-- **typed_no_undefined_field** — a document that passes the type check never makes the reference meet a
    field that is undefined on its object type, for every world, operation name and fuel. -/
theorem typed_no_undefined_field (S : Schema) (D : Document) (htyped : D.typeCheck S = true)
    (fuel : Nat) (opName : String) (root : RVal) (s : Spec.SOut)
    (hs : Spec.executeRequest S D fuel opName root = .executed s) : s.undef = false :=
  typeCheck_undef_free S D htyped fuel opName root s hs

/-- **exec_data_eq_ref_typed** — plain data equality for type-checked documents: no `undef` hypothesis,
    no erasure of blank slots. -/
theorem exec_data_eq_ref_typed (S : Schema) (D : Document) (hpos : (D.nodes.map Selection.pos).Nodup)
    (htyped : D.typeCheck S = true)
    (fuel fuel' : Nat) (opName : String) (root : RVal) (resp : Response) (s : Spec.SOut)
    (hm : execute true S D fuel opName root = .ok resp)
    (hs : Spec.executeRequest S D fuel' opName root = .executed s) :
    resp.data = s.data :=
  exec_data_eq_ref S D hpos fuel fuel' opName root resp s hm hs
    (typeCheck_undef_free S D htyped fuel' opName root s hs)

/-- **syntactic_no_undefined_field** — the syntactic typing judgement suffices: if every selected field is
    defined on its parent type in the scope its enclosing field / type condition establishes
    (`Document.typed`: FieldsOnCorrectType), type names are unique and object types carry the fields of
    the interfaces they implement with covariant types (`Schema.wfCheck`: what `schema.New` checks), and
    fields with one response key whose parent types are not two different object types have one name,
    recursively for their merged sub-selections (`Document.mergeOK`: FieldsInSetCanMerge), then the
    reference never meets a field that is undefined on its object type — every world, operation name
    and fuel. All three tests are decidable and hold for every validated document the harness generates. -/
theorem syntactic_no_undefined_field (S : Schema) (D : Document)
    (htyped : D.typed S = true) (hwf : S.wfCheck = true) (hmerge : D.mergeOK S = true)
    (fuel : Nat) (opName : String) (root : RVal) (s : Spec.SOut)
    (hs : Spec.executeRequest S D fuel opName root = .executed s) : s.undef = false :=
  syntactic_undef_free S D htyped hwf hmerge fuel opName root s hs

/-- **exec_data_eq_ref_validated** — plain data equality for documents in the validated shape, stated with
    the syntactic judgement. -/
theorem exec_data_eq_ref_validated (S : Schema) (D : Document) (hpos : (D.nodes.map Selection.pos).Nodup)
    (htyped : D.typed S = true) (hwf : S.wfCheck = true) (hmerge : D.mergeOK S = true)
    (fuel fuel' : Nat) (opName : String) (root : RVal) (resp : Response) (s : Spec.SOut)
    (hm : execute true S D fuel opName root = .ok resp)
    (hs : Spec.executeRequest S D fuel' opName root = .executed s) :
    resp.data = s.data :=
  exec_data_eq_ref S D hpos fuel fuel' opName root resp s hm hs
    (syntactic_undef_free S D htyped hwf hmerge fuel' opName root s hs)

/-- **descent_certificate_exists** — a document that passes `noSpreadCycle` has a descent certificate
    (`D.lvl`) whose values on the document's nodes are below `Lbound D = (#fragments + 2)·(depth + 2)`. -/
theorem descent_certificate_exists (D : Document) (h : D.noSpreadCycle = true) :
    Descends D (· ∈ D.nodes) D.lvl ∧ ∀ s ∈ D.nodes, D.lvl s < D.Lbound :=
  ⟨descends_of_noSpreadCycle D h, lvl_lt_Lbound D h⟩

/-- **driver_fuel_sufficient** — with the fuel the driver uses, the executor model never runs out of fuel on
    a document without spread cycles. -/
theorem driver_fuel_sufficient (memo : Bool) (S : Schema) (D : Document) (hpos : (D.nodes.map Selection.pos).Nodup)
    (hcycle : D.noSpreadCycle = true) (opName : String) (root : RVal) :
    execute memo S D (fuelFor2 S D) opName root ≠ .error .outOfFuel := by
  have hN := nodeSet_of_distinct_positions D hpos
  exact execute_notOof memo S D (· ∈ D.nodes) hN.1 D.lvl (descends_of_noSpreadCycle D hcycle) D.Lbound
    (fun op hop s hs => ⟨hN.2 op hop s hs, lvl_lt_Lbound D hcycle s (hN.2 op hop s hs)⟩)
    (fuelFor2 S D) (Nat.le_refl _) opName root

/-- **exec_correct_total_driver** — the capstone about the fuel the driver really uses, with every
    hypothesis a decidable test of (schema, document):
    closed schema (`closedCheck`), parsed document (distinct positions, non-empty keys), composite type
    conditions (`condsCheck`), no spread cycle (`noSpreadCycle`), type check (`typeCheck`).
    Then for every world and operation name, with fuel `fuelFor2 S D`: the executor model answers, the
    reference answers, and either the reference refuses the request and the response is `data: null`
    with one path-less error, or the response data **equals** the reference's, its errors lie between
    the required and the possible ones, and every required error is reported exactly once. -/
theorem exec_correct_total_driver (S : Schema) (D : Document)
    (hpos : (D.nodes.map Selection.pos).Nodup) (hkeys : ∀ s ∈ D.nodes, s.keyOK)
    (hschema : S.closedCheck = true) (hconds : D.condsCheck S = true)
    (hcycle : D.noSpreadCycle = true) (htyped : D.typeCheck S = true)
    (opName : String) (root : RVal) :
    ∃ resp, execute true S D (fuelFor2 S D) opName root = .ok resp ∧
      ((Spec.executeRequest S D (fuelFor2 S D) opName root = .requestError ∧ resp.data = none ∧
          ∃ e, resp.errors = [e] ∧ e.path = []) ∨
       (∃ s, Spec.executeRequest S D (fuelFor2 S D) opName root = .executed s ∧
          resp.data = s.data ∧ s.req ⊆ₘ resp.errors ∧ resp.errors ⊆ₘ s.all ∧
          ∀ e ∈ s.req, resp.errors.count e = 1)) := by
  have hN := nodeSet_of_distinct_positions D hpos
  have hD := descends_of_noSpreadCycle D hcycle
  have hops : ∀ op ∈ D.ops, ∀ s ∈ op.sels, s ∈ D.nodes ∧ D.lvl s < D.Lbound :=
    fun op hop s hs => ⟨hN.2 op hop s hs, lvl_lt_Lbound D hcycle s (hN.2 op hop s hs)⟩
  obtain ⟨resp, hresp⟩ := execute_total true S D (· ∈ D.nodes) hN.1 (schemaClosed_of_check S hschema)
    (condsComposite_of_check S D hconds) D.lvl hD D.Lbound hops (fuelFor2 S D) (Nat.le_refl _) opName root
  refine ⟨resp, hresp, ?_⟩
  rcases spec_total S D (· ∈ D.nodes) hN.1 (schemaClosed_of_check S hschema) (condsComposite_of_check S D hconds)
    D.lvl hD D.Lbound hops (fuelFor2 S D) (Nat.le_refl _) opName root with hs | ⟨s, hs⟩
  · left
    obtain ⟨e, he, hp⟩ := exec_request_error true S D (fuelFor2 S D) (fuelFor2 S D) opName root hs
    rw [he] at hresp
    have := Except.ok.inj hresp
    subst this
    exact ⟨hs, rfl, e, rfl, hp⟩
  · right
    refine ⟨s, hs, exec_data_eq_ref_typed S D hpos htyped _ _ opName root resp s hresp hs, ?_⟩
    obtain ⟨h1, h2⟩ := errors_sandwich S D hpos hkeys _ _ opName root resp s hresp hs
    exact ⟨h1, h2, null_explained_once S D hpos hkeys _ _ opName root resp s hresp hs⟩

/-- **exec_correct_total_validated** — `exec_correct_total_driver` with the syntactic judgement in place of
    the abstract type check: closed, well-formed schema; parsed document (distinct positions, non-empty
    keys) that is typed, whose fields can merge, whose type conditions are composite and whose spreads
    form no cycle. These are the guarantees of `schema.New` and of validation, as decidable tests. -/
theorem exec_correct_total_validated (S : Schema) (D : Document)
    (hpos : (D.nodes.map Selection.pos).Nodup) (hkeys : ∀ s ∈ D.nodes, s.keyOK)
    (hschema : S.closedCheck = true) (hwf : S.wfCheck = true)
    (hconds : D.condsCheck S = true) (hcycle : D.noSpreadCycle = true)
    (htyped : D.typed S = true) (hmerge : D.mergeOK S = true)
    (opName : String) (root : RVal) :
    ∃ resp, execute true S D (fuelFor2 S D) opName root = .ok resp ∧
      ((Spec.executeRequest S D (fuelFor2 S D) opName root = .requestError ∧ resp.data = none ∧
          ∃ e, resp.errors = [e] ∧ e.path = []) ∨
       (∃ s, Spec.executeRequest S D (fuelFor2 S D) opName root = .executed s ∧
          resp.data = s.data ∧ s.req ⊆ₘ resp.errors ∧ resp.errors ⊆ₘ s.all ∧
          ∀ e ∈ s.req, resp.errors.count e = 1)) := by
  have hN := nodeSet_of_distinct_positions D hpos
  have hD := descends_of_noSpreadCycle D hcycle
  have hops : ∀ op ∈ D.ops, ∀ s ∈ op.sels, s ∈ D.nodes ∧ D.lvl s < D.Lbound :=
    fun op hop s hs => ⟨hN.2 op hop s hs, lvl_lt_Lbound D hcycle s (hN.2 op hop s hs)⟩
  obtain ⟨resp, hresp⟩ := execute_total true S D (· ∈ D.nodes) hN.1 (schemaClosed_of_check S hschema)
    (condsComposite_of_check S D hconds) D.lvl hD D.Lbound hops (fuelFor2 S D) (Nat.le_refl _) opName root
  refine ⟨resp, hresp, ?_⟩
  rcases spec_total S D (· ∈ D.nodes) hN.1 (schemaClosed_of_check S hschema) (condsComposite_of_check S D hconds)
    D.lvl hD D.Lbound hops (fuelFor2 S D) (Nat.le_refl _) opName root with hs | ⟨s, hs⟩
  · left
    obtain ⟨e, he, hp⟩ := exec_request_error true S D (fuelFor2 S D) (fuelFor2 S D) opName root hs
    rw [he] at hresp
    have := Except.ok.inj hresp
    subst this
    exact ⟨hs, rfl, e, rfl, hp⟩
  · right
    refine ⟨s, hs, exec_data_eq_ref_validated S D hpos htyped hwf hmerge _ _ opName root resp s hresp hs, ?_⟩
    obtain ⟨h1, h2⟩ := errors_sandwich S D hpos hkeys _ _ opName root resp s hresp hs
    exact ⟨h1, h2, null_explained_once S D hpos hkeys _ _ opName root resp s hresp hs⟩

/-! ## Non-vacuity -/

namespace Example

/-- the example document passes both tests … -/
example : D.typeCheck S = true := by decide
example : D.noSpreadCycle = true := by decide
/-- … the document selecting an undefined field does not pass the type check … -/
example : Dbad.typeCheck S = false := by decide

/-- … and a document with a spread cycle does not pass `noSpreadCycle`. -/
def Dcyc : Document :=
  { ops := [{ kind := .query, name := none, pos := ⟨1, 1⟩, sels := [.spread ⟨1, 3⟩ "A" []] }],
    frags := [{ name := "A", tc := "Query", sels := [.field ⟨2, 3⟩ none "g" "g" none [] [.spread ⟨2, 7⟩ "B" []]] },
              { name := "B", tc := "Root", sels := [.inline ⟨3, 3⟩ none [] [.spread ⟨3, 9⟩ "A" []]] }] }

example : Dcyc.noSpreadCycle = false := by decide

/-- `exec_correct_total_driver` instantiated: all six hypotheses are decided. -/
example (root : RVal) :
    ∃ resp, execute true S D (fuelFor2 S D) "" root = .ok resp ∧
      ((Spec.executeRequest S D (fuelFor2 S D) "" root = .requestError ∧ resp.data = none ∧
          ∃ e, resp.errors = [e] ∧ e.path = []) ∨
       (∃ s, Spec.executeRequest S D (fuelFor2 S D) "" root = .executed s ∧
          resp.data = s.data ∧ s.req ⊆ₘ resp.errors ∧ resp.errors ⊆ₘ s.all ∧
          ∀ e ∈ s.req, resp.errors.count e = 1)) :=
  exec_correct_total_driver S D (by decide) (by decide) (by decide) (by decide) (by decide) (by decide) "" root

/-- with the driver's fuel the failing world gives the same response as before -/
example : execute true S D (fuelFor2 S D) "" W = .ok { data := some (.obj [("g", .obj [("p", .null)])]), errors := [nullErr] } := by
  rfl

/-- the example passes the syntactic judgement; the document selecting an undefined field is not typed -/
example : D.typed S = true ∧ S.wfCheck = true ∧ D.mergeOK S = true := by decide
example : Dbad.typed S = false := by decide

/-- `{ g { a: p { items { id } } a: g2 … } }`-style conflict: one response key for two different fields of the
    same parent type cannot merge (and would make the executor run `__typename`'s sub-selections under
    the wrong type) -/
def Dconflict : Document :=
  { ops := [{ kind := .query, name := none, pos := ⟨1, 1⟩, sels :=
      [.field ⟨1, 3⟩ none "g" "g" none [] [
        .field ⟨1, 7⟩ (some "a") "p" "p" none [] [.field ⟨1, 14⟩ none "items" "items" none [] [.field ⟨1, 22⟩ none "id" "id" none [] []]],
        .field ⟨1, 30⟩ (some "a") "__typename" "__typename" none [] []]] }],
    frags := [] }

example : Dconflict.typed S = true ∧ Dconflict.mergeOK S = false := by decide

/-- `exec_correct_total_validated` instantiated: all eight hypotheses are decided. -/
example (root : RVal) :
    ∃ resp, execute true S D (fuelFor2 S D) "" root = .ok resp ∧
      ((Spec.executeRequest S D (fuelFor2 S D) "" root = .requestError ∧ resp.data = none ∧
          ∃ e, resp.errors = [e] ∧ e.path = []) ∨
       (∃ s, Spec.executeRequest S D (fuelFor2 S D) "" root = .executed s ∧
          resp.data = s.data ∧ s.req ⊆ₘ resp.errors ∧ resp.errors ⊆ₘ s.all ∧
          ∀ e ∈ s.req, resp.errors.count e = 1)) :=
  exec_correct_total_validated S D (by decide) (by decide) (by decide) (by decide) (by decide) (by decide)
    (by decide) (by decide) "" root

end Example

end ApiFu.C01
